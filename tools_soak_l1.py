#!/venv/bin/python
"""tools_soak_l1.py <seed_from> <seed_to> [n]: soak of the L1 harness (real scheduler.Cell)
on the UNCHANGED tree: every scenario, every weight set, tuples and the focused generators,
judged by SchedTrace.tla; ANY property clause that fails is printed with a replay file."""
import collections, json, os, random, sys
os.environ.setdefault('PYTHONHASHSEED', '0')
if os.environ.get('PYTHONHASHSEED') != '0' or not os.environ.get('_VERIF_REEXEC'):
    os.environ['PYTHONHASHSEED'] = '0'
    os.environ['_VERIF_REEXEC'] = '1'
    os.execv(sys.executable, [sys.executable] + sys.argv)
HERE = os.path.dirname(os.path.abspath(__file__))
sys.path.insert(0, HERE)
from harness import core, tlc  # noqa: E402
core.ensure_repo_on_path()
from harness import sched_common as sc  # noqa: E402

lo, hi = int(sys.argv[1]), int(sys.argv[2])
n = int(sys.argv[3]) if len(sys.argv) > 3 else 150
bad = 0
for seed in range(lo, hi + 1):
    rng = random.Random(seed * 6007 + 5)
    for j in range(3):
        sc.gen_queue_scn(rng, 'sq%d' % j)
    traces = []
    wsets = [None] + list(sc.WEIGHTS.values())
    for name in sorted(sc.SCENARIOS):
        scn = sc.SCENARIOS[name]
        hs = []
        for _ in range(n):
            hs.append(sc.gen_random(scn, rng, rng.choice([6, 10, 14, 18, 24]), rng.choice(wsets)))
        for _ in range(n // 2):
            hs.append(sc.gen_tuples(scn, rng, rng.choice([3, 4, 5])))
        for _ in range(n // 3):
            hs.append(sc.gen_evict(scn, rng))
            hs.append(sc.gen_move_down(scn, rng))
            hs.append(sc.probeify(sc.gen_random(scn, rng, rng.choice([6, 10, 14])), rng, scn))
        for t in sc.record(name, hs):
            t['tid'] = 's%d-%s' % (seed, t['tid'])
            traces.append(t)
    ctx = core.Ctx('SOAK', 'thorough', seed)
    verdicts, _, unjudged = core.validate_robust(lambda ts: sc.validate(ts, timeout=3000), traces, ctx)
    by = {t['tid']: t for t in traces}
    fails = collections.Counter()
    first = {}
    for v in verdicts:
        for f in v['fail']:
            if f[0] == 'C' and f[3] == '.':
                fails[f] += 1
                if f not in first:
                    t = by[v['tid']]
                    first[f] = dict(kind='sched_l1', property=f[:3], clause=f,
                                    scenario=t['tid'].split('-', 1)[1].split(':')[0],
                                    history=t['history'][:t['lines'][v['i']].get('h', v['i'])], failed_step=v['i'])
    print('seed %d: %d traces, %d lines, unjudged %d, failing clauses: %s'
          % (seed, len(traces), len(verdicts), len(unjudged), dict(fails) or 'none'), flush=True)
    for f, p in first.items():
        bad += 1
        path = '/tmp/soakl1-%d-%s.json' % (seed, f)
        json.dump(p, open(path, 'w'))
        print('  %s first at %s (%s): %s' % (f, path, p['scenario'], p['history']), flush=True)
print('DONE bad=%d' % bad)
