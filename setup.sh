#!/bin/sh
# Offline setup: nothing to build (Python + TLA+ sources only).  Sanity-check the tools.
set -e
test -x /venv/bin/python
java -cp /opt/veriftools/tla/tla2tools.jar tlc2.TLC -h >/dev/null 2>&1 || true
/venv/bin/python -c "import sys; sys.path.insert(0,'/repo/lib/python'); import treadmill.scheduler"
mkdir -p /verif/evidence /verif/replays/found
echo setup ok
