"""Shared machinery of the C19 check: scenarios (ids, partition tables, request
domains), rendering them as MC_*.tla modules for specs/cell/Reserve.tla,
history sources (TLC counterexamples, TLC -simulate, a seeded random generator
beyond the model-checked constants), recording on the real code and batched
validation with ReserveTrace.tla."""
import json
import os
import shutil

from . import core, tlc

SPEC_DIR = os.path.join(core.SPECS, 'cell')
ALL_DEFECTS = ['trait_uses_cpu', 'update_checks_request', 'clamp_free']


def Q(cpu, memory, disk):
    return dict(cpu=tuple(cpu), memory=tuple(memory), disk=tuple(disk))


def pct(n):
    return (n, '%')


# ---------------------------------------------------------------------------
# partition tables: [(cell, part, cap, limits)]
T_LIMITS = [
    ('c1', 'p1', Q(pct(300), (3, 'G'), (3, 'G')),
     {'gpu': Q(pct(200), (2, 'G'), (2048, 'M')), 'ssd': Q(pct(100), (3, 'g'), (1, 'G'))}),
]
T_TWO = [
    ('c1', 'p1', Q(pct(300), (3, 'G'), (3072, 'M')),
     {'gpu': Q(pct(200), (2, 'G'), (2, 'G')), 'ssd': Q(pct(300), (1024, 'm'), (1, 'G'))}),
    ('c1', 'p2', Q(pct(200), (2097152, 'K'), (2, 'G')), {}),
    ('c2', 'p1', Q(pct(100), (1, 'G'), (1, 'G')), {'gpu': Q(pct(0), (0, 'G'), (0, 'M'))}),
    # (c2, p2) does not exist: zero capacity
]
T_NOLIMITS = [
    ('c1', 'p1', Q(pct(300), (3, 'G'), (3, 'G')), {}),
    ('c1', 'p2', Q(pct(100), (1, 'G'), (1, 'G')), {'gpu': Q(pct(100), (1, 'G'), (1, 'G'))}),
]

_CPU4 = [pct(0), pct(100), pct(200), pct(300)]
_MEM4 = [(0, 'G'), (1, 'G'), (2048, 'M'), (3, 'g')]
_DISK4 = [(0, 'M'), (1024, 'M'), (2, 'G'), (3145728, 'K')]


def _product(cs, ms, ds):
    return [Q(c, m, d) for c in cs for m in ms for d in ds]


def _star():
    """every dimension runs over 0..3 on its own axis, plus diagonals."""
    out = []
    for k in range(4):
        out.append(Q(_CPU4[k], _MEM4[0], _DISK4[0]))
        out.append(Q(_CPU4[0], _MEM4[k], _DISK4[0]))
        out.append(Q(_CPU4[0], _MEM4[0], _DISK4[k]))
        out.append(Q(_CPU4[k], _MEM4[k], _DISK4[k]))
    out.append(Q(_CPU4[1], _MEM4[2], _DISK4[1]))
    out.append(Q(_CPU4[2], _MEM4[1], _DISK4[1]))
    out.append(Q(_CPU4[1], _MEM4[1], _DISK4[2]))
    seen, uniq = set(), []
    for q in out:
        key = json.dumps(q, sort_keys=True)
        if key not in seen:
            seen.add(key)
            uniq.append(q)
    return uniq


SCENARIOS = {
    # every value 0..3 in every dimension (64 demand vectors), 2 traits, two
    # reservations of one partition with both traits limited
    'full2': dict(ids=[('t1/a1', 'c1'), ('t1/a2', 'c1')], tables=[T_LIMITS], parts=['p1'],
                  traitsets=[[], ['gpu'], ['ssd'], ['gpu', 'ssd']],
                  quantities=_product(_CPU4, _MEM4, _DISK4)),
    # three reservations over two cells and two partitions (one missing, one
    # without limits, one with a zero limit); each dimension 0..3 on its own
    # axis plus diagonals; the default partition by omission
    'star3': dict(ids=[('t1/a1', 'c1'), ('t1/a2', 'c1'), ('t2/a1', 'c2')],
                  tables=[T_TWO], parts=['p1', 'p2'],
                  traitsets=[[], ['gpu'], ['ssd'], ['gpu', 'ssd']],
                  quantities=_star()),
    'star2': dict(ids=[('t1/a1', 'c1'), ('t1/a2', 'c1')],
                  tables=[T_TWO], parts=['p1', 'p2'],
                  traitsets=[[], ['gpu'], ['ssd'], ['gpu', 'ssd']],
                  quantities=_star()),
    # three reservations of one cell, partitions with and without limits
    'three1': dict(ids=[('t1/a1', 'c1'), ('t1/a2', 'c1'), ('t1:sub/a3', 'c1')],
                   tables=[T_LIMITS, T_NOLIMITS], parts=['p1', 'p2'],
                   traitsets=[[], ['gpu'], ['gpu', 'ssd']],
                   quantities=[Q(_CPU4[k], _MEM4[k], _DISK4[j]) for k in range(4) for j in (0, 1, 3)]),
    # three reservations (one under a sub-tenant) of one partition, few demands
    'three0': dict(ids=[('t1/a1', 'c1'), ('t1/a2', 'c1'), ('t1:sub/a3', 'c1')],
                   tables=[T_LIMITS], parts=['p1'],
                   traitsets=[[], ['gpu'], ['gpu', 'ssd']],
                   quantities=[Q(_CPU4[0], _MEM4[0], _DISK4[0]), Q(_CPU4[1], _MEM4[1], _DISK4[1]),
                               Q(_CPU4[2], _MEM4[2], _DISK4[2]), Q(_CPU4[3], _MEM4[3], _DISK4[3]),
                               Q(_CPU4[1], _MEM4[0], _DISK4[2]), Q(_CPU4[0], _MEM4[1], _DISK4[0])]),
    # OVERSUBSCRIPTION: the partition record is rewritten smaller (capacity in one
    # dimension, the gpu limit) or restored while reservations exist; demands with
    # zero in one dimension in every zero spelling
    'reconf': dict(ids=[('t1/a1', 'c1'), ('t1/a2', 'c1')], tables=[T_LIMITS], parts=['p1'],
                   traitsets=[[], ['gpu']],
                   quantities=[Q(pct(100), (1, 'G'), (1024, 'M')), Q(pct(200), (2, 'G'), (1, 'G')),
                               Q(pct(100), (0, 'G'), (0, 'M')), Q(pct(0), (1, 'G'), (0, 'K')),
                               Q(pct(0), (0, 'm'), (1, 'G')), Q(pct(0), (0, 'k'), (0, 'g'))],
                   reconfs=[('c1', 'p1', Q(pct(300), (1, 'G'), (3, 'G')), T_LIMITS[0][3]),
                            ('c1', 'p1', Q(pct(100), (3, 'G'), (3, 'G')), T_LIMITS[0][3]),
                            ('c1', 'p1', Q(pct(300), (3, 'G'), (3, 'G')),
                             {'gpu': Q(pct(200), (1, 'G'), (2048, 'M')), 'ssd': T_LIMITS[0][3]['ssd']}),
                            ('c1', 'p1', Q(pct(300), (3, 'G'), (3, 'G')), {}),
                            ('c1', 'p1') + tuple(T_LIMITS[0][2:])]),
    # smallest model that shows both defects (used for the Defects runs)
    'defect': dict(ids=[('t1/a1', 'c1'), ('t1/a2', 'c1')], tables=[T_LIMITS], parts=['p1'],
                   traitsets=[[], ['gpu']],
                   quantities=[Q(pct(0), (0, 'G'), (0, 'M')), Q(pct(100), (1, 'G'), (1024, 'M')),
                               Q(pct(300), (1, 'G'), (1024, 'M'))]),
}


# ---------------------------------------------------------------------------
# rendering as TLA+
def tla(v):
    if isinstance(v, bool):
        return 'TRUE' if v else 'FALSE'
    if isinstance(v, int):
        return str(v) if v >= 0 else '(0 - %d)' % -v
    if isinstance(v, str):
        return json.dumps(v)
    if isinstance(v, (list, tuple)):
        return '<<' + ', '.join(tla(x) for x in v) + '>>'
    if isinstance(v, (set, frozenset)):
        return '{' + ', '.join(sorted(tla(x) for x in v)) + '}'
    raise TypeError(v)


def tla_q(q):
    return '[cpu |-> %s, memory |-> %s, disk |-> %s]' % (tla(q['cpu']), tla(q['memory']), tla(q['disk']))


def tla_fun(pairs, empty='[z \\in {} |-> 0]'):
    pairs = list(pairs)
    if not pairs:
        return empty
    return '(' + ' @@ '.join('%s :> %s' % (k, v) for k, v in pairs) + ')'


def tla_table(table):
    return tla_fun((tla((cell, part)),
                    '[cap |-> %s, limits |-> %s]' % (
                        tla_q(cap), tla_fun((tla(t), tla_q(l)) for t, l in sorted(limits.items()))))
                   for cell, part, cap, limits in table)


def tla_id(ident):
    return '[alloc |-> %s, cell |-> %s]' % (tla(ident[0]), tla(ident[1]))


def mc_files(scn_name, tag='', defects=(), invariants=(), max_steps=-1, table_idx=None):
    """Render MC_<scn><tag>.tla/.cfg for Reserve.tla -> (module, cfg, files)."""
    scn = SCENARIOS[scn_name]
    tables = scn['tables'] if table_idx is None else [scn['tables'][table_idx]]
    mod = 'MC_%s%s' % (scn_name, tag)
    text = '\n'.join([
        '---- MODULE %s ----' % mod,
        'EXTENDS Reserve',
        'cIds == {%s}' % ', '.join(tla_id(i) for i in scn['ids']),
        'cTables == {%s}' % ',\n  '.join(tla_table(t) for t in tables),
        'cParts == %s' % tla(set(scn['parts'])),
        'cTraitSets == {%s}' % ', '.join(tla(set(ts)) for ts in scn['traitsets']),
        'cQuantities == {%s}' % ',\n  '.join(tla_q(q) for q in scn['quantities']),
        'cReconfs == <<%s>>' % ',\n  '.join(
            '<<%s, %s, [cap |-> %s, limits |-> %s]>>' % (
                tla(c), tla(p), tla_q(cap), tla_fun((tla(t), tla_q(l)) for t, l in sorted(lim.items())))
            for c, p, cap, lim in scn.get('reconfs', [])),
        'cDefects == %s' % tla(set(defects)),
        'cMaxSteps == %s' % tla(max_steps),
        '====', ''])
    cfg = ['INIT Init', 'NEXT Next', 'CHECK_DEADLOCK FALSE', 'CONSTANTS',
           ' Ids <- cIds', ' PartTables <- cTables', ' PartNames <- cParts',
           ' TraitSets <- cTraitSets', ' Quantities <- cQuantities', ' Reconfs <- cReconfs',
           ' Defects <- cDefects', ' MaxSteps <- cMaxSteps']
    cfg += ['INVARIANT %s' % inv for inv in invariants]
    return mod, mod + '.cfg', {mod + '.tla': text, mod + '.cfg': '\n'.join(cfg) + '\n'}


# ---------------------------------------------------------------------------
# CellSync.tla (beyond C19: reservations -> /allocations)
CELLSYNC = dict(
    ids=[('t1/a1', 'c1'), ('t1:sub/a2', 'c1'), ('t1/a1', 'c2')], cells=['c1', 'c2'],
    table=[('c1', 'p1', Q(pct(200), (2, 'G'), (2, 'G')), {'gpu': Q(pct(100), (1, 'G'), (2048, 'M'))}),
           ('c2', 'p1', Q(pct(100), (1, 'G'), (1, 'G')), {})],
    parts=['p1'], traitsets=[['gpu']],
    quantities=[Q(pct(100), (1, 'G'), (1024, 'M')), Q(pct(100), (1024, 'm'), (1, 'g')),
                Q(pct(200), (2097152, 'K'), (1, 'G'))],
    ranks=[None, 50], adjs=[None, 10], maxus=[None, '1.5'],
    patterns=['proid.a*'], prios=[1, 5])


def tla_opt(v):
    return '<<>>' if v is None else '<<%s>>' % tla(v)


def mc_cellsync_files(max_steps, tag='', invariants=(), slim=False):
    """Render MC_cellsync<tag>.tla/.cfg for CellSync.tla."""
    c = CELLSYNC
    mod = 'MC_cellsync%s' % tag
    text = '\n'.join([
        '---- MODULE %s ----' % mod,
        'EXTENDS CellSync',
        'cIds == {%s}' % ', '.join(tla_id(i) for i in c['ids']),
        'cCells == %s' % tla(set(c['cells'])),
        'cTable == %s' % tla_table(c['table']),
        'cParts == %s' % tla(set(c['parts'])),
        'cTraitSets == {%s}' % ', '.join(tla(set(ts)) for ts in c['traitsets']),
        'cQuantities == {%s}' % ',\n  '.join(tla_q(q) for q in (c['quantities'][:2] if slim else c['quantities'])),
        'cRanks == {%s}' % ', '.join(tla_opt(v) for v in c['ranks']),
        'cAdjs == {%s}' % ', '.join(tla_opt(v) for v in (c['adjs'][:1] if slim else c['adjs'])),
        'cMaxus == {%s}' % ', '.join(tla_opt(v) for v in (c['maxus'][:1] if slim else c['maxus'])),
        'cPatterns == %s' % tla(set(c['patterns'])),
        'cPrios == %s' % tla(set(c['prios'])),
        'cDefects == {}',
        'cMaxSteps == %s' % tla(max_steps),
        '====', ''])
    cfg = ['INIT Init', 'NEXT Next', 'CHECK_DEADLOCK FALSE', 'CONSTANTS',
           ' Ids <- cIds', ' Cells <- cCells', ' PartTable <- cTable', ' PartNames <- cParts',
           ' TraitSets <- cTraitSets', ' Quantities <- cQuantities', ' Ranks <- cRanks',
           ' Adjs <- cAdjs', ' Maxus <- cMaxus', ' Patterns <- cPatterns', ' Prios <- cPrios',
           ' Defects <- cDefects', ' MaxSteps <- cMaxSteps']
    cfg += ['INVARIANT %s' % inv for inv in invariants]
    return mod, mod + '.cfg', {mod + '.tla': text, mod + '.cfg': '\n'.join(cfg) + '\n'}


CELLSYNC_INVARIANTS = ['InvAdmission', 'InvFresh', 'InvFreshUnits', 'InvDocCapacity',
                       'InvIdempotent', 'InvEvents']


# ---------------------------------------------------------------------------
# histories
def from_labels(labels, scn=None):
    """TLC action labels -> [(ev, id, r)]."""
    def opt(o):
        return o[0] if o else None
    hist = []
    for ev, args in labels:
        if ev == 'Sync':
            hist.append((ev, ('', args[0]), None))
            continue
        if ev == 'Reconfigure':
            cell, part, cap, lim = SCENARIOS[scn]['reconfs'][args[0] - 1]
            hist.append(('Reconf', ('', cell), dict(part=part, cap=cap, limits=lim)))
            continue
        if ev not in ('Create', 'Update', 'Delete', 'Assign', 'Unassign'):
            continue
        ident = (args[0]['alloc'], args[0]['cell'])
        if ev == 'Delete':
            hist.append((ev, ident, None))
            continue
        if ev in ('Assign', 'Unassign'):
            hist.append((ev, ident, dict(pattern=args[1], priority=args[2] if ev == 'Assign' else 0)))
            continue
        r = args[1]
        req = dict(part=r['part'], tg=bool(r['tg']), traits=sorted(r['traits']),
                   cpu=tuple(r['cpu']), memory=tuple(r['memory']), disk=tuple(r['disk']))
        if 'rank' in r:     # CellSync.tla requests
            req.update(rank=opt(r['rank']), adj=opt(r['adj']), maxu=opt(r['maxu']))
        hist.append((ev, ident, req))
    return hist


def weave_sync(rng, hist, density=1.0):
    """Beyond C19: interleave a request history with cellsync runs of the cells
    it touches, assignments of application patterns, and give some requests a
    rank / rank adjustment / max utilisation.  The reservation requests and
    their order are unchanged."""
    cells = sorted({ident[1] for _ev, ident, _r in hist if ident[1]}) or ['c1']
    if rng.random() >= density:     # thorough tier: only a final Sync per cell
        return list(hist) + [('Sync', ('', c), None) for c in cells]
    patterns = ['proid.a*', 'proid.b-1#*', 'other.*']
    out, seen = [], []
    for ev, ident, r in hist:
        if r is not None and 'pattern' not in r and rng.random() < 0.5:
            r = dict(r, rank=rng.choice([None, None, 0, 50, 100]),
                     adj=rng.choice([None, None, 0, 10]),
                     maxu=rng.choice([None, None, '0.0', '1.5', '2.0']))
        out.append((ev, ident, r))
        if ev in ('Create', 'Update') and ident not in seen:
            seen.append(ident)
        x = rng.random()
        if x < 0.45:
            out.append(('Sync', ('', rng.choice(cells)), None))
            if rng.random() < 0.25:     # twice in a row: idempotence
                out.append(('Sync', ('', out[-1][1][1]), None))
        elif x < 0.65 and seen:
            out.append(('Assign', rng.choice(seen),
                        dict(pattern=rng.choice(patterns), priority=rng.choice([0, 1, 5, 100]))))
        elif x < 0.72 and seen:
            out.append(('Unassign', rng.choice(seen), dict(pattern=rng.choice(patterns), priority=0)))
    for c in cells:
        out.append(('Sync', ('', c), None))
    return out


_SIZE_UNITS = [('K', 1), ('k', 1), ('M', 1024), ('m', 1024), ('G', 1048576), ('g', 1048576)]


def _spell_size(rng, kib):
    """A random schema-valid spelling of exactly `kib` kibibytes."""
    opts = [(kib // mul, sfx) for sfx, mul in _SIZE_UNITS if kib % mul == 0]
    return rng.choice(opts)


def gen_random(rng, depth):
    """(table, history) beyond the model-checked constants: 3 traits, up to 5
    reservations over 2 cells and 3 partitions (one of them '_default', one
    missing), values that are not multiples of the unit (1023M / 1025M around
    1G), every spelling the schema admits.  Guards (create only what is absent,
    update/delete only what is present) are kept with a shadow of the ids."""
    traits = ['gpu', 'ssd', 'x86']
    gib = 1048576
    sizes = [0, gib, gib, 2 * gib, 3 * gib, gib - 1024, gib + 1024, 2 * gib + 1, 512 * 1024]
    cpus = [0, 100, 100, 200, 300, 99, 101, 250]

    def qty(scale):
        return Q(pct(rng.choice(cpus) if scale else 0),
                 _spell_size(rng, rng.choice(sizes) if scale else 0),
                 _spell_size(rng, rng.choice(sizes) if scale else 0))

    def cap():
        return Q(pct(rng.choice([100, 200, 300, 400])),
                 _spell_size(rng, rng.choice([1, 2, 3, 4]) * gib),
                 _spell_size(rng, rng.choice([1, 2, 3, 4]) * gib + rng.choice([0, 0, 1024])))

    table = []
    for cell in ('c1', 'c2'):
        for part in ('p1', '_default', 'p3'):
            if rng.random() < 0.2:
                continue        # missing partition: zero capacity
            limits = {t: qty(True) for t in traits if rng.random() < 0.5}
            table.append((cell, part, cap(), limits))
    ids = [('t1/a1', 'c1'), ('t1/a2', 'c1'), ('t1:sub/a3', 'c1'), ('t2/a1', 'c1'), ('t1/a1', 'c2')]
    present = set()
    hist = []
    for _ in range(depth):
        x = rng.random()
        absent = [i for i in ids if i not in present]
        if present and x < 0.12:
            ident = rng.choice(sorted(present))
            present.discard(ident)
            hist.append(('Delete', ident, None))
            continue
        if absent and (x < 0.65 or not present):
            ev, ident = 'Create', rng.choice(absent)
        else:
            ev, ident = 'Update', rng.choice(sorted(present))
        part = rng.choice(['p1', 'p1', '_default', 'p3'])
        tg = rng.random() < (0.7 if ev == 'Create' else 0.4)
        ts = sorted(t for t in traits if rng.random() < 0.5) if tg else []
        if ev == 'Update' and tg and not ts:
            ts = [rng.choice(traits)]
        q = qty(rng.random() < 0.9)
        hist.append((ev, ident, dict(part=part, tg=tg, traits=ts, **q)))
        present.add(ident)      # optimistic shadow; corrected in record()
    return table, hist


def gen_traits(rng, depth):
    """Focused: one partition with roomy capacity, tight limits on a proper,
    non-empty subset of the traits, reservations that carry several traits (any
    subset, so limited and unlimited traits meet in one list) and whose size is
    a good fraction of a limit - the per-trait bookkeeping decides every request."""
    traits = ['gpu', 'ssd', 'x86']
    gib = 1048576
    limited = rng.sample(traits, rng.choice([1, 1, 2]))
    limits = {t: Q(pct(rng.choice([100, 200, 300])), _spell_size(rng, rng.choice([1, 2, 3]) * gib),
                   _spell_size(rng, rng.choice([1, 2, 3]) * gib)) for t in limited}
    table = [('c1', 'p1', Q(pct(900), _spell_size(rng, 9 * gib), _spell_size(rng, 9 * gib)), limits)]
    ids = [('t1/a1', 'c1'), ('t1/a2', 'c1'), ('t1:sub/a3', 'c1'), ('t2/a1', 'c1')]
    present, hist = set(), []
    for _ in range(depth):
        absent = [i for i in ids if i not in present]
        x = rng.random()
        if present and x < 0.1:
            ident = rng.choice(sorted(present))
            present.discard(ident)
            hist.append(('Delete', ident, None))
            continue
        if absent and (x < 0.7 or not present):
            ev, ident = 'Create', rng.choice(absent)
        else:
            ev, ident = 'Update', rng.choice(sorted(present))
        tg = ev == 'Create' or rng.random() < 0.5
        ts = sorted(rng.sample(traits, rng.choice([1, 2, 2, 3]))) if tg else []
        q = Q(pct(rng.choice([100, 100, 200])), _spell_size(rng, rng.choice([1, 1, 2]) * gib),
              _spell_size(rng, rng.choice([1, 1, 2]) * gib))
        hist.append((ev, ident, dict(part='p1', tg=tg, traits=ts, **q)))
        present.add(ident)
    return table, hist


def gen_oversub(rng, depth):
    """Focused: OVERSUBSCRIPTION.  Reservations are made, then the partition
    record is rewritten with a smaller capacity in one dimension or a smaller
    trait limit (below what is already promised there), then requests arrive
    that ask for exactly ZERO in that dimension -- in every spelling the schema
    admits ('0%', '0K' '0k' '0M' '0m' '0G' '0g') -- and for something elsewhere,
    next to ordinary requests; sometimes the record is restored."""
    gib = 1048576
    dims = ['cpu', 'memory', 'disk']
    traits = ['gpu', 'ssd']
    big = Q(pct(400), (4, 'G'), (4, 'G'))
    limits = {t: Q(pct(300), (3, 'G'), (3, 'G')) for t in traits if rng.random() < 0.7}
    table = [('c1', 'p1', big, limits)]
    ids = [('t1/a1', 'c1'), ('t1/a2', 'c1'), ('t1:sub/a3', 'c1'), ('t2/a1', 'c1')]

    def qty(zero_dims=()):
        vals = dict(cpu=rng.choice([100, 100, 200]), memory=rng.choice([1, 1, 2]) * gib,
                    disk=rng.choice([1, 1, 2]) * gib)
        for d in zero_dims:
            vals[d] = 0
        return Q(pct(vals['cpu']), _spell_size(rng, vals['memory']), _spell_size(rng, vals['disk']))

    hist, present = [], []
    for ident in rng.sample(ids, rng.choice([2, 2, 3])):
        hist.append(('Create', ident, dict(part='p1', tg=True, traits=sorted(
            t for t in traits if rng.random() < 0.6), **qty())))
        present.append(ident)
    over = None
    for _ in range(depth):
        x = rng.random()
        if over is None or x < 0.12:
            d = rng.choice(dims)
            small = dict(cpu=pct(rng.choice([0, 100])), memory=_spell_size(rng, rng.choice([0, 1]) * gib),
                         disk=_spell_size(rng, rng.choice([0, 1]) * gib))[d]
            if limits and rng.random() < 0.5:
                t = rng.choice(sorted(limits))
                new_limits = dict(limits, **{t: dict(limits[t], **{d: small})})
                hist.append(('Reconf', ('', 'c1'), dict(part='p1', cap=big, limits=new_limits)))
            else:
                hist.append(('Reconf', ('', 'c1'), dict(part='p1', cap=dict(big, **{d: small}), limits=limits)))
            over = d
        elif x < 0.2:
            hist.append(('Reconf', ('', 'c1'), dict(part='p1', cap=big, limits=limits)))
            over = None
        elif x < 0.28 and present:
            ident = rng.choice(present)
            present.remove(ident)
            hist.append(('Delete', ident, None))
        else:
            absent = [i for i in ids if i not in present]
            if absent and (rng.random() < 0.5 or not present):
                ev, ident = 'Create', rng.choice(absent)
                present.append(ident)
            else:
                ev, ident = 'Update', rng.choice(present)
            zero = [over] if rng.random() < 0.75 else []
            if zero and rng.random() < 0.3:
                zero += [rng.choice([d for d in dims if d != over])]
            tg = ev == 'Create' or rng.random() < 0.4
            ts = sorted(t for t in traits if rng.random() < 0.5) if tg else []
            if ev == 'Update' and tg and not ts:
                ts = [rng.choice(traits)]
            hist.append((ev, ident, dict(part='p1', tg=tg, traits=ts, **qty(zero))))
    return table, hist


def record(items):
    """items: [(name, src, table, history)] -> traces.  A history whose guards
    do not hold on the real directory (a Create that was rejected leaves the id
    absent, so a later Update of it is not a request the model has) is cut at
    that point: the directory, not the shadow, decides."""
    from . import reserve_driver as drv
    traces = []
    for k, (name, src, table, hist) in enumerate(items):
        world = drv.World(table)
        lines = [dict(ev='Init', post=world.project())]
        done = []
        for ev, ident, r in hist:
            present = {(x['alloc'], x['cell']) for x in lines[-1]['post']['res']}
            if ev in ('Sync', 'Reconf'):
                pass
            elif ev in ('Assign', 'Unassign'):
                if ident not in present:
                    continue
                if ev == 'Unassign' and not any(
                        a[0] == r['pattern'] for x in lines[-1]['post']['res']
                        if (x['alloc'], x['cell']) == ident for a in x['asg']):
                    continue
            elif (ev == 'Create') == (ident in present):
                if ev == 'Create':
                    ev = 'Update'
                    if r['tg'] and not r['traits']:
                        continue
                elif ev == 'Update':
                    ev = 'Create'
                else:
                    continue
            out, exn = world.request(ev, ident, r)
            line = dict(ev=ev, id=dict(alloc=ident[0], cell=ident[1]), out=out, exc=exn,
                        post=world.project(with_parts=(ev == 'Reconf')))
            if r is not None:
                line['r'] = drv.norm_request(r)
            lines.append(line)
            done.append((ev, ident, r))
        traces.append(dict(tid='%s:%d' % (name, k), src=src, parts=world.header(), lines=lines,
                           table=table, history=done))
    return traces


def validate(traces, timeout=600, cfg='ReserveTrace.cfg'):
    work = tlc.scratch('verif-batch-')
    try:
        path = os.path.join(work, 'batch.json')
        with open(path, 'w') as f:
            json.dump(dict(traces=[dict(tid=t['tid'], parts=t['parts'], lines=t['lines'])
                                   for t in traces]), f)
        return tlc.validate(SPEC_DIR, 'ReserveTrace', cfg, path, timeout=timeout)
    finally:
        shutil.rmtree(work, ignore_errors=True)
