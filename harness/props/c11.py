"""C11: see DESIGN.md section 6 and harness/master_check.py."""
from .. import master_check


def run(ctx):
    return master_check.run(ctx, 'C11')


def replay(ctx, path):
    return master_check.replay(ctx, 'C11', path)


def selftest(ctx):
    return master_check.selftest(ctx, 'C11')
