"""C19: accepted reservations never exceed partition capacity or trait limits.
DESIGN.md section 6 (C19), section 7 #9, appendix F.  Pipeline (HOWTO.md):

 1. TLC model-checks specs/cell/Reserve.tla (repaired behaviour, Defects = {}):
    the local admission rule keeps InvC19 over all request sequences.
 2. TLC model-checks the same spec with each known defect switched on; the
    counterexamples (shortest by BFS) become histories.
 3. TLC -simulate and a seeded random generator give more histories.
 4. Every history is replayed on the real api.allocation reservation
    create/update/delete (harness/reserve_driver.py).
 5. TLC judges the recorded traces with specs/cell/ReserveTrace.tla.
"""
import collections
import concurrent.futures
import json
import random

from .. import core, tlc
from .. import reserve_common as rc

PROP = 'C19'
RULE = ('a history counts when at least one of its requests is judged together with another '
        'reservation of the same cell and partition (the sum has something to count); '
        'distinct = distinct (partition table, request sequence) pairs.  extra.trait_sharing '
        'counts those where another reservation carries a limited trait of the request')

ASSUMPTIONS = [
    'the reservation create/update/delete closures of api.allocation.API are called directly '
    '(no REST layer, no authorization plugin); requests are valid for etc/schema/reservation.json '
    '(cpu ^\\d+%$, memory/disk ^\\d+[KkMmGg]$) and always carry cpu, memory, disk',
    'admin objects are the real admin._ldap.CellAllocation / Partition over an in-memory '
    'directory (harness/reserve_driver.MemLdap: search/add/modify/delete on a dict); LDAP '
    'server behaviour beyond that (replication delay, concurrent writers) is not modelled: '
    'requests are sequential',
    'Create is issued only for an absent reservation, Update/Delete only for a present one; an '
    'Update always names its partition (as reservation.json#/verbs/update and the CLI do) and '
    'never carries an explicitly empty traits list',
    'a partition record may be rewritten at any moment (smaller capacity, smaller / new / no '
    'trait limits) through the real Partition.update; oversubscription is a legal state; the '
    'statement is then judged request by request (C19.inv: the accepted reservation\'s own '
    'partition and the limited traits it carries are within bounds)',
    'beyond C19 (extensions.cellsync, DRIFT class): cellsync.sync_allocations runs against the same '
    'directory and one harness/zkfake per cell with context.GLOBAL.cell / zk.conn patched; the order '
    'of the /allocations list (the directory search order) is left open; requests may carry '
    'rank 0..100, rank_adjustment, max_utilization; assignments go through assignment.update/delete',
    'treadmill.schema needs decorator.getargspec (decorator<5); the harness aliases it to '
    'inspect.getfullargspec because the sandbox has decorator 5',
]


def _mc_jobs(ctx):
    good = ['star2', 'three0', 'reconf'] if ctx.quick else \
        ['full2', 'star2', 'three0', 'reconf', 'three1', 'star3']
    jobs = [('repaired/' + scn, scn, (), ['InvReserve', 'InvNoCrash']) for scn in good]
    jobs.append(('defect:trait_uses_cpu', 'defect', ('trait_uses_cpu',), ['InvNoCrash']))
    jobs.append(('defect:update_checks_request', 'defect', ('update_checks_request',),
                 ['InvReserve']))
    jobs.append(('defect:clamp_free', 'reconf', ('clamp_free',), ['InvReserve']))
    return jobs


def _mc_one(ctx, job):
    _name, scn, defects, invs = job
    tag = ('_' + '_'.join(defects)) if defects else ''
    mod, cfg, files = rc.mc_files(scn, tag=tag, defects=defects, invariants=invs)
    workers = {'star3': 10, 'three1': 6, 'full2': 4, 'star2': 8 if ctx.quick else 3}.get(scn, 1)
    # per-action coverage (vacuity control) on the small configuration only
    return tlc.mc(rc.SPEC_DIR, mod, cfg, extra_files=files, coverage=(scn == 'three0'),
                  workers=workers, heap='4g', timeout=150 if ctx.quick else 600)


GEN_SOURCES = [('star3', 0), ('three1', 0), ('three1', 1), ('full2', 0), ('reconf', 0)]


# ---- beyond C19: reservations -> /allocations (CellSync.tla) -------------
def _density(ctx):
    """share of histories that get the full Sync/Assign interleaving"""
    return 1.0 if ctx.quick else 0.4


def _cellsync_jobs(ctx):
    return [('ext cellsync slim<=4', 4, True)] if ctx.quick else \
        [('ext cellsync slim<=6', 6, True), ('ext cellsync full<=3', 3, False)]


def _cellsync_mc(ctx, job):
    _name, steps, slim = job
    mod, cfg, files = rc.mc_cellsync_files(steps, tag='_%d%s' % (steps, 's' if slim else 'f'),
                                           invariants=rc.CELLSYNC_INVARIANTS, slim=slim)
    return tlc.mc(rc.SPEC_DIR, mod, cfg, extra_files=files, coverage=False,
                  workers=2 if ctx.quick else 6, heap='4g', timeout=150 if ctx.quick else 600)


def _cellsync_sim(ctx):
    depth = 9 if ctx.quick else 12
    mod, cfg, files = rc.mc_cellsync_files(depth, tag='_gen')
    return tlc.simulate(rc.SPEC_DIR, mod, cfg, num=40 if ctx.quick else 1200, depth=depth + 1,
                        seed=ctx.seed * 31 + 97, procs=1 if ctx.quick else 3,
                        extra_files=files, timeout=120 if ctx.quick else 900)


def _sim_one(ctx, k, scn, ti):
    n_tlc = 40 if ctx.quick else 1200
    depth = 7 if ctx.quick else 9
    mod, cfg, files = rc.mc_files(scn, tag='_gen%d' % ti, max_steps=depth, table_idx=ti)
    return tlc.simulate(rc.SPEC_DIR, mod, cfg, num=n_tlc, depth=depth + 1,
                        seed=ctx.seed * 31 + k, procs=1 if ctx.quick else 3,
                        extra_files=files, timeout=120 if ctx.quick else 900)


def _model_side(ctx):
    """Step 1+2+3a, concurrently: model checking (repaired model must hold, each
    defect model must fail) and TLC -simulate.  Returns history items."""
    jobs = _mc_jobs(ctx)
    xjobs = _cellsync_jobs(ctx)
    with concurrent.futures.ThreadPoolExecutor(len(jobs) + len(GEN_SOURCES) + len(xjobs) + 1) as ex:
        mc_f = [ex.submit(_mc_one, ctx, j) for j in jobs]
        sim_f = [ex.submit(_sim_one, ctx, k, scn, ti) for k, (scn, ti) in enumerate(GEN_SOURCES)]
        xmc_f = [ex.submit(_cellsync_mc, ctx, j) for j in xjobs]
        xsim_f = ex.submit(_cellsync_sim, ctx)
        mc_res = [f.result() for f in mc_f]
        sim_res = [f.result() for f in sim_f]
        xmc_res = [f.result() for f in xmc_f]
        xsim, xcmd = xsim_f.result()
    items = []
    ctx.ext_model_runs = []
    for (name, _steps, _slim), res in zip(xjobs, xmc_res):
        ctx.cmds.append(res['cmd'])
        ctx.log('MC %s: %d generated, %d distinct, depth %d, %.1fs%s%s' % (
            name, res['generated'], res['distinct'], res['depth'], res['wall_s'],
            ' (TIMEOUT: partial)' if res['timed_out'] else '',
            ' VIOLATED %s' % res['violated'] if res['violated'] else ''))
        ctx.ext_model_runs.append(dict(name=name, generated=res['generated'], distinct=res['distinct'],
                                       complete=res['ok'], violated=res['violated'],
                                       invariants=rc.CELLSYNC_INVARIANTS))
        if res['violated']:
            # the extension's own model is inconsistent: machinery, not the code
            raise tlc.MachineryError('CellSync.tla violates its own invariant %s\n%s'
                                     % (res['violated'], res['out'][-1500:]))
    ctx.cmds.append(xcmd)
    for b in xsim:
        items.append(('tlc:cellsync', 'tlc-cellsync', rc.CELLSYNC['table'], rc.from_labels(b)))
    for (name, scn, defects, invs), res in zip(jobs, mc_res):
        ctx.add_mc(name, res, need_actions=('Create', 'Update', 'Delete') if res['coverage'] else ())
        labels = [(a, tlc.tlaval.split_args(b)) for a, b in res['cex'] if a not in ('Initial', 'Next')]
        table = rc.SCENARIOS[scn]['tables'][0]
        hist_of = lambda ls, scn=scn: rc.from_labels(ls, scn)
        if defects:
            if not res['violated']:
                raise tlc.MachineryError('the model with %s no longer violates %s' % (defects, invs))
            ctx.log('model with Defects=%s violates %s after %d requests; replayed on the code'
                    % (list(defects), res['violated'], len(labels)))
            items.append(('cex:' + defects[0], 'cex', table, hist_of(labels)))
        elif res['violated']:
            # A violation of the SPECIFICATION.  It only becomes a violation of
            # the code if the replay reproduces it.
            ctx.log('REPAIRED model violates %s; counterexample is replayed on the code'
                    % res['violated'])
            items.append(('cex:model', 'cex', table, hist_of(labels)))
        elif res['timed_out']:
            ctx.log('MC %s timed out: partial' % name)
    for (scn, ti), (behaviours, cmd) in zip(GEN_SOURCES, sim_res):
        ctx.cmds.append(cmd)
        wrng = random.Random(ctx.seed * 104729 + 7)
        for b in behaviours:
            # reservation requests as TLC generated them, interleaved with cellsync runs
            items.append(('tlc:%s' % scn, 'tlc', rc.SCENARIOS[scn]['tables'][ti],
                          rc.weave_sync(wrng, rc.from_labels(b, scn), _density(ctx))))
    return items


def _random_side(ctx):
    items = []
    n_rnd = 400 if ctx.quick else 12000
    rng = random.Random(ctx.seed * 7919 + 19)
    for _ in range(n_rnd):
        table, hist = rc.gen_random(rng, rng.choice([5, 8, 12]))
        items.append(('rnd', 'rnd', table, rc.weave_sync(rng, hist, _density(ctx))))
    for _ in range(n_rnd // 2):
        table, hist = rc.gen_traits(rng, rng.choice([4, 6, 8]))
        items.append(('rnd', 'rnd-traits', table, rc.weave_sync(rng, hist, _density(ctx))))
    for _ in range(n_rnd // 4):
        table, hist = rc.gen_oversub(rng, rng.choice([4, 6, 9]))
        items.append(('rnd', 'rnd-oversub', table, rc.weave_sync(rng, hist, 0.3 * _density(ctx))))
    return items


def run(ctx):
    items = _model_side(ctx) + _random_side(ctx)
    ctx.log('%d histories (%d from TLC)' % (len(items), sum(1 for i in items if i[1] != 'rnd')))
    traces = rc.record(items)
    ctx.log('recorded %d traces, %d lines' % (len(traces), sum(len(t['lines']) for t in traces)))
    return _validate_and_judge(ctx, traces, full_run=True)


def _validate_and_judge(ctx, traces, full_run=False):
    verdicts, stats = rc.validate(traces, timeout=300 if ctx.quick else 1500)
    ctx.cmds.append(stats['cmd'])
    total = sum(len(t['lines']) - 1 for t in traces)
    if len(verdicts) != total:
        raise tlc.MachineryError('trace spec judged %d of %d lines' % (len(verdicts), total))
    if full_run:
        # vacuity control on the generated batch as a whole
        seen = collections.Counter(f for v in verdicts for f in v['ex'])
        for flag in ('C19', 'trait', 'replace', 'accept', 'reject', 'reconf.over', 'oversub',
                     'oversub.zero',
                     'ext.sync', 'ext.sync.noop', 'ext.sync.updates', 'ext.sync.removes', 'ext.assign'):
            if not seen[flag]:
                raise tlc.MachineryError('vacuity: no generated request exercised %r' % flag)
    return judge(ctx, traces, verdicts)


def _show(ev, ident, r):
    if ev == 'Sync':
        return 'Sync(%s)' % ident[1]
    if r is None:
        return '%s(%s/%s)' % (ev, ident[0], ident[1])
    if 'pattern' in r:
        return '%s(%s/%s %s priority=%s)' % (ev, ident[0], ident[1], r['pattern'], r.get('priority'))
    if 'cap' in r:
        from ..reserve_driver import spell
        q = lambda x: '/'.join(spell(x[k]) for k in ('cpu', 'memory', 'disk'))
        return 'Reconf(%s/%s cap=%s limits=%s)' % (
            ident[1], r['part'], q(r['cap']),
            ','.join('%s:%s' % (t, q(l)) for t, l in sorted(r['limits'].items())) or '-')
    from ..reserve_driver import spell
    return '%s(%s/%s part=%s traits=%s cpu=%s memory=%s disk=%s)' % (
        ev, ident[0], ident[1], r['part'], ','.join(r['traits']) if r['tg'] else '<none given>',
        spell(r['cpu']), spell(r['memory']), spell(r['disk']))


def judge(ctx, traces, verdicts):
    by_tid = {t['tid']: t for t in traces}
    violations, samples = [], []
    nontrivial, sharing = set(), set()
    evaluations = 0
    outcomes = collections.Counter()
    flags = collections.Counter()
    ext_steps, ext_failed = collections.Counter(), collections.Counter()
    for v in verdicts:
        t = by_tid[v['tid']]
        line = t['lines'][v['i']]
        fails = set(v['fail'])
        for f in v['ex']:
            flags[f] += 1
        ext_steps[line['ev']] += 1
        for f in fails:
            if f.startswith('ext.'):
                ext_failed[f] += 1
        if line['ev'] in ('Sync', 'Assign', 'Unassign', 'Reconf'):
            if fails - {f for f in fails if f.startswith('ext.')}:
                ctx.drift += 1
            continue            # not a reservation request: no C19 clause applies
        evaluations += 1
        outcomes[line['out'] if line['ev'] != 'Delete' else 'delete'] += 1
        if any(f.startswith('drift.') for f in fails):
            ctx.drift += 1
        key = core.hist_hash([t['parts'], t['history']])
        if PROP in v['ex']:
            nontrivial.add(key)
        if 'trait' in v['ex']:
            sharing.add(key)
        for f in sorted(fails):
            if f.startswith(PROP + '.'):
                sig = f if line['out'] != 'exc' else '%s:%s' % (f, line['exc'])
                violations.append(dict(
                    clause=f, signature=sig,
                    what='%s answered %s%s at step %d of %s (%d requests)' % (
                        _show(*t['history'][v['i'] - 1]), line['out'],
                        ' ' + line['exc'] if line['out'] == 'exc' else '', v['i'], t['tid'], v['i']),
                    steps=v['i'],
                    replay_payload=dict(kind='reserve', property=PROP, clause=f, table=t['table'],
                                        history=t['history'][:v['i']], failed_step=v['i'])))
    # the shortest failing input of each signature is the one reported
    violations.sort(key=lambda x: (x['signature'], x['steps']))
    for t in traces:
        if core.hist_hash([t['parts'], t['history']]) in sharing and len(samples) < 3:
            samples.append(dict(trace=t['tid'], source=t['src'],
                                partitions=['%s/%s' % (p['cell'], p['part']) for p in t['parts']],
                                history=[_show(*h) for h in t['history']],
                                outcomes=[l['out'] for l in t['lines'][1:]]))
    if ctx.drift:
        print('DRIFT: %d recorded steps are not what ReserveCore computes '
              '(spec needs updating; not a violation)' % ctx.drift)
    if ext_failed:
        print('DRIFT: behaviour modelled beyond the listed property (CellSyncCore.tla: reservations '
              '-> /allocations) is not what the model computes on %d clause evaluations %s '
              '(spec needs updating; not a violation)' % (sum(ext_failed.values()), dict(ext_failed)))
    extensions = dict(cellsync=dict(
        what='cellsync.sync_allocations (-> masterapi.update_allocations -> /allocations + '
             "'allocations' event) and assignment.update/delete as actions Sync / Assign / Unassign of "
             'CellSync.tla, interleaved with the reservation histories on the same in-memory '
             'directory and one harness/zkfake per cell; clauses ext.dir.meta, ext.cellsync.doc, '
             '.unique, .event, .frame, .capacity (conformance class: DRIFT, exit 0)',
        clauses=['ext.dir.meta', 'ext.cellsync.doc', 'ext.cellsync.unique', 'ext.cellsync.event',
                 'ext.cellsync.frame', 'ext.cellsync.capacity'],
        model_runs=getattr(ctx, 'ext_model_runs', []),
        steps_judged=sum(ext_steps.values()), syncs=ext_steps['Sync'],
        assignments=ext_steps['Assign'] + ext_steps['Unassign'],
        syncs_noop=flags['ext.sync.noop'], syncs_changing_a_document=flags['ext.sync.updates'],
        syncs_removing_an_entry=flags['ext.sync.removes'],
        failed=dict(ext_failed)))
    return core.conclude(
        ctx, level='model_checking', violations=violations, evaluations=evaluations,
        distinct_nontrivial=len(nontrivial), rule=RULE, samples=samples,
        traces_validated=len(traces), assumptions=ASSUMPTIONS,
        extra=dict(trace_sources=dict(collections.Counter(t['src'] for t in traces)),
                   trait_sharing=len(sharing), outcomes=dict(outcomes),
                   exercised=dict(flags), extensions=extensions))


def replay(ctx, path):
    payload = json.load(open(path))
    table = [(c, p, cap, lim) for c, p, cap, lim in payload['table']]
    hist = [(ev, tuple(ident), r) for ev, ident, r in payload['history']]
    traces = rc.record([('replay', 'replay', table, hist)])
    return _validate_and_judge(ctx, traces)


def selftest(ctx):
    """DESIGN.md 4.4: (a) corrupt one logged field of a clean trace -> TLC must
    name the clause; (b) code mutants -> the check must exit 1."""
    import copy
    from .. import selftest_util
    Q, pct = rc.Q, rc.pct

    def req(cpu, traits=None):
        return dict(part='p1', tg=traits is not None, traits=traits or [],
                    **Q(pct(cpu), (1, 'G'), (1024, 'M')))
    a1, a2 = ('t1/a1', 'c1'), ('t1/a2', 'c1')
    hist = [('Create', a1, req(100)), ('Create', a2, req(300)), ('Update', a1, req(200)),
            ('Delete', a1, None)]
    base = rc.record([('selftest', 'selftest', rc.T_LIMITS, hist)])[0]
    if [l['out'] for l in base['lines'][1:]] != ['ok', 'invalid', 'ok', 'ok']:
        raise tlc.MachineryError('selftest base trace is not ok/invalid/ok/ok: %r'
                                 % [l['out'] for l in base['lines'][1:]])

    def corrupt(name, line, expect, fn):
        t = copy.deepcopy(base)
        t['tid'] = name
        fn(t['lines'][line])
        return t, line, expect
    cases = [
        (base, None, None),
        corrupt('accepted->invalid', 1, 'C19.accept', lambda l: l.update(out='invalid')),
        corrupt('rejected->ok', 2, 'C19.reject', lambda l: l.update(out='ok')),
        corrupt('accepted->exception', 1, 'C19.noCrash', lambda l: l.update(out='exc', exc='ValueError')),
        corrupt('stored cpu 100%->400%', 1, 'C19.inv', lambda l: l['post']['res'][0].update(cpu=[400, '%'])),
        corrupt('stored memory 1G->2G', 3, 'drift.step', lambda l: l['post']['res'][0].update(memory=[2, 'G'])),
    ]
    verdicts, _ = rc.validate([c[0] for c in cases])
    problems = []
    by = collections.defaultdict(dict)
    for v in verdicts:
        by[v['tid']][v['i']] = set(v['fail'])
    if any(by[base['tid']].values()):
        problems.append('uncorrupted trace has failures %r' % dict(by[base['tid']]))
    for t, line, expect in cases[1:]:
        got = by[t['tid']].get(line, set())
        ctx.log('corruption %-24s line %d -> %s' % (t['tid'], line, sorted(got)))
        if expect not in got:
            problems.append('corruption %r: expected %s, got %s' % (t['tid'], expect, sorted(got)))
    # beyond C19: the ext.* clauses bind as well (reported as DRIFT, so only
    # trace corruption can show it here)
    xhist = [('Create', a1, dict(req(100, ['gpu']), rank=50)), ('Sync', ('', 'c1'), None),
             ('Assign', a1, dict(pattern='proid.a*', priority=5)), ('Sync', ('', 'c1'), None),
             ('Sync', ('', 'c1'), None)]
    xbase = rc.record([('selftest-ext', 'selftest', rc.T_LIMITS, xhist)])[0]

    def xcorrupt(name, line, expect, fn):
        t = copy.deepcopy(xbase)
        t['tid'] = name
        fn(t['lines'][line]['post'])
        return t, line, expect
    xcases = [
        (xbase, None, None),
        xcorrupt('document spells 100% as 1%', 2, 'ext.cellsync.doc',
                 lambda p: p['docs'][0]['entries'][0].update(cpu=[1, '%'])),
        xcorrupt('document loses the assignment', 4, 'ext.cellsync.doc',
                 lambda p: p['docs'][0]['entries'][0].update(asg=[])),
        xcorrupt('entry listed twice', 2, 'ext.cellsync.unique',
                 lambda p: p['docs'][0]['entries'].append(dict(p['docs'][0]['entries'][0]))),
        xcorrupt('second sync queues an event', 5, 'ext.cellsync.event',
                 lambda p: p['events'][0].update(n=p['events'][0]['n'] + 1)),
        xcorrupt('assignment call rewrites the document', 3, 'ext.cellsync.frame',
                 lambda p: p['docs'][0]['entries'][0].update(rank=100)),
        xcorrupt('stored rank 50 becomes 100', 1, 'ext.dir.meta',
                 lambda p: p['res'][0].update(rank=100)),
        xcorrupt('document promises 300% of a 200% limit', 2, 'ext.cellsync.capacity',
                 lambda p: p['docs'][0]['entries'][0].update(cpu=[300, '%'])),
    ]
    verdicts, _ = rc.validate([c[0] for c in xcases])
    xby = collections.defaultdict(dict)
    for v in verdicts:
        xby[v['tid']][v['i']] = set(v['fail'])
    if any(xby[xbase['tid']].values()):
        problems.append('uncorrupted extension trace has failures %r' % dict(xby[xbase['tid']]))
    for t, line, expect in xcases[1:]:
        got = xby[t['tid']].get(line, set())
        ctx.log('corruption %-40s line %d -> %s' % (t['tid'], line, sorted(got)))
        if expect not in got or any(f.startswith('C19.') for f in got):
            problems.append('corruption %r: expected %s and no C19 clause, got %s'
                            % (t['tid'], expect, sorted(got)))
    problems += selftest_util.run_mutants(ctx, PROP)
    for p in problems:
        print('SELFTEST-FAILURE %s: %s' % (PROP, p))
    print('SELFTEST %s: %s' % (PROP, 'binding demonstrated' if not problems else 'NOT binding'))
    return 2 if problems else 0
