"""C03: see DESIGN.md section 6 and harness/sched_check.py."""
from .. import sched_check


def run(ctx):
    return sched_check.run(ctx, 'C03')


def replay(ctx, path):
    return sched_check.replay(ctx, 'C03', path)


def selftest(ctx):
    return sched_check.selftest(ctx, 'C03')
