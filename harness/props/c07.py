"""C07: see DESIGN.md section 6 and harness/sched_check.py."""
from .. import sched_check


def run(ctx):
    return sched_check.run(ctx, 'C07')


def replay(ctx, path):
    return sched_check.replay(ctx, 'C07', path)


def selftest(ctx):
    return sched_check.selftest(ctx, 'C07')
