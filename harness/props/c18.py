"""C18 - archiving trace history never loses or prematurely archives events.

Pipeline (HOWTO.md):
 1. TLC model-checks specs/cell/Archive.tla (archiver at ZooKeeper-call
    granularity, crash anywhere, concurrent environment) for the three archivers
    (cleanup_trace, cleanup_finished, cleanup_server_trace): `pop` configurations
    enumerate populations (every timestamp assignment around the expiry x every
    scheduled subset), `conc` fixes a population and opens up concurrency.
 2. Histories: TLC -simulate behaviours of the same spec (population = Seed
    labels, crash points, environment actions in the middle of a run) + a seeded
    Python generator (more instances/shards, all three kinds in the order of
    sproc/trace.py) + fail-at-k expansions: for every Archive/Prune call of a
    history and (thorough: every, quick: sampled) k, the call cut at its k-th
    ZooKeeper write followed by a restarted, uncut call.
 3. harness/archive_driver.py replays them on the real code over zkfake.
 4. TLC judges every line with specs/cell/ArchiveTrace.tla.
"""
import collections
import concurrent.futures
import itertools
import json
import os
import random
import shutil

from .. import core, tlc
from .. import archive_driver as ad

SPEC_DIR = os.path.join(core.SPECS, 'cell')
UNIT = 1000          # ms per model time unit in TLC-generated histories

RULE = ('a history counts when at least one archiving call created a snapshot node or one pruning '
        'call removed one; distinct = distinct (population, step sequence) pairs')

ASSUMPTIONS = [
    'ZooKeeper is the in-memory kazoo-shaped fake (harness/zkfake.py): sequential names are '
    'zero-padded increasing counters, get_children returns names sorted (the real order is '
    'arbitrary; only drift.step depends on it, and only for /finished whose batches follow the '
    'listing order)',
    'a crash is an exception raised inside the k-th mutating ZooKeeper call before it is applied '
    '(process death between two ZooKeeper writes); one archiver at a time (sproc/trace.py holds '
    'an election lock)',
    'one archiving call is shorter than the expiry: the clock does not advance between the '
    'snapshot of /scheduled and the end of the shard listing (Archive.tla with '
    'TickInListing=TRUE shows the race: an instance scheduled after the snapshot whose event '
    'becomes older than the expiry before its shard is listed gets archived while scheduled)',
    'timestamps are multiples of 250 ms and expiries whole seconds, so that the float comparison '
    '`timestamp < time.time() - expires_after` is exact; /finished is judged on the mtime the '
    'store assigned',
    'event identity is the node name (plus the JSON text for /finished records); the payload '
    '(node data) of trace events is written as NULL into the snapshot by the code and is not '
    'part of the statement',
    'C18.liveYoung/liveScheduled do not apply to server traces (cleanup_server_trace has neither '
    'an expiry nor a scheduled set); C18.liveYoung is strict (age < expiry), the boundary '
    'age = expiry is only compared with the model (drift.step)',
]

# Instance numbers: the trace shard is '{:04X}'.format(number % 256), so the pool covers shard
# names with hex letters (000A, 000B, 001A, 00AB, 00FF), all-digit ones, 0000 (via 256) and
# numbers beyond one byte that wrap onto them (266 -> 000A, 4095 -> 00FF).
POOL = [1, 2, 9, 10, 11, 26, 171, 255, 256, 266, 4095]
# default mapping (selftest, replays): a and n share shard 000A as in the model, b is in 00AB
_REAL_T = {'a': 'proid.a#0000000010', 'b': 'proid.b#0000000171', 'n': 'proid.n#0000000266'}


def real_map(scn_name, rng):
    """Seeded mapping of the model's instance names to real names with numbers from POOL
    (server names are hashed into shards by md5: srv1 -> 005C, srv2 -> 00C3 have letters)."""
    scn = SCN[scn_name]
    if scn['mode'] == 'server':
        return dict(scn['real'])
    names = sorted(scn['real'])
    nums = rng.sample(POOL, len(names))
    return {m: 'proid.%s#%010d' % (m if scn['mode'] == 'trace' else 'f', n)
            for m, n in zip(names, nums)}

SCN = {
    'trace': dict(mode='trace', shards=[1, 2], inst_seq=['a', 'b'], new=['n'], init=5,
                  spare=[6, 7], ev_inst={1: 'a', 2: 'a', 3: 'b', 4: 'b', 5: 'a', 6: 'n', 7: 'b'},
                  ev_shard={1: 1, 2: 1, 3: 2, 4: 2, 5: 1, 6: 1, 7: 2}, real=_REAL_T),
    'finished': dict(mode='finished', shards=[1], inst_seq=[], new=[], init=5, spare=[6],
                     ev_inst={i: 'f%d' % i for i in range(1, 7)},
                     ev_shard={i: 1 for i in range(1, 7)},
                     real={'f%d' % i: 'proid.f#%010d' % n
                           for i, n in zip(range(1, 7), [10, 2, 171, 255, 256, 26])}),
    # srv1 -> shard 005C, srv2 -> shard 00C3 (md5), same order as the model's shards 1 < 2
    'server': dict(mode='server', shards=[1, 2], inst_seq=[], new=[], init=5, spare=[6],
                   ev_inst={1: 's1', 2: 's1', 3: 's2', 4: 's2', 5: 's1', 6: 's2'},
                   ev_shard={1: 1, 2: 1, 3: 2, 4: 2, 5: 1, 6: 2},
                   real={'s1': 'srv1', 's2': 'srv2'}),
}
NOW0, EXPIRY, BATCH = 10, 4, 2


# ---------------------------------------------------------------------------
def tla(v):
    if isinstance(v, bool):
        return 'TRUE' if v else 'FALSE'
    if isinstance(v, int):
        return str(v)
    if isinstance(v, str):
        return json.dumps(v)
    if isinstance(v, (list, tuple)):
        return '<<' + ', '.join(tla(x) for x in v) + '>>'
    if isinstance(v, (set, frozenset)):
        return '{' + ', '.join(tla(x) for x in sorted(v)) + '}'
    if isinstance(v, dict):
        if not v:
            return '[z \\in {} |-> 0]'
        return '(' + ' @@ '.join('%s :> %s' % (tla(k), tla(x)) for k, x in sorted(v.items())) + ')'
    raise TypeError(v)


def mc_files(scn_name, tag, ts_of, sched_of, invariants=(), defects=(), **kw):
    """Render MC_<tag>.tla/.cfg for Archive.tla.  ts_of: id -> set of timestamps,
    sched_of: list (per InstSeq entry) of sets of booleans."""
    scn = SCN[scn_name]
    c = dict(max_env=1, max_crash=1, max_runs=2, max_prunes=1, pad=0, ticks={1, 3}, maxes={1, 2, 3},
             tick_in_listing=False, expiry=EXPIRY, batch=BATCH, now0=NOW0, spare=None,
             max_reads=0, split_read=False)
    c.update(kw)
    spare = scn['spare'] if c['spare'] is None else c['spare']
    mod = 'MC_%s_%s' % (scn_name, tag)
    init_ids = set(range(1, scn['init'] + 1))
    text = '\n'.join([
        '---- MODULE %s ----' % mod, 'EXTENDS Archive',
        'cInstSeq == %s' % tla(scn['inst_seq']),
        'cEvInst == %s' % tla(scn['ev_inst']),
        'cEvShard == %s' % tla(scn['ev_shard']),
        'cTsOf == %s' % tla({i: set(ts_of[i]) for i in init_ids}),
        'cSchedOf == %s' % tla([set(x) for x in sched_of]),
        '====', ''])
    cfg = ['SPECIFICATION Spec', 'CHECK_DEADLOCK FALSE', 'CONSTANTS',
           ' Mode = "%s"' % scn['mode'], ' Shards = %s' % tla(set(scn['shards'])),
           ' InstSeq <- cInstSeq', ' NewInsts = %s' % tla(set(scn['new'])),
           ' InitIds = %s' % tla(init_ids), ' SpareIds = %s' % tla(set(spare)),
           ' EvInst <- cEvInst', ' EvShard <- cEvShard', ' TsOf <- cTsOf', ' SchedOf <- cSchedOf',
           ' Now0 = %d' % c['now0'], ' Expiry = %d' % c['expiry'], ' Batch = %d' % c['batch'],
           ' Maxes = %s' % tla(set(c['maxes'])), ' Ticks = %s' % tla(set(c['ticks'])),
           ' MaxEnv = %d' % c['max_env'], ' MaxCrash = %d' % c['max_crash'],
           ' MaxRuns = %d' % c['max_runs'], ' MaxPrunes = %d' % c['max_prunes'],
           ' Pad = %d' % c['pad'], ' TickInListing = %s' % tla(c['tick_in_listing']),
           ' MaxReads = %d' % c['max_reads'], ' SplitRead = %s' % tla(c['split_read']),
           ' Defects = %s' % tla(set(defects))]
    cfg += ['INVARIANT %s' % inv for inv in invariants]
    return mod, mod + '.cfg', {mod + '.tla': text, mod + '.cfg': '\n'.join(cfg) + '\n'}


INVS = {'trace': ['InvLossless', 'InvLiveScheduled', 'InvLiveYoung', 'InvLiveYoungCode',
                  'InvFullBatch', 'InvPruneNewest', 'TypeOK'],
        'finished': ['InvLossless', 'InvLiveYoung', 'InvLiveYoungCode', 'InvFullBatch',
                     'InvPruneNewest', 'TypeOK'],
        'server': ['InvLossless', 'InvFullBatch', 'InvPruneNewest', 'TypeOK']}
READ_INVS = ['InvReadNeverZero', 'InvReadWindow', 'InvReadBound']
FIXED_TS = {1: {3}, 2: {5}, 3: {4}, 4: {5}, 5: {6}}     # 6 = the boundary now - expiry


def _model_check(ctx):
    around = {5, 6, 7} if ctx.quick else {4, 5, 6, 7}
    runs = [
        ('trace', 'pop', {i: around for i in range(1, 6)}, [{True, False}] * 2,
         dict(max_env=1 if ctx.quick else 2, spare=[7] if ctx.quick else [6, 7])),
        ('trace', 'conc', FIXED_TS, [{True, False}, {False}],
         dict(max_env=3, max_crash=2, max_runs=2, spare=[6, 7] if not ctx.quick else [6])),
        ('finished', 'pop', {i: around for i in range(1, 6)}, [],
         dict(max_env=1, max_crash=1) if ctx.quick else dict(max_env=2, max_crash=2)),
        ('server', 'pop', {i: ({5, 6} if ctx.quick else around) for i in range(1, 6)}, [],
         dict(max_env=2, max_crash=2 if not ctx.quick else 1)),
    ]
    # extension beyond C18: the readers as actions (Read issued in any archiver state)
    for scn in ('trace', 'finished', 'server'):
        runs.append((scn, 'read', FIXED_TS if ctx.quick else {i: {4, 6} for i in range(1, 6)},
                     [{True, False}, {False}] if scn == 'trace' else [],
                     dict(max_env=1, max_crash=1 if ctx.quick else 2, max_runs=2, max_prunes=1,
                          max_reads=1, spare=[7] if scn == 'trace' else [6])))
    need = ['Upload', 'Delete', 'Crash', 'PruneDelete', 'AddEvent', 'Tick', 'EndRun', 'Seed']
    need_more = {('trace', 'pop'): ['StaleFinish'], ('trace', 'conc'): ['StaleFinish', 'Unschedule']}

    def one(job):
        scn, tag, ts_of, sched_of, kw = job
        invs = INVS[scn] + (READ_INVS if tag == 'read' else [])
        mod, cfg, files = mc_files(scn, tag, ts_of, sched_of, invariants=invs, **kw)
        for attempt in (1, 2):
            try:
                return tlc.mc(SPEC_DIR, mod, cfg, extra_files=files, workers=2 if tag == 'read' else 4,
                              timeout=600 if ctx.quick else 1500, heap='3g')
            except tlc.MachineryError as e:
                # rc 143 = the JVM got SIGTERM from outside (shared machine): once more
                if attempt == 2 or 'rc=143' not in str(e):
                    raise

    with concurrent.futures.ThreadPoolExecutor(len(runs)) as ex:
        results = list(ex.map(one, runs))
    for (scn, tag, _ts, _sc, _kw), res in zip(runs, results):
        ctx.add_mc('Archive/%s/%s' % (scn, tag) + (' (extension: readers)' if tag == 'read' else ''),
                   res, need_actions=need + (['Read'] if tag == 'read' else [])
                   + need_more.get((scn, tag), []))
        if res['violated']:
            raise tlc.MachineryError(
                'Archive.tla (%s/%s) violates %s: the specification is expected to satisfy C18; '
                'counterexample labels: %s' % (scn, tag, res['violated'], res['cex'][:40]))
        if res['timed_out']:
            raise tlc.MachineryError('model checking Archive/%s/%s timed out' % (scn, tag))


# ---------------------------------------------------------------------------
# TLC behaviours -> histories for the driver
def _setup_from_seeds(scn, sched, seeds, now0=NOW0, real=None, stale=()):
    """sched: {model inst: bool}; seeds: {id: ts (model units)} -> setup steps.
    stale: scheduled model instances that also get a /finished record (stale
    terminal event of a server that lost the placement) right at the start."""
    real = real or scn['real']
    setup = []
    mode = scn['mode']
    if mode == 'trace':
        for m in scn['inst_seq']:
            if sched.get(m):
                setup.append(['Sched', real[m]])
                if m in stale:
                    setup.append(['Stale', real[m], 'killed'])
    for ident, ts in sorted(seeds.items(), key=lambda x: (x[1], x[0])):
        setup.append(['SetNow', ts * UNIT])
        obj = real[scn['ev_inst'][ident]]
        if mode == 'trace':
            setup.append(['Event', 'trace', obj, 'configured', 'e%d' % ident])
        elif mode == 'finished':
            setup.append(['Sched', obj])
            setup.append(['Event', 'trace', obj, 'finished'])
        else:
            setup.append(['Event', 'server', obj, 'server_state', 'e%d' % ident])
    setup.append(['SetNow', now0 * UNIT])
    return setup


def _env_step(scn, label, args, real=None):
    real = real or scn['real']
    mode = scn['mode']
    if label == 'Tick':
        return ['Tick', int(args[0]) * UNIT]
    if label == 'Schedule':
        return ['Sched', real[args[0]]]
    if label == 'Unschedule':
        return ['Event', 'trace', real[args[0]], 'finished']
    if label == 'StaleFinish':
        return ['Stale', real[args[0]], 'aborted']
    if label == 'AddEvent':
        obj = real[scn['ev_inst'][int(args[0])]]
        if mode == 'trace':
            return ['Event', 'trace', obj, 'configured', 'e%d' % int(args[0])]
        if mode == 'finished':
            return ['Event', 'trace', obj, 'finished']
        return ['Event', 'server', obj, 'server_state', 'e%d' % int(args[0])]
    raise tlc.MachineryError('unknown environment label %s' % label)


def labels_to_history(scn_name, labels, batch=BATCH, expiry=EXPIRY, real=None, stale=()):
    """One TLC behaviour of Archive.tla -> dict(setup, steps) for the driver."""
    scn = SCN[scn_name]
    real = real or scn['real']
    mode = scn['mode']
    nsh = len(scn['shards'])
    sched, seeds = {}, {}
    steps = []
    run = None
    prune = None

    def close_prune(cut):
        nonlocal prune
        if prune is not None:
            steps.append(['Prune', mode, prune['max'], (prune['deleted'] + 1) if cut else 0])
            prune = None

    def close_run(cut):
        nonlocal run
        if run is not None:
            steps.append(['Archive', mode, batch, expiry * UNIT // 1000,
                          (run['writes'] + 1) if cut else 0, run['inject']])
            run = None

    for label, args in labels:
        if label == 'SeedInst':
            sched[scn['inst_seq'][int(args[0]) - 1]] = bool(args[1])
        elif label == 'Seed':
            seeds[int(args[0])] = int(args[1])
        elif label == 'StartRun':
            close_prune(False)
            run = dict(listed=0, writes=0, inject=[])
        elif label == 'ListShard':
            run['listed'] += 1
        elif label in ('Upload', 'Delete'):
            run['writes'] += 1
        elif label == 'SelectBatch':
            pass
        elif label == 'EndRun':
            close_run(False)
        elif label == 'Crash':
            if prune is not None:
                close_prune(True)
            else:
                close_run(True)
        elif label == 'PruneStart':
            close_prune(False)
            prune = dict(max=int(args[0]), deleted=0)
        elif label == 'PruneDelete':
            prune['deleted'] += 1
        elif label == 'Idle':
            close_prune(False)
        elif label in ('ReadHist', 'ReadLive'):
            pass                       # the split reader is a model-only experiment
        else:
            step = ['Read', mode] if label == 'Read' else _env_step(scn, label, args, real)
            if run is not None:
                if run['writes'] == 0 and run['listed'] < nsh:
                    run['inject'].append(['list', run['listed'], step])
                else:
                    run['inject'].append(['write', run['writes'], step])
            else:
                steps.append(step)     # also in the middle of a Prune: independent of it
    # a behaviour that ends inside a call: the archiver dies there
    close_prune(True)
    close_run(True)
    if steps and steps[-1][0] == 'Archive' and steps[-1][4]:
        steps.append(['Archive', mode, batch, expiry * UNIT // 1000, 0, []])
    steps.append(['Prune', mode, 3, 0])       # above / at the few snapshots a model run leaves
    steps.append(['Prune', mode, 1, 0])
    return dict(setup=_setup_from_seeds(scn, sched, seeds, real=real, stale=stale), steps=steps)


def _generate_tlc(ctx):
    out = []
    rng = random.Random(ctx.seed * 4099 + 18)
    n = 40 if ctx.quick else 800
    around = {4, 5, 6, 7}
    for k, scn in enumerate(('trace', 'finished', 'server')):
        depth = 34
        mod, cfg, files = mc_files(
            scn, 'gen', {i: around for i in range(1, 6)},
            [{True, False}] * len(SCN[scn]['inst_seq']),
            max_env=3, max_crash=2, max_runs=3, max_prunes=1, pad=depth, ticks={1, 3},
            max_reads=2)
        behaviours, cmd = tlc.simulate(SPEC_DIR, mod, cfg, num=n, depth=depth,
                                       seed=ctx.seed * 131 + k, procs=4 if ctx.quick else 8,
                                       extra_files=files, timeout=120 if ctx.quick else 900)
        ctx.cmds.append(cmd)
        for b in behaviours:
            # half of the behaviours start with the scheduled instances also under /finished
            stale = set(SCN[scn]['inst_seq']) if rng.random() < 0.5 else ()
            out.append((scn, 'tlc', labels_to_history(scn, b, real=real_map(scn, rng), stale=stale)))
    return out


# ---------------------------------------------------------------------------
# seeded random histories beyond the model-checked constants
_INST_IDS = POOL
_OFFSETS = [-5000, -2000, -1000, -250, 0, 0, 250, 1000, 3000]


def rand_history(rng):
    expiry_s = rng.choice([1, 3, 5, 300])
    batch = rng.choice([1, 2, 2, 3])
    now = expiry_s * 1000 + 20000
    boundary = now - expiry_s * 1000
    insts = ['proid.app%d#%010d' % (i % 3, i) for i in rng.sample(_INST_IDS, rng.randint(2, 4))]
    servers = ['srv%d' % i for i in rng.sample(range(1, 6), rng.randint(1, 3))]
    raw = []
    for inst in insts:
        raw.append((0, 0, ['Sched', inst]))
    for n in range(rng.randint(0, 9)):
        raw.append((min(now, max(1, boundary + rng.choice(_OFFSETS))), 1,
                    ['Event', 'trace', rng.choice(insts), 'configured', 'e%d' % n]))
    for n in range(rng.randint(0, 5)):
        raw.append((min(now, max(1, boundary + rng.choice(_OFFSETS))), 1,
                    ['Event', 'server', rng.choice(servers), 'server_state', 's%d' % n]))
    for inst in insts:
        if rng.random() < 0.65:      # the instance finished at some point
            raw.append((min(now, max(1, boundary + rng.choice(_OFFSETS))), 2,
                        ['Event', 'trace', inst, rng.choice(['finished', 'killed', 'aborted'])]))
        elif rng.random() < 0.6:     # still scheduled, but a server that lost the placement
            raw.append((min(now, max(1, boundary + rng.choice(_OFFSETS))), 2,      # said it was over
                        ['Stale', inst, rng.choice(['finished', 'killed', 'aborted'])]))
    setup = []
    for ts, _prio, step in sorted(raw, key=lambda x: (x[0], x[1])):
        setup.append(['SetNow', ts])
        setup.append(step)
    setup.append(['SetNow', now + rng.choice([0, 0, 0, 1, 250])])

    def env():
        r = rng.random()
        if r < 0.35:
            return ['Tick', rng.choice([250, 1000, expiry_s * 500, expiry_s * 1000])]
        if r < 0.7:
            return ['Event', 'trace', rng.choice(insts), 'configured', 'x%d' % rng.randrange(1000)]
        if r < 0.85:
            return ['Event', 'server', rng.choice(servers), 'server_state', 'x%d' % rng.randrange(1000)]
        if r < 0.92:
            return ['Stale', rng.choice(insts), 'killed']
        return ['Event', 'trace', rng.choice(insts), 'finished']

    def inject(kind):
        if rng.random() > 0.3:
            return []
        out = []
        for _ in range(rng.randint(1, 2)):
            step = env()
            if step[0] == 'Tick':
                out.append(['write', rng.randint(1, 4), step])   # never inside the listing
            else:
                out.append([rng.choice(['list', 'write']), rng.randint(0, 4), step])
        return out

    steps = []
    maxc = rng.choice([1, 2, 3, 4])
    for _round in range(rng.randint(1, 2)):
        for _ in range(rng.randint(0, 2)):
            steps.append(env())
        # the order of sproc/trace.py
        steps += [['Archive', 'trace', batch, expiry_s, 0, inject('trace')],
                  ['Archive', 'finished', rng.choice([1, batch]), expiry_s, 0, inject('finished')],
                  ['Prune', 'trace', maxc, 0], ['Prune', 'finished', maxc, 0],
                  ['Archive', 'server', batch, expiry_s, 0, inject('server')],
                  ['Prune', 'server', maxc, 0]]
    return dict(setup=setup, steps=steps)


def retention_histories(rng, count):
    """Snapshot retention (_zk.cleanup): N snapshots of every history kind (batch 1, N
    expired terminal events of N finished instances + N expired server events), then
    cleanup_*_history with a retention count far above (2N+1), twice (2N), around half
    (2N-1, 2N-2: N just over half of it), just above (N+1), at (N) and below (N-1, 1) the
    number of snapshots present; a second round adds snapshots and prunes again."""
    out = []
    for _ in range(count):
        n = rng.choice([3, 3, 4, 6])
        insts = ['proid.ret#%010d' % i for i in rng.sample(POOL, n)]
        servers = ['srv%d' % i for i in rng.sample(range(1, 9), rng.randint(1, 3))]
        setup = []
        for j, inst in enumerate(insts):
            setup += [['SetNow', 1000 + 1000 * j], ['Sched', inst],
                      ['Event', 'trace', inst, rng.choice(['finished', 'killed'])],
                      ['Event', 'server', rng.choice(servers), 'server_state', 'r%d' % j]]
        setup.append(['SetNow', 30000])
        choices = [2 * n + 1, 2 * n, 2 * n - 1, 2 * n - 2, n + 1, n + 1, n, n - 1, 1]
        steps = [['Archive', 'trace', 1, 3, 0, []], ['Archive', 'finished', 1, 3, 0, []],
                 ['Archive', 'server', 1, 3, 0, []]]
        first = {}
        for kind in ad.KINDS:
            first[kind] = rng.choice(choices)
            steps.append(['Prune', kind, first[kind], 0])
        # second round: one more snapshot per kind, then a retention count around what is left
        extra = 'proid.ret#%010d' % rng.choice([p for p in POOL if 'proid.ret#%010d' % p not in insts])
        steps += [['Sched', extra], ['Event', 'trace', extra, 'finished'],
                  ['Event', 'server', servers[0], 'server_state', 'late'], ['Tick', 10000],
                  ['Archive', 'trace', 1, 3, 0, []], ['Archive', 'finished', 1, 3, 0, []],
                  ['Archive', 'server', 1, 3, 0, []]]
        for kind in ad.KINDS:
            left = min(n, first[kind]) + 1
            steps.append(['Prune', kind, rng.choice([2 * left - 1, left + 1, left, left - 1]), 0])
        out.append(dict(setup=setup, steps=steps))
    return out


def exhaustive_populations(rng, limit):
    """The population domain of the `pop` model-checking configuration (trace mode), as histories."""
    scn = SCN['trace']
    combos = list(itertools.product([4, 5, 6, 7], repeat=5))
    rng.shuffle(combos)
    out = []
    for ts in combos[:limit]:
        for sa, sb in ((False, False), (True, False), (False, True)):
            setup = _setup_from_seeds(scn, {'a': sa, 'b': sb}, dict(enumerate(ts, 1)),
                                      real=real_map('trace', rng),
                                      stale=('a', 'b') if rng.random() < 0.5 else ())
            out.append(dict(setup=setup, steps=[['Archive', 'trace', BATCH, EXPIRY, 0, []],
                                               ['Prune', 'trace', 1, 0]]))
    return out


# ---------------------------------------------------------------------------
def cut_expansions(history, rng, per_call):
    """For every Archive/Prune call of the history: the same history with that call
    cut at its k-th write, followed by a restarted uncut call.  per_call = None:
    every k; otherwise that many sampled k."""
    out = []
    with ad.Session():
        world = ad.build(history['setup'])
        for p, step in enumerate(history['steps']):
            if step[0] in ('Archive', 'Prune'):
                plain = list(step)
                if step[0] == 'Archive':
                    plain[5] = []
                total = ad.full_writes(world, plain)
                ks = list(range(1, total + 1))
                if per_call is not None and len(ks) > per_call:
                    ks = sorted(rng.sample(ks, per_call))
                for k in ks:
                    cut = list(plain)
                    cut[4 if step[0] == 'Archive' else 3] = k
                    steps = history['steps'][:p] + [cut, plain] + history['steps'][p + 1:p + 3]
                    out.append(dict(setup=history['setup'], steps=steps))
                # the same with a storage ERROR instead of a crash (negative k): ZooKeeper refuses the
                # k-th write and keeps serving; an archiver that gives up there has stopped at that point
                for k in sorted({1} | ({rng.choice(ks)} if ks else set())) if total else []:
                    cut = list(plain)
                    cut[4 if step[0] == 'Archive' else 3] = -k
                    steps = history['steps'][:p] + [cut, plain] + history['steps'][p + 1:p + 3]
                    out.append(dict(setup=history['setup'], steps=steps))
            ad.run_steps(world, [step])
    return out


def read_expansions(history, rng, per_call):
    """Extension (readers): for every archiving call of the history and (per_call =
    None: every, else that many sampled) k in 0..W: the call with a reader issued
    right after its k-th write, followed by a reader at rest; and the same after a
    call that was cut (crash at a sampled write) and before/inside the restarted one."""
    out = []
    with ad.Session():
        world = ad.build(history['setup'])
        for p, step in enumerate(history['steps']):
            if step[0] == 'Archive':
                plain = list(step)
                plain[5] = []
                total = ad.full_writes(world, plain)
                ks = list(range(0, total + 1))
                if per_call is not None and len(ks) > per_call:
                    ks = sorted(rng.sample(ks, per_call))
                rd = ['Read', step[1]]
                for k in ks:
                    mid = list(plain)
                    mid[5] = [['write', k, rd]]
                    steps = history['steps'][:p] + [mid, rd]
                    if total >= 2:
                        c = rng.randint(2, total)
                        cut = list(plain)
                        cut[4] = c
                        cut[5] = [['write', min(k, c - 1), rd]]
                        steps += [cut, rd, mid]
                    out.append(dict(setup=history['setup'], steps=steps))
            ad.run_steps(world, [step])
    return out


def record(histories):
    traces = []
    for n, (scn, src, h) in enumerate(histories):
        lines = ad.replay(h)
        traces.append(dict(tid='%s:%s:%d' % (scn, src, n), lines=lines, history=h, src=src))
    return traces


def validate(traces, timeout=1200):
    work = tlc.scratch('verif-c18-batch-')
    try:
        path = os.path.join(work, 'batch.json')
        with open(path, 'w') as f:
            json.dump(dict(traces=[dict(tid=t['tid'],
                                        lines=[{k: v for k, v in ln.items() if k != 'step'}
                                               for ln in t['lines']])
                                   for t in traces]), f)
        return tlc.validate(SPEC_DIR, 'ArchiveTrace', 'ArchiveTrace.cfg', path, timeout=timeout)
    finally:
        shutil.rmtree(work, ignore_errors=True)


def judge(ctx, traces, verdicts):
    total = sum(len(t['lines']) - 1 for t in traces)
    if len(verdicts) != total:
        raise tlc.MachineryError('trace spec judged %d of %d lines' % (len(verdicts), total))
    by_tid = {t['tid']: t for t in traces}
    violations, nontrivial = [], set()
    flags = collections.Counter()
    drift_samples = []
    ext_fail = collections.Counter()
    ext_samples = []
    evaluations = 0
    for v in verdicts:
        t = by_tid[v['tid']]
        fails = set(v['fail'])
        evaluations += 1
        for f in fails:
            if f.startswith('ext.'):
                ext_fail[f] += 1
                if len(ext_samples) < 2:
                    ext_samples.append(dict(tid=t['tid'], clause=f, setup=t['history']['setup'],
                                            steps=t['history']['steps'][:v['i']]))
        if any(f.startswith('drift.') for f in fails):
            ctx.drift += 1
            if len(drift_samples) < 3:
                drift_samples.append(dict(tid=t['tid'], step=t['history']['steps'][v['i'] - 1]))
        for x in v['ex']:
            flags[x] += 1
        if 'C18' in v['ex']:
            nontrivial.add(core.hist_hash(t['history']))
        for f in sorted(fails):
            if f.startswith('C18.'):
                step = t['history']['steps'][v['i'] - 1]
                violations.append(dict(
                    clause=f, signature=f,
                    what='after %s at step %d of %s' % (json.dumps(step), v['i'], t['tid']),
                    replay_payload=dict(kind='archive', property='C18', clause=f,
                                        history=dict(setup=t['history']['setup'],
                                                     steps=t['history']['steps'][:v['i']]),
                                        failed_step=v['i'])))
    samples = []
    for t in traces:
        if core.hist_hash(t['history']) in nontrivial and t['src'] not in [s['source'] for s in samples]:
            samples.append(dict(trace=t['tid'], source=t['src'],
                                setup=[json.dumps(s) for s in t['history']['setup']],
                                steps=[json.dumps(s) for s in t['history']['steps']]))
        if len(samples) >= 3:
            break
    if ctx.drift:
        print('DRIFT: %d recorded steps are not what ArchiveOps computes (spec needs updating; '
              'not a violation), e.g. %s' % (ctx.drift, json.dumps(drift_samples[:2])))
    if ext_fail:
        print('DRIFT: extension beyond C18 (readers): %s lines do not conform to Archive.tla\'s '
              'Read (not a violation), e.g. %s' % (dict(ext_fail), json.dumps(ext_samples[:1])))
    extensions = dict(archive_readers=dict(
        what='download_batch / AppTraceLoop / ServerTraceLoop / the finished-history query / '
             'list_traces called by a third client between two ZooKeeper writes of an archiving '
             'call; Archive.tla actions Read (invariants InvReadNeverZero, InvReadWindow, '
             'InvReadBound in the `read` model runs above); conformance class',
        clauses=['ext.archive.read', 'ext.archive.readLoop'],
        lines_with_reads=flags.get('ext.read', 0), reads_mid_run=flags.get('ext.readMidRun', 0),
        lines_with_an_event_seen_twice=flags.get('ext.readTwice', 0),
        nonconforming=dict(ext_fail)))
    return core.conclude(
        ctx, level='model_checking', violations=violations, evaluations=evaluations,
        distinct_nontrivial=len(nontrivial), rule=RULE, samples=samples,
        traces_validated=len(traces), assumptions=ASSUMPTIONS,
        extra=dict(trace_sources=dict(collections.Counter(t['src'] for t in traces)),
                   exercised=dict(flags), notes=ctx.notes, extensions=extensions))


def run(ctx):
    _model_check(ctx)
    rng = random.Random(ctx.seed * 7919 + 18)
    base = _generate_tlc(ctx)
    ctx.log('%d histories from TLC behaviours' % len(base))
    for _ in range(60 if ctx.quick else 1500):
        base.append(('mixed', 'rnd', rand_history(rng)))
    for h in exhaustive_populations(rng, 12 if ctx.quick else 400):
        base.append(('trace', 'pop', h))
    for h in retention_histories(rng, 10 if ctx.quick else 300):
        base.append(('mixed', 'ret', h))
    hist = list(base)
    per_call = 2 if ctx.quick else None
    budget = 450 if ctx.quick else 14000
    for scn, src, h in base:
        if budget <= 0:
            break
        if src == 'tlc' and ctx.quick and rng.random() < 0.5:
            continue
        for c in cut_expansions(h, rng, per_call if src != 'pop' else (3 if ctx.quick else None)):
            hist.append((scn, 'cut-' + src, c))
            budget -= 1
    ncut = len(hist) - len(base)
    rbudget = 120 if ctx.quick else 4000
    for scn, src, h in base:
        if rbudget <= 0:
            break
        if src == 'tlc' or (ctx.quick and rng.random() < 0.4):
            continue
        for c in read_expansions(h, rng, 2 if ctx.quick else None):
            hist.append((scn, 'read-' + src, c))
            rbudget -= 1
    ctx.log('%d histories (%d with a crash cut, %d with readers between two writes)'
            % (len(hist), ncut, len(hist) - len(base) - ncut))
    traces = record(hist)
    ctx.log('recorded %d traces, %d lines' % (len(traces), sum(len(t['lines']) for t in traces)))
    verdicts, stats = validate(traces, timeout=600 if ctx.quick else 3000)
    ctx.cmds.append(stats['cmd'])
    return judge(ctx, traces, verdicts)


def replay(ctx, path):
    payload = json.load(open(path))
    h = payload['history']
    traces = record([('replay', 'replay', h)])
    verdicts, _ = validate(traces)
    return judge(ctx, traces, verdicts)


def selftest(ctx):
    """Trace corruption (DESIGN 4.4): one logged field of a good trace is changed;
    TLC must name the clause."""
    scn = SCN['trace']
    setup = _setup_from_seeds(scn, {'a': False, 'b': True}, {1: 3, 2: 5, 3: 4, 4: 5, 5: 7})
    h = dict(setup=setup, steps=[['Archive', 'trace', 2, 4, 0, []], ['Archive', 'trace', 2, 4, 0, []],
                                 ['Prune', 'trace', 0, 0]])
    good = record([('trace', 'selftest', h)])[0]

    def variant(name, fn):
        t = json.loads(json.dumps(good))
        t['tid'] = name
        fn(t['lines'])
        return t

    def drop_row(lines):         # an event vanishes from the snapshot it was moved to
        lines[1]['post']['kinds']['trace']['snaps'][0]['rows'].pop()
        lines[1]['post']['kinds']['trace']['snaps'][0]['dl'].pop()

    def drop_dl(lines):          # ... or only from what download_batch finds
        lines[1]['post']['kinds']['trace']['snaps'][0]['dl'].pop()

    def lose_sched(lines):       # an event of the scheduled instance b disappears
        lv = lines[1]['post']['kinds']['trace']['live']
        lv[:] = [e for e in lv if e['inst'] != scn['real']['b']][:] + []

    def lose_young(lines):       # the young event (ts 7 > boundary 6) disappears
        lv = lines[1]['post']['kinds']['trace']['live']
        lv[:] = [e for e in lv if e['ts'] != 7000]

    def prune_wrong(lines):      # Prune(0) keeps a snapshot / wrong one
        lines[3]['post']['kinds']['trace']['snaps'] = lines[2]['post']['kinds']['trace']['snaps'][:1]

    variants = [('drop_row', drop_row, 'C18.lossless'), ('drop_dl', drop_dl, 'C18.lossless'),
                ('lose_sched', lose_sched, 'C18.liveScheduled'),
                ('lose_young', lose_young, 'C18.liveYoung'),
                ('short_snapshot', lambda ls: (ls[1]['post']['kinds']['trace']['snaps'][0]['rows'].pop(),
                                                ls[1]['post']['kinds']['trace']['live'].append(
                                                    ls[0]['post']['kinds']['trace']['live'][0])),
                 'C18.fullBatch'),
                ('prune_wrong', prune_wrong, 'C18.pruneNewest')]
    traces = [good] + [variant(n, fn) for n, fn, _ in variants]
    # extension (readers): a reader in the upload -> delete window; the log is changed to
    # "saw the event once" (the model says twice) and to "the loop never handed it on"
    hr = dict(setup=setup, steps=[['Archive', 'trace', 2, 4, 0, [['write', 1, ['Read', 'trace']]]]])
    tr = record([('trace', 'selftest-read', hr)])[0]
    for name, field, val in (('read_once', 'n', 1), ('loop_zero', 'loop', 0)):
        t = json.loads(json.dumps(tr))
        t['tid'] = name
        it = [x for x in t['lines'][1]['reads'][0]['items'] if x['n'] == 2][0]
        it[field] = val
        traces.append(t)
    traces.append(tr)
    variants = variants + [('read_once', None, 'ext.archive.read'), ('loop_zero', None, 'ext.archive.readLoop')]
    verdicts, _ = validate(traces)
    failed = collections.defaultdict(set)
    for v in verdicts:
        failed[v['tid']] |= set(v['fail'])
    ok = not any(f.startswith('C18.') for f in failed[good['tid']]) and not failed[tr['tid']]
    print('selftest: unmodified trace: %s' % sorted(failed[good['tid']]))
    for n, _fn, clause in variants:
        print('selftest: %-15s -> %s (expects %s)' % (n, sorted(failed[n]), clause))
        ok = ok and clause in failed[n]
    print('selftest %s' % ('PASSED' if ok else 'FAILED'))
    return 0 if ok else 2
