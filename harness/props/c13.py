"""C13 - a container is running or in cleanup, never both, and follows the cache.

Pipeline (DESIGN.md 2.1, 6/C13; NOTES_C13.md):
  1. TLC model-checks specs/node/AppCfg.tla twice: with the repaired behaviour
     (Defects = {}: every clause must hold) and with the behaviour of the
     unchanged code (Defects = AllDefects: TLC's counterexamples are replayed on
     the real code like any other history).
  2. Histories: TLC -simulate on the same spec + seeded random histories that
     are generated online against the real state (3 instances, 3 generations,
     late tombstones - beyond the model-checked constants).
  3. harness/appcfg_driver.py replays them on the real AppCfgMgr handlers,
     MonitorContainerCleanup and Cleanup over a real temporary directory.
  4. specs/node/AppCfgTrace.tla judges every recorded step: clauses
     C13.oneLink / C13.sync / C13.handoff / C13.noRestart / C13.keep, and
     drift.step (the step is not a step of the model, in neither variant).
"""
import collections
import concurrent.futures
import json
import os
import random
import shutil

from .. import core, tlc

SPEC_DIR = os.path.join(core.SPECS, 'node')
ALL_DEFECTS = ['cleanup_name', 'sync_generation', 'created_done']
CLAUSES = ['C13.oneLink', 'C13.sync', 'C13.handoff', 'C13.noRestart', 'C13.keep']
PROPS = ['PropOneLink', 'PropSync', 'PropHandoff', 'PropNoRestart', 'PropKeep']
ACTIONS = ['CacheCreate', 'CacheReplace', 'CacheDelete', 'ReadyOn', 'ReadyOff', 'ContainerFinishes',
           'MonitorCleanup', 'CleanupCompletes', 'ManagerRestart', 'NodeStart', 'Crash', 'OnCreated', 'OnModified',
           'OnDeleted', 'Synchronize']

RULE = ('a history counts when some step is a _synchronize over a non-empty cache or apps/ '
        'directory, or a handler call that changed a running or cleanup link; distinct = distinct '
        'effective histories (hash of the event sequence)')

ASSUMPTIONS = [
    'handlers of AppCfgMgr, MonitorContainerCleanup.execute and Cleanup.invoke are atomic with '
    'respect to each other (each is driven to completion before the next event); interleavings '
    'inside _synchronize are not explored',
    'a kill of the manager is injected inside its handlers before each os.symlink / os.replace / '
    'os.rename / os.link call (BaseException out of the k-th call), followed by a restart of the '
    'manager with nothing cleared; names starting with a dot in running/ and cleanup/ (staged '
    'temporaries of fs.symlink_safe) are links for nobody, as for glob, s6-svscan and the cleanup '
    'service; the other processes are not killed',
    'directory events are the ones a real inotify watch on cache/ produced, handled one at a time, '
    'in order, arbitrarily late; events for dot-prefixed temporary files are delivered and ignored '
    'by the handlers',
    'appcfg.configure.configure is the real function (manifest.load, unique name, '
    'supervisor.create_service, copy of the event file as manifest.yml, app.json, trace event) on '
    'a schema-valid manifest; inside it only the runtime plugin class (runtime specific manifest '
    'processing) and subproc.resolve are replaced; it does not fail while the cache file exists. '
    'svscan control, abort reporting and the runtime finish() (reduced to removing the container '
    'directory) are stubbed',
    'a container finishes (exitinfo/aborted/oom + exit tombstone) only while its running link '
    'exists; in the model-checked configurations and 3/4 of the random histories the tombstone is '
    'handled before a later generation of the instance is linked under running/',
    'one AppCfgMgr at a time; a start of the node services is modelled as: running/ and cleanup/ '
    'emptied (docstring of _synchronize), tombstones gone, new inactive manager',
]


EXT_INVS = ['InvCleaning', 'InvQuiescent', 'InvSync']
EXT_PROPS = ['PropInvoke', 'PropDirsByInvoke']
EXT_ACTIONS = ['CleanupStart', 'CleanupEvent', 'CleanupCompletes', 'MonitorCleanup', 'OnDeleted',
               'Synchronize', 'NodeStart']


def _cfg(defects, instances=2, maxgen=2, maxevents=6, late=False, props=PROPS, typeok=True,
         svc=False, invs=()):
    lines = ['SPECIFICATION Spec', 'CONSTANTS',
             ' Instances = {%s}' % ', '.join('"a%d"' % (k + 1) for k in range(instances)),
             ' MaxGen = %d' % maxgen, ' MaxEvents = %d' % maxevents,
             ' Defects = {%s}' % ', '.join('"%s"' % d for d in defects),
             ' LateMonitor = %s' % ('TRUE' if late else 'FALSE'),
             ' CleanupSvc = %s' % ('TRUE' if svc else 'FALSE'),
             'CHECK_DEADLOCK FALSE']
    lines += ['INVARIANT %s' % i for i in invs]
    if typeok:
        lines.append('INVARIANT TypeOK')
    lines += ['PROPERTY %s' % p for p in props]
    return '\n'.join(lines) + '\n'


def _mc(ctx):
    """Yields (source, history) for every counterexample TLC finds."""
    if ctx.quick:
        runs = [('repaired 2x2 events<=6', 'MC_AppCfg.cfg', None, True, True),
                ('unchanged 2x2 events<=6', 'MC_AppCfg_code.cfg', None, False, False)]
    else:
        runs = [('repaired 2x2 events<=8', 'x', _cfg([], 2, 2, 8), True, True),
                ('repaired 1x3 events<=9', 'x', _cfg([], 1, 3, 9), True, False),
                ('repaired 2x2 events<=7 late tombstones', 'x', _cfg([], 2, 2, 7, late=True), True, False)]
        runs += [('unchanged 2x2 events<=8 %s' % p, 'x', _cfg(ALL_DEFECTS, 2, 2, 8, props=[p]), False, False)
                 for p in PROPS]
        runs += [('only %s 2x2 events<=7' % d, 'x', _cfg([d], 2, 2, 7), False, False)
                 for d in ALL_DEFECTS]

    def one(run):
        name, cfg, text, _, cov = run
        if text is None:
            return tlc.mc(SPEC_DIR, 'AppCfg', cfg, coverage=cov, timeout=300, workers=16)
        fname = 'MC_gen_%d.cfg' % abs(hash(name))
        return tlc.mc(SPEC_DIR, 'AppCfg', fname, coverage=cov, timeout=900,
                      workers=16 if cov else 5, extra_files={fname: text})
    if ctx.quick:
        results = [one(r) for r in runs]
    else:
        results = [one(runs[0])]
        with concurrent.futures.ThreadPoolExecutor(3) as ex:
            results += list(ex.map(one, runs[1:]))
    from .. import appcfg_driver as drv
    for run, res in zip(runs, results):
        name, _, _, must_hold, cov = run
        ctx.add_mc(name, res, need_actions=ACTIONS if cov else ())
        if res['timed_out']:
            ctx.notes.append('MC %s timed out (partial)' % name)
        if res['violated']:
            if must_hold:
                ctx.log('NOTE: the REPAIRED model violates %s - the specification needs attention; '
                        'the counterexample is replayed on the code' % res['violated'])
                ctx.notes.append('repaired model violates %s in %s' % (res['violated'], name))
            else:
                ctx.log('model of the unchanged code violates %s (%d steps); counterexample is '
                        'replayed on the code' % (res['violated'], len(res['cex']) - 1))
            labels = [(a, tlc.tlaval.split_args(b)) for a, b in res['cex']]
            yield 'cex', drv.from_labels(labels)
        elif not must_hold and not res['timed_out']:
            ctx.log('model with defects %s: no counterexample within the bound' % name)


def _mc_ext(ctx):
    """Extension beyond C13 (DESIGN.md 5 / 10.6): the cleanup service
    (cleanup.Cleanup) as part of AppCfg.tla, model-checked with its own
    invariants (and the C13 clauses, which must survive its interleavings)."""
    if ctx.quick:
        runs = [('ext cleanup service 1x2 events<=7', 'MC_AppCfg_cleanup.cfg', None)]
    else:
        runs = [('ext cleanup service 2x2 events<=7', 'x',
                 _cfg([], 2, 2, 7, svc=True, invs=EXT_INVS, props=EXT_PROPS + PROPS)),
                ('ext cleanup service 1x3 events<=9', 'x',
                 _cfg([], 1, 3, 9, svc=True, invs=EXT_INVS, props=EXT_PROPS + PROPS)),
                ('ext cleanup service 1x2 events<=7, unchanged appcfgmgr', 'x',
                 _cfg(ALL_DEFECTS, 1, 2, 7, svc=True, invs=EXT_INVS, props=EXT_PROPS))]
    out = []
    for k, (name, cfg, text) in enumerate(runs):
        if text is None:
            res = tlc.mc(SPEC_DIR, 'AppCfg', cfg, coverage=True, timeout=300, workers=8)
        else:
            fname = 'MC_ext_%d.cfg' % k
            res = tlc.mc(SPEC_DIR, 'AppCfg', fname, coverage=(k == 0), timeout=900, workers=8,
                         extra_files={fname: text})
        ctx.add_mc(name, res, need_actions=EXT_ACTIONS if res['coverage'] else ())
        if res['violated']:
            ctx.log('extension: %s violated in the MODEL (%s) - design level, not the code' % (
                res['violated'], name))
        out.append(dict(name=name, violated=res['violated'], distinct=res['distinct'],
                        generated=res['generated'], complete=res['ok']))
    return out


def _witnesses(ctx):
    """TLC-derived histories for a readiness flip during which a running
    instance's cache entry is replaced in place: the shortest behaviours that
    violate the witness predicates WitnessFlipA/B of AppCfg.tla (the flip not
    handled at all / the deletion of .ready handled), continued by delivering
    everything, with and without a second flip."""
    from .. import appcfg_driver as drv

    def one(w):
        fname = 'MC_%s.cfg' % w
        text = _cfg([], 2, 2, 7, props=[], typeok=False, invs=[w])
        return tlc.mc(SPEC_DIR, 'AppCfg', fname, coverage=False, timeout=300, workers=4,
                      extra_files={fname: text})
    out = []
    with concurrent.futures.ThreadPoolExecutor(2) as ex:
        for w, res in zip(('WitnessFlipA', 'WitnessFlipB'), ex.map(one, ('WitnessFlipA', 'WitnessFlipB'))):
            ctx.cmds.append(res['cmd'])
            if res['violated'] != w:
                raise tlc.MachineryError('witness %s not reached: the model cannot produce a readiness '
                                         'flip with an in-place replacement' % w)
            h = drv.from_labels([(a, tlc.tlaval.split_args(b)) for a, b in res['cex']])
            tail = [['Deliver', []]] * 4
            out.append(('tlc-flip', h + tail))
            out.append(('tlc-flip', h + tail + [['ReadyOff', []], ['ReadyOn', []]] + tail))
            out.append(('tlc-flip', h + [['CacheCreate', ['a2']]] + tail + [['CleanupStart', []]] + tail))
    return out


def _tlc_histories(ctx, n, depth):
    from .. import appcfg_driver as drv
    # (source, defects, cleanup service modelled, number, depth, seed)
    plan = [('tlc', ALL_DEFECTS, False, n // 2, depth, ctx.seed * 31),
            ('tlc', [], False, n // 2, depth, ctx.seed * 31 + 1),
            ('tlc-svc', [], True, max(20, n // 3), depth + 6, ctx.seed * 31 + 7)]   # extension

    def one(k):
        src, defects, svc, num, dep, seed = plan[k]
        fname = 'MC_sim_%d.cfg' % k
        text = _cfg(defects, 2, 3, 1000, props=[], typeok=False, svc=svc)
        behaviours, cmd = tlc.simulate(SPEC_DIR, 'AppCfg', fname, num=num, depth=dep, seed=seed,
                                       procs=4 if ctx.quick else 8, extra_files={fname: text},
                                       timeout=120 if ctx.quick else 900)
        return cmd, [(src, drv.from_labels(b)) for b in behaviours]
    out = []
    with concurrent.futures.ThreadPoolExecutor(3) as ex:
        for cmd, hs in ex.map(one, range(len(plan))):
            ctx.cmds.append(cmd)
            out += hs
    return out


def _replay_chunk(jobs):
    """Worker: jobs = [(src, history | None, seed, depth, instances, maxgen, late[, svc])]."""
    from .. import appcfg_driver as drv
    out = []
    for job in jobs:
        src, hist, seed, depth, instances, maxgen, late = job[:7]
        svc = len(job) > 7 and job[7]
        crash = len(job) > 8 and job[8]
        if hist is None:
            eff, lines = drv.replay(None, rng=random.Random(seed), depth=depth,
                                    instances=instances, maxgen=maxgen, late=late, svc=svc,
                                    crash=crash)
        else:
            eff, lines = drv.replay(hist, late=late)
        out.append(dict(src=src, history=eff, lines=lines, late=late))
    return out


def _record(ctx, jobs, procs):
    if len(jobs) <= 4:
        res = _replay_chunk(jobs)
    else:
        size = max(1, (len(jobs) + procs * 4 - 1) // (procs * 4))
        chunks = [jobs[k:k + size] for k in range(0, len(jobs), size)]
        with concurrent.futures.ProcessPoolExecutor(procs) as ex:
            res = [t for part in ex.map(_replay_chunk, chunks) for t in part]
    for k, t in enumerate(res):
        t['tid'] = '%s:%d' % (t['src'], k)
    return res


def _validate(traces, timeout):
    work = tlc.scratch('verif-batch-')
    try:
        path = os.path.join(work, 'batch.json')
        with open(path, 'w') as f:
            json.dump(dict(traces=[dict(tid=t['tid'], lines=t['lines']) for t in traces]), f)
        return tlc.validate(SPEC_DIR, 'AppCfgTrace', 'AppCfgTrace.cfg', path, timeout=timeout)
    finally:
        shutil.rmtree(work, ignore_errors=True)


def _fmt(h):
    return ['%s(%s)' % (e, ','.join(map(str, a))) for e, a in h]


def judge(ctx, traces, verdicts, full_run=False):
    total = sum(len(t['lines']) - 1 for t in traces)
    if len(verdicts) != total:
        raise tlc.MachineryError('trace spec judged %d of %d lines' % (len(verdicts), total))
    by_tid = {t['tid']: t for t in traces}
    violations, nontrivial = [], set()
    evaluations = 0
    clause_hits = collections.Counter()
    flags = collections.Counter()
    drift_samples = []
    ext_fail = collections.Counter()
    for v in verdicts:
        t = by_tid[v['tid']]
        fails = set(v['fail'])
        if 'exc' in fails:
            ctx.skipped += 1
            continue
        if 'drift.enabled' in fails:
            # the driver delivered something the model does not enable: harness problem
            raise tlc.MachineryError('event not enabled in the model: %s step %d %r' % (
                v['tid'], v['i'], t['lines'][v['i']]['ev']))
        for f in fails:
            if f.startswith('ext.'):
                ext_fail[f] += 1
        if any(f.startswith('drift.') or f.startswith('ext.') for f in fails):
            ctx.drift += 1
            if len(drift_samples) < 3:
                drift_samples.append(dict(tid=v['tid'], step=v['i'], event=t['lines'][v['i']]['ev'],
                                          history=_fmt(t['history'][:v['i']])))
        evaluations += 1
        for e in v['ex']:
            flags[e] += 1
        if 'C13' in v['ex']:
            nontrivial.add(core.hist_hash(t['history']))
        for f in sorted(fails):
            if f.startswith('C13.'):
                clause_hits[f] += 1
                line = t['lines'][v['i']]
                violations.append(dict(
                    clause=f, signature=f,
                    what='after %s(%s) at step %d of %s: %s' % (
                        line['ev'], ','.join(map(str, line['args'])), v['i'], t['tid'],
                        ' '.join(_fmt(t['history'][:v['i']]))),
                    replay_payload=dict(kind='appcfg', property='C13', clause=f,
                                        history=t['history'][:v['i']], late=t.get('late', False),
                                        failed_step=v['i'])))
    if full_run and (len(nontrivial) * 10 < len(traces) or ctx.skipped * 10 > len(verdicts)):
        # e.g. the handlers raise on every call because of the way the harness set them up
        raise tlc.MachineryError('vacuity: %d of %d histories non-trivial, %d of %d steps ended in an '
                                 'exception' % (len(nontrivial), len(traces), ctx.skipped, len(verdicts)))
    # report the shortest failing history of each clause
    violations.sort(key=lambda x: (x['clause'], len(x['replay_payload']['history'])))
    samples = []
    for t in traces:
        if core.hist_hash(t['history']) in nontrivial and 12 <= len(t['history']) <= 30:
            samples.append(dict(source=t['src'], history=_fmt(t['history'])))
        if len(samples) >= 3:
            break
    if not samples and traces:
        samples.append(dict(source=traces[0]['src'], history=_fmt(traces[0]['history'])))
    if ctx.drift:
        print('DRIFT: %d recorded steps are a step of neither the unchanged nor the repaired model, or '
              'miss a guarantee of the cleanup-service extension %s '
              '(spec needs updating; not a violation)' % (ctx.drift, dict(ext_fail) or ''))
    extensions = dict(
        cleanup_service=dict(
            what='cleanup.Cleanup._sync/_add_cleanup_app/_remove_cleanup_app/invoke as actions of '
                 'AppCfg.tla; clauses ext.cleanup.step/invoke/dirs/cleaning/sync (conformance class)',
            model_runs=getattr(ctx, 'ext_mc', []),
            steps_of_the_service=flags.get('ext.cleanup', 0),
            invoke_on_vanished_target=flags.get('ext.cleanup.gone', 0),
            steps_judged=evaluations, failed=dict(ext_fail)))
    return core.conclude(
        ctx, level='model_checking', violations=violations, evaluations=evaluations,
        distinct_nontrivial=len(nontrivial), rule=RULE, samples=samples,
        traces_validated=len(traces), assumptions=ASSUMPTIONS,
        extra=dict(trace_sources=dict(collections.Counter(t['src'] for t in traces)),
                   clause_failures=dict(clause_hits), step_flags=dict(flags),
                   drift_samples=drift_samples, notes=ctx.notes, extensions=extensions,
                   repo=core.REPO))


def _with_java_tmp(fn):
    """TLC leaves an empty tlc-<n> directory in java.io.tmpdir per run: point it
    at a scratch directory that is removed afterwards."""
    import functools

    @functools.wraps(fn)
    def wrapper(*a, **kw):
        jtmp = tlc.scratch('verif-jtmp-')
        old = os.environ.get('JAVA_TOOL_OPTIONS')
        os.environ['JAVA_TOOL_OPTIONS'] = ((old + ' ') if old else '') + '-Djava.io.tmpdir=' + jtmp
        try:
            return fn(*a, **kw)
        finally:
            if old is None:
                os.environ.pop('JAVA_TOOL_OPTIONS', None)
            else:
                os.environ['JAVA_TOOL_OPTIONS'] = old
            shutil.rmtree(jtmp, ignore_errors=True)
    return wrapper


@_with_java_tmp
def run(ctx):
    # import the driver (and with it treadmill) in the MAIN thread: treadmill.logcontext
    # sets up thread-local state at import time, for the importing thread only
    from .. import appcfg_driver  # noqa: F401  pylint: disable=unused-import
    with concurrent.futures.ThreadPoolExecutor(2) as ex:
        f_ext = ex.submit(_mc_ext, ctx)          # extension MC alongside the C13 MC
        f_wit = ex.submit(_witnesses, ctx)
        cex = list(_mc(ctx))
        ctx.ext_mc = f_ext.result()
        witnesses = f_wit.result()
    n_tlc, depth = (100, 26) if ctx.quick else (3000, 30)
    n_rnd = 300 if ctx.quick else 12000
    hist = cex + witnesses + _tlc_histories(ctx, n_tlc, depth)
    jobs = [(src, h, 0, 0, (), 0, False) for src, h in hist]
    rng = random.Random(ctx.seed * 7919 + 13)
    for k in range(n_rnd):
        jobs.append(('rnd', None, rng.randrange(2 ** 30), rng.choice([16, 25, 40]),
                     ('a1', 'a2', 'a3') if k % 3 == 0 else ('a1', 'a2'),
                     3 if k % 2 else 2, k % 4 == 3))
    # extension: histories in which the cleanup service runs (own generator stream, so
    # that the histories above are the same as without the extension)
    rng2 = random.Random(ctx.seed * 104729 + 5)
    n_svc = 60 if ctx.quick else 2500
    for k in range(n_svc):
        jobs.append(('rnd-svc', None, rng2.randrange(2 ** 30), rng2.choice([25, 40]),
                     ('a1', 'a2', 'a3') if k % 3 == 0 else ('a1', 'a2'), 3 if k % 2 else 2,
                     False, True))
    # histories in which the manager is killed inside handlers (own stream as well)
    rng3 = random.Random(ctx.seed * 15485863 + 11)
    n_crash = 80 if ctx.quick else 3000
    for k in range(n_crash):
        jobs.append(('rnd-crash', None, rng3.randrange(2 ** 30), rng3.choice([16, 25, 40]),
                     ('a1', 'a2', 'a3') if k % 3 == 0 else ('a1', 'a2'), 3 if k % 2 else 2,
                     False, k % 4 == 0, True))
    # the node monitor handles the tombstone of a marker-less (or finished) running container right before
    # the k-th file-system probe of a synchronisation (readiness flip / manager restart), for every k
    n_med = 0
    for variant in ('flip', 'restart'):
        for dies, marker in (('a1', 'none'), ('a2', 'none'), ('a1', 'exitinfo')):
            for k in range(1, 13 if ctx.quick else 41):
                h = [['ReadyOn', []], ['Deliver', []], ['CacheCreate', ['a1']], ['Deliver', []],
                     ['CacheCreate', ['a2']], ['Deliver', []], ['ContainerFinishes', [dies, 1, marker]]]
                h += ([['ReadyOff', []], ['Deliver', []], ['ReadyOn', []]] if variant == 'flip'
                      else [['ManagerRestart', []], ['ReadyOn', []]])
                h += [['Meddle', [k]], ['Deliver', []], ['Deliver', []]]
                jobs.append(('meddle', h, 0, 0, (), 0, False))
                n_med += 1
    ctx.log('%d histories with the monitor acting inside a synchronisation' % n_med)
    ctx.log('%d histories (%d counterexamples, %d TLC-simulated, %d random, %d random with the '
            'cleanup service, %d random with kills inside handlers)' % (
                len(jobs), len(cex), len(hist) - len(cex), n_rnd, n_svc, n_crash))
    traces = _record(ctx, jobs, 8 if ctx.quick else 14)
    ctx.log('recorded %d traces, %d lines' % (len(traces), sum(len(t['lines']) for t in traces)))
    verdicts, stats = _validate(traces, timeout=300 if ctx.quick else 3000)
    ctx.cmds.append(stats['cmd'])
    return judge(ctx, traces, verdicts, full_run=True)


@_with_java_tmp
def replay(ctx, path):
    payload = json.load(open(path))
    jobs = [('replay', [list(x) for x in payload['history']], 0, 0, (), 0,
             bool(payload.get('late', False)))]
    traces = _record(ctx, jobs, 1)
    verdicts, stats = _validate(traces, timeout=300)
    ctx.cmds.append(stats['cmd'])
    for t in traces:
        for k, line in enumerate(t['lines'][1:], 1):
            ctx.log('  %2d %s(%s)' % (k, line['ev'], ','.join(map(str, line['args']))))
    return judge(ctx, traces, verdicts)


# ---------------------------------------------------------------------------
# ./check C13 --selftest : demonstrates that the check is bound to the code
# (DESIGN.md 4.4).  Not part of the quick tier.
_GOOD = [['ReadyOn', []], ['Deliver', []], ['CacheCreate', ['a1']], ['Deliver', []],
         ['ContainerFinishes', ['a1', 1, 'exitinfo']], ['MonitorCleanup', ['a1', 1]],
         ['ReadyOff', []], ['Deliver', []], ['ReadyOn', []], ['Deliver', []],      # 10: a sync
         ['CacheCreate', ['a2']], ['Deliver', []], ['CacheDelete', ['a2']], ['Deliver', []]]  # 14: _on_deleted


def _corruptions():
    """(name, step (1-based line index), function editing that line's post, clause expected)."""
    def relink(post):      # the terminated container is still linked under running/
        post['running'].append(dict(n='a2', t=dict(i='a2', g=1)))

    def restart(post):     # the finished container is linked under running/ again
        post['running'].append(dict(n='a1', t=dict(i='a1', g=1)))

    def not_handed(post):  # _on_deleted left no cleanup link
        post['cleanup'] = [l for l in post['cleanup'] if l['t']['i'] != 'a2']

    def second(post):      # a second cleanup link to the same container
        post['cleanup'].append(dict(n=dict(k='i', i='a2', g=0), t=dict(i='a2', g=1)))
    return [('running link kept by _on_deleted', 14, relink, 'C13.handoff'),
            ('no cleanup link after _on_deleted', 14, not_handed, 'C13.handoff'),
            ('second cleanup link', 14, second, 'C13.oneLink'),
            ('finished container relinked by the sync', 10, restart, 'C13.noRestart')]


_MUTANTS = [
    ('_terminate links instead of renaming',
     '            fs.replace(instance_run_link, container_cleanup_link)\n',
     '            fs.symlink_safe(container_cleanup_link, container_dir)\n'),
    ('_synchronize ignores the finish markers',
     "                    for cleanup_file in ['exitinfo', 'aborted', 'oom']:\n"
     "                        path = os.path.join(data_dir, cleanup_file)\n",
     "                    for cleanup_file in []:\n"
     "                        path = os.path.join(data_dir, cleanup_file)\n"),
    ('_synchronize terminates by cache name only',
     '                if not is_cached:\n',
     '                if appname not in cached:\n'),
]


@_with_java_tmp
def selftest(ctx):
    import copy
    import subprocess
    import sys
    ok = True
    # (a) trace corruption: TLC must name the clause
    base = _record(ctx, [('selftest', _GOOD, 0, 0, (), 0, False)], 1)[0]
    verdicts, _ = _validate([base], timeout=300)
    clean = sorted({f for v in verdicts for f in v['fail']})
    ctx.log('uncorrupted trace: %d steps, failed clauses %s' % (len(verdicts), clean))
    if clean:
        raise tlc.MachineryError('the reference trace of the selftest is not clean: %s' % clean)
    traces = []
    for k, (name, step, edit, clause) in enumerate(_corruptions()):
        t = copy.deepcopy(base)
        t['tid'] = 'corrupt:%d' % k
        edit(t['lines'][step]['post'])
        traces.append(t)
    verdicts, _ = _validate(traces, timeout=300)
    for k, (name, step, edit, clause) in enumerate(_corruptions()):
        got = sorted({f for v in verdicts if v['tid'] == 'corrupt:%d' % k and v['i'] == step
                      for f in v['fail']})
        hit = clause in got
        ok &= hit
        ctx.log('corruption %-45s step %2d -> %s  [%s]' % (name, step, got, 'ok' if hit else 'MISSED'))
    # (b) code mutants on a scratch copy (with the proposed fixes applied if the tree lacks them)
    work = tlc.scratch('verif-c13-mut-')
    evidence = os.path.join(core.EVIDENCE, 'C13.json')
    saved = open(evidence).read() if os.path.exists(evidence) else None
    try:
        dst = os.path.join(work, 'lib', 'python', 'treadmill')
        shutil.copytree(os.path.join(core.REPO, 'lib', 'python', 'treadmill'), dst,
                        ignore=shutil.ignore_patterns('__pycache__', 'tests'))
        target = os.path.join(dst, 'appcfgmgr.py')
        if '_in_cleanup' not in open(target).read():
            fixes = os.path.join(core.VERIF, 'proposed_fixes')
            for f in sorted(os.listdir(fixes)):
                if f.startswith('C13-') and f.endswith('.patch'):
                    subprocess.run(['patch', '-s', '-p1', '-d', work, '-i', os.path.join(fixes, f)],
                                   check=True)
            ctx.log('scratch copy of %s + proposed fixes' % core.REPO)
        fixed_src = open(target).read()

        def check():
            env = dict(os.environ, VERIF_REPO=work)
            p = subprocess.run([sys.executable, os.path.join(core.VERIF, 'check'), 'C13'],
                               env=env, stdout=subprocess.PIPE, stderr=subprocess.STDOUT)
            out = p.stdout.decode()
            clauses = sorted({l.split('clause=')[1].split()[0] for l in out.splitlines()
                              if 'clause=' in l})
            return p.returncode, clauses
        rc, clauses = check()
        ctx.log('repaired tree: exit %d %s [%s]' % (rc, clauses, 'ok' if rc == 0 else 'UNEXPECTED'))
        ok &= rc == 0
        for name, old, new in _MUTANTS:
            if old not in fixed_src:
                raise tlc.MachineryError('mutant %r does not apply' % name)
            with open(target, 'w') as f:
                f.write(fixed_src.replace(old, new))
            rc, clauses = check()
            ctx.log('mutant %-45s -> exit %d %s [%s]' % (name, rc, clauses,
                                                           'ok' if rc == 1 else 'MISSED'))
            ok &= rc == 1
    finally:
        shutil.rmtree(work, ignore_errors=True)
        if saved is not None:           # the sub-runs wrote evidence about the scratch trees
            with open(evidence, 'w') as f:
                f.write(saved)
    print('SELFTEST C13 %s' % ('passed' if ok else 'FAILED'))
    return 0 if ok else 2
