"""C14: VIPs, firewall rule files and endpoint specs have exactly one owner.
See DESIGN.md section 6 (C14), specs/node/Owners.tla, harness/owners_driver.py."""
import collections
import concurrent.futures
import json
import os
import random
import shutil

from .. import core, tlc
from .. import owners_driver as od

RULE = ('a history counts when some call is contested: a create/alloc of an entry another owner '
        'holds, a free/unlink aimed at an entry another owner holds, a garbage collection with '
        'both live-owned and orphaned entries present, an allocation from an exhausted pool, or an owner '
        'appearing/disappearing/registering in the middle of a garbage collection pass; '
        'distinct = distinct operation histories')
NONTRIVIAL = {'contestedGrant', 'foreignRelease', 'gcMixed', 'exhausted', 'gcInterleaved'}

ASSUMPTIONS = [
    'owners are directories created/removed by the harness (apps/<owner> and network_svc/resources/<owner>); '
    'calls are sequential, one at a time (the managers have no locks of their own; atomicity rests on symlink(2)), '
    'except garbage collection: a pass is interleaved at its directory reads with what another process may do '
    '(a new owner that holds nothing yet appears, a live owner registers entries, an owner disappears)',
    'CIDR 192.168.0.0/29 for replays (model checking: /30); which free host an allocation returns is left open '
    'in Owners.tla and read from the observation',
    'the network service is driven the way services/_base_service drives it: initialize, import of the listed '
    'requests, synchronize, then created/deleted events in order; netdev is a stateful fake, the ipset binary '
    'is an interpreter of the command lines iptables.py builds',
    'EndpointsMgr.create_spec refusing the owner\'s own repeat is modelled as the code has it (stricter than the property)',
    'VipMgr.alloc(picked_ip=...) has no caller in the tree; it is exercised with host addresses and one outside address',
]


def _tmp_env():
    """Keep TLC's own temp files (unpacked standard modules) in a dir we remove."""
    d = tlc.scratch('verif-jtmp-')
    old = os.environ.get('JAVA_TOOL_OPTIONS')
    os.environ['JAVA_TOOL_OPTIONS'] = ((old + ' ') if old else '') + '-Djava.io.tmpdir=' + d
    return d, old


def _tmp_env_done(d, old):
    if old is None:
        os.environ.pop('JAVA_TOOL_OPTIONS', None)
    else:
        os.environ['JAVA_TOOL_OPTIONS'] = old
    shutil.rmtree(d, ignore_errors=True)


def _mc(ctx):
    """Exhaustive runs, one per database + the service.  Returns counterexample histories."""
    # MaxEvents = 0: no bound on the history length -- the state space of each
    # focus is finite, so these runs cover histories of every length.
    if ctx.quick:
        plan = [('vip', dict(owners=3, hosts=2), True), ('vip', dict(owners=2, hosts=6), False),
                ('rule', dict(owners=3, rules=2), True), ('spec', dict(owners=3, specs=3), True),
                ('svc', dict(owners=3, hosts=2), True),
                ('gcrule', dict(owners=3, rules=2), True)]   # the stepped pass is one operator for all three
    else:
        plan = [('vip', dict(owners=3, hosts=2), True), ('vip', dict(owners=4, hosts=6), False),
                ('rule', dict(owners=4, rules=3), True), ('spec', dict(owners=4, specs=4), True),
                ('svc', dict(owners=3, hosts=2), True), ('svc', dict(owners=3, hosts=6), False),
                ('svc', dict(owners=4, hosts=2), False),
                ('gcrule', dict(owners=3, rules=3), True), ('gcvip', dict(owners=3, hosts=2), True),
                ('gcspec', dict(owners=3, specs=3), True), ('gcvip', dict(owners=4, hosts=2), False)]
    need = dict(vip=['VipGC', 'VipFree', 'VipAlloc', 'VipAllocPicked', 'OwnerDisappears', 'Initialize'], rule=['RuleGC', 'RuleCreate', 'RuleUnlink', 'Initialize'],
                spec=['SpecGC', 'SpecCreate', 'SpecUnlink', 'SpecUnlinkAll', 'Initialize'],
                svc=['Synchronize', 'SvcStart', 'OnDelete', 'OnCreate', 'OnCreateFail', 'Import'], mgr=[],
                gcrule=['GcBegin', 'GcList', 'GcVisit', 'GcEnd', 'RuleCreate', 'OwnerAppears'],
                gcvip=['GcBegin', 'GcList', 'GcVisit', 'GcEnd', 'VipAlloc', 'OwnerAppears'],
                gcspec=['GcBegin', 'GcList', 'GcVisit', 'GcEnd', 'SpecCreate', 'OwnerAppears'])

    def one(item):
        focus, kw, cov = item
        mod, cfg, files = od.mc_files(focus, 0, tag='_%do%dh' % (kw['owners'], kw.get('hosts', 0)), **kw)
        return item, tlc.mc(od.SPEC_DIR, mod, cfg, extra_files=files, workers=4 if ctx.quick else 8,
                            heap='3g', coverage=cov, timeout=120 if ctx.quick else 800)
    cex = []
    with concurrent.futures.ThreadPoolExecutor(len(plan)) as ex:
        for (focus, kw, _cov), res in ex.map(one, plan):
            ctx.add_mc('Owners/%s unbounded %s' % (focus, json.dumps(kw, sort_keys=True)), res,
                       need_actions=need[focus])
            if res['timed_out'] and ctx.quick:
                raise tlc.MachineryError('model checking of focus %s did not finish' % focus)
            if res['violated']:
                ctx.log('model invariant %s violated in focus %s; counterexample is replayed on the code'
                        % (res['violated'], focus))
                labels = [(a, tlc.tlaval.split_args(b)) for a, b in res['cex']
                          if a not in ('Initial', 'Next')]
                cex.append(od.history_of(labels))
    return cex


def _gen(ctx):
    n_tlc = 120 if ctx.quick else 2500
    n_rnd = 250 if ctx.quick else 6000
    out = []
    for k, (focus, depth, kw) in enumerate([
            ('mgr', 16, dict(owners=3, hosts=6, rules=2, specs=3)),
            ('vip', 16, dict(owners=3, hosts=6)),
            ('svc', 20, dict(owners=3, hosts=6)),
            ('gc', 18, dict(owners=4, hosts=6, rules=3, specs=3))]):
        mod, cfg, files = od.mc_files(focus, 0, tag='_gen', invariants=(), **kw)
        behaviours, cmd = tlc.simulate(od.SPEC_DIR, mod, cfg, num=n_tlc, depth=depth + 1,
                                       seed=ctx.seed * 31 + k, procs=4 if ctx.quick else 10,
                                       extra_files=files, timeout=100 if ctx.quick else 600)
        ctx.cmds.append(cmd)
        if not behaviours:
            raise tlc.MachineryError('TLC generated no behaviour for focus %s' % focus)
        for b in behaviours:
            out.append(('tlc-' + focus, od.history_of(b)))
    rng = random.Random(ctx.seed * 7919 + 14)
    for _ in range(n_rnd):
        mode = rng.choice(['mgr', 'mgr', 'svc'])
        out.append(('rnd-' + mode, od.gen_random(rng, rng.choice([12, 20, 30]), mode)))
    return out


def _replay_one(item):
    k, src, h = item
    return dict(tid='%s:%d' % (src, k), src=src, history=[list(x) for x in h], lines=od.replay(h))


def _record(hist):
    return od.pmap(_replay_one, [(k, src, h) for k, (src, h) in enumerate(hist)])


def judge(ctx, traces, verdicts):
    total = sum(len(t['lines']) - 1 for t in traces)
    if len(verdicts) != total:
        raise tlc.MachineryError('trace spec judged %d of %d lines' % (len(verdicts), total))
    by_tid = {t['tid']: t for t in traces}
    violations, nontrivial, flags = [], set(), collections.Counter()
    ext_failed = collections.Counter()
    for v in verdicts:
        t = by_tid[v['tid']]
        fails = set(v['fail'])
        if 'drift.step' in fails or any(f.startswith('ext.') for f in fails):
            ctx.drift += 1
        for f in fails:
            if f.startswith('ext.'):
                ext_failed[f] += 1
        flags.update(v['ex'])
        if NONTRIVIAL & set(v['ex']):
            nontrivial.add(core.hist_hash(t['history']))
        for f in sorted(fails):
            if f.startswith('C14.'):
                line = t['lines'][v['i']]
                violations.append(dict(
                    clause=f, signature='%s@%s' % (f, line['ev']),
                    what='after %s(%s) -> %s at line %d of: %s' % (
                        line['ev'], ','.join(line['args']), line['res'], v['i'],
                        ' '.join(od.show(x) for x in t['history'][:line['h'] + 1])[-400:]),
                    replay_payload=dict(kind='owners', property='C14', clause=f,
                                        history=t['history'][:line['h'] + 1], failed_step=v['i'])))
    violations.sort(key=lambda x: len(x['replay_payload']['history']))   # shortest first
    samples = []
    for t in traces:
        if core.hist_hash(t['history']) in nontrivial:
            samples.append(dict(source=t.get('src'), history=[od.show(x) for x in t['history']]))
        if len(samples) >= 3:
            break
    if ctx.drift:
        print('DRIFT: %d recorded steps are not what Owners.tla computes '
              '(spec needs updating; not a violation)' % ctx.drift)
    return core.conclude(
        ctx, level='model_checking', violations=violations, evaluations=len(verdicts),
        distinct_nontrivial=len(nontrivial), rule=RULE, samples=samples,
        traces_validated=len(traces), assumptions=ASSUMPTIONS,
        extra=dict(trace_sources=dict(collections.Counter(t.get('src') for t in traces)),
                   exercised=dict(flags),
                   watchdog_extension=getattr(ctx, 'wd_ext', None),
                   extensions=dict(
                       what='node start: VipMgr/RuleMgr/EndpointsMgr.initialize as Initialize(db) at arbitrary '
                            'points of a history (ext.init.removed, ext.init.kept); model-checked in the '
                            'vip/rule/spec focuses through the same monitor',
                       clauses=['ext.init.removed', 'ext.init.kept'],
                       evaluations=flags.get('ext.init', 0),
                       on_nonempty_database=flags.get('ext.init.nonempty', 0),
                       failed=dict(ext_failed))))


def _watchdog_ext(ctx):
    """Beyond C14: the lease files of treadmill.watchdog against specs/node/Watchdog.tla (DRIFT class; a
    failure of this extension never decides C14)."""
    from .. import watchdog_driver
    try:
        return watchdog_driver.run_ext(ctx)
    except Exception as e:  # pylint: disable=broad-except
        ctx.log('ext watchdog not evaluated: %s: %s' % (type(e).__name__, str(e)[:300]))
        return dict(error='%s: %s' % (type(e).__name__, str(e)[:300]))


def run(ctx):
    jtmp, old = _tmp_env()
    try:
        ctx.wd_ext = _watchdog_ext(ctx)
        cex = _mc(ctx)
        hist = [('cex', h) for h in cex] + _gen(ctx)
        ctx.log('%d histories (%d from TLC)' % (len(hist), sum(1 for s, _ in hist if not s.startswith('rnd'))))
        traces = _record(hist)
        ctx.log('recorded %d traces, %d lines' % (len(traces), sum(len(t['lines']) for t in traces)))
        verdicts, stats = od.validate(traces, timeout=300 if ctx.quick else 2400)
        ctx.cmds.append(stats['cmd'])
        return judge(ctx, traces, verdicts)
    finally:
        _tmp_env_done(jtmp, old)


def replay(ctx, path):
    payload = json.load(open(path))
    h = [tuple(x) for x in payload['history']]
    jtmp, old = _tmp_env()
    try:
        traces = _record([('replay', h)])
        for line in traces[0]['lines']:
            ctx.log(json.dumps(line, sort_keys=True))
        verdicts, _ = od.validate(traces)
        return judge(ctx, traces, verdicts)
    finally:
        _tmp_env_done(jtmp, old)


# ---------------------------------------------------------------------------
# ./check C14 --selftest : trace corruption (DESIGN 4.4) -- TLC must name the clause
def selftest(ctx):
    import copy
    h = [('OwnerAppears', ['o1']), ('OwnerAppears', ['o2']), ('VipAlloc', ['o1']), ('VipAlloc', ['o2']),
         ('VipFree', ['o2', '192.168.0.1']), ('OwnerDisappears', ['o2']), ('VipGC', []),
         ('RuleCreate', ['o1', 'r1']), ('RuleCreate', ['o2', 'r1']),
         # lines 10..14: GcBegin, GcRun, OwnerAppears(o3), RuleCreate(o3,r2), GcEnd
         ('GcPass', ['rules'], {'1': [['OwnerAppears', ['o3']], ['RuleCreate', ['o3', 'r2']]]}),
         ('Initialize', ['rules'])]      # line 15
    jtmp, old = _tmp_env()
    try:
        good = od.replay(h)

        def c_free(line):       # the foreign free "worked"
            line['post']['vips'] = [p for p in line['post']['vips'] if p[0] != '192.168.0.1']

        def c_repoint(line):    # o2's allocation was given o1's address
            line['res'] = '192.168.0.1'
            line['post']['vips'] = [['192.168.0.1', 'o2']]

        def c_cidr(line):       # an address outside the network was handed out
            line['res'] = '10.9.9.9'
            line['post']['vips'] = [['192.168.0.1', 'o1'], ['10.9.9.9', 'o2']]

        def c_gc_keep(line):    # the orphan survived the collection
            line['post']['vips'] = [['192.168.0.1', 'o1'], ['192.168.0.2', 'o2']]

        def c_gc_all(line):     # the collection also took a live owner's entry
            line['post']['vips'] = []

        def c_rule(line):       # o2's create of o1's rule "succeeded"
            line['res'] = 'ok'
            line['post']['rules'] = [['r1', 'o2']]
        def c_gc_race(line):    # the pass took the rule of the owner that appeared meanwhile
            line['post']['rules'] = [p for p in line['post']['rules'] if p[1] != 'o3']
        assert good[14]['ev'] == 'GcEnd', [x['ev'] for x in good]
        def c_init_left(line):  # node start left a rule file behind
            line['post']['rules'] = [['r2', 'o3']]
        assert good[15]['ev'] == 'Initialize'
        cases = [('init-leaves-rule', 15, c_init_left, 'ext.init.removed'),
                 ('gc-takes-newcomer', 14, c_gc_race, 'C14.gcExact'),
                 ('foreign-free', 5, c_free, 'C14.ownerOnly'), ('repoint', 4, c_repoint, 'C14.oneOwner'),
                 ('outside', 4, c_cidr, 'C14.inCidr'), ('gc-keeps-orphan', 7, c_gc_keep, 'C14.gcExact'),
                 ('gc-takes-live', 7, c_gc_all, 'C14.gcExact'), ('rule-overwrite', 9, c_rule, 'C14.oneOwner')]
        traces = [dict(tid='good', lines=good)]
        for name, idx, fn, _ in cases:
            lines = copy.deepcopy(good)
            fn(lines[idx])
            traces.append(dict(tid=name, lines=lines))
        verdicts, _ = od.validate(traces)
        by = {(v['tid'], v['i']): v for v in verdicts}
        bad = [v for v in verdicts if v['tid'] == 'good' and v['fail']]
        ok = not bad
        if bad:
            ctx.log('SELFTEST: the uncorrupted trace is not clean: %r' % bad)
        for name, idx, _, clause in cases:
            got = by[(name, idx)]['fail']
            hit = clause in got
            ok = ok and hit
            ctx.log('SELFTEST corruption %-16s line %d (%s): TLC names %s -> %s' % (
                name, idx, good[idx]['ev'], got, 'ok' if hit else 'MISSING ' + clause))
        if not ok:
            raise tlc.MachineryError('selftest: a corrupted trace was not rejected with the expected clause')
        return 0
    finally:
        _tmp_env_done(jtmp, old)
