"""C09: see DESIGN.md section 6 and harness/master_check.py."""
from .. import master_check


def run(ctx):
    return master_check.run(ctx, 'C09')


def replay(ctx, path):
    return master_check.replay(ctx, 'C09', path)


def selftest(ctx):
    return master_check.selftest(ctx, 'C09')
