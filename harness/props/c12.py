"""C12 -- the node's manifest cache mirrors what is placed on the node.

Pipeline (HOWTO): TLC model-checks specs/node/NodeCache.tla (stepped Sync,
Crash / IOError / concurrent ZooKeeper changes at every step) -> TLC simulates
histories from the same spec, a seeded generator adds larger ones -> every
history is replayed on the real EventMgr (harness/nodecache_driver.py), then
again with the sync CUT at its k-th call (true crash by fork + os._exit, crash
in the middle of a write, OSError) followed by a restart and a recovery sync ->
TLC judges every recorded line against specs/node/NodeCacheTrace.tla.
See NOTES_C12.md.
"""
import collections
import concurrent.futures
import copy
import json
import multiprocessing
import os
import random
import shutil
import subprocess
import sys

from .. import core, tlc
from .. import nodecache_driver as drv
from .. import zkmirror_driver

SPEC_DIR = os.path.join(core.SPECS, 'node')
INVARIANTS = ['InvAtomic', 'InvAtomicStep', 'InvNoExtra', 'InvPresent', 'InvContent', 'InvRefresh',
              'InvTmpClean', 'TypeOK']

RULE = ('a history counts when the recorded run contains a step that exercises a clause: an '
        'os.replace onto an instance name, the unlink of an extra entry, or a crash / I/O error cut '
        'inside a sync; distinct = distinct histories (events, interleaving positions, cut, near-by '
        'time stamps, run() mode)')

ASSUMPTIONS = [
    'EventMgr._synchronize/_cache/_cache_notify are called with the children of /placement/<host> as '
    'the ChildrenWatch would deliver them; for about half of the process starts the first call is made '
    'by the real EventMgr.run(once=True) on the fake client (its own check_existing), with time.sleep, '
    'utils.sys_exit and the context connection replaced and the presence node present; the other '
    'starts and all later syncs are direct calls (check_existing = first call after a start)',
    'the cache directory is a real directory; a crash is a forked child that os._exit()s inside the '
    'k-th recorded call, so what the parent then lists is what the kernel holds (no power-loss / '
    'fsync semantics: data of a completed write() or close() is assumed durable)',
    'the order of a placement node\'s ctime and a cache file\'s ctime is chosen by the environment: '
    'node created 10^7 s before/after every file, or 0.03-0.5 s before/after the instance\'s file inside '
    'the same integer second; "older" is the real comparison st_ctime < ctime_ms/1000.0',
    'only the event manager writes instance names into cache/ (appcfgmgr removing a cache file '
    'concurrently is not modelled)',
    'manifests and placement payloads are JSON mappings as the master writes them',
    '"written by the synchronisation" = renamed into place by this sync; "undisturbed" = the expected '
    'list equals the children at the start and no ZooKeeper change happens before the sync returns',
    'C12.refresh: the first synchronisation of a process life must leave every entry that was older '
    'than its placement node holding manifest + current placement data (outdated prior files are in '
    'the property\'s quantifier; later syncs and payload updates that keep the node\'s ctime are not judged)',
]


def tla(v):
    if isinstance(v, bool):
        return 'TRUE' if v else 'FALSE'
    if isinstance(v, int):
        return str(v)
    if isinstance(v, str):
        return json.dumps(v)
    if isinstance(v, tuple):
        return '<<' + ', '.join(tla(x) for x in v) + '>>'
    if isinstance(v, (list, set, frozenset)):
        return '{' + ', '.join(tla(x) for x in sorted(v, key=repr)) + '}'
    raise TypeError(v)


def mc_files(tag, insts, mvers, pvers, prior, newflags, bounds, defects=(), invariants=INVARIANTS):
    """Render MC_<tag>.tla/.cfg for NodeCache.tla.  bounds = dict(setup, env,
    conc, crash, err, sync, writes, prior)."""
    mod = 'MC_NodeCache_%s' % tag
    text = ('---- MODULE %s ----\nEXTENDS NodeCache\nMcPrior == %s\n====\n' % (mod, tla(list(prior))))
    cfg = ['INIT Init', 'NEXT Next', 'CHECK_DEADLOCK FALSE', 'CONSTANTS',
           ' Insts = %s' % tla(list(insts)), ' MVers = %s' % tla(list(mvers)),
           ' PVers = %s' % tla(list(pvers)),
           ' ManRec <- MCManRec', ' PDRec <- MCPDRec', ' TaskOf <- MCTaskOf',
           ' PriorVers <- McPrior', ' NewFlags = %s' % tla(list(newflags)),
           ' Defects = %s' % tla(list(defects)),
           ' MaxSetup = %d' % bounds.get('setup', 99), ' MaxEnv = %d' % bounds.get('env', 0),
           ' MaxConc = %d' % bounds.get('conc', 0), ' MaxCrash = %d' % bounds.get('crash', 0),
           ' MaxErr = %d' % bounds.get('err', 0), ' MaxSync = %d' % bounds.get('sync', 1),
           ' MaxWrites = %d' % bounds.get('writes', 2), ' MaxPrior = %d' % bounds.get('prior', 0),
           ' MaxRd = %d' % bounds.get('rd', 0), ' MaxHb = %d' % bounds.get('hb', 0)]
    cfg += ['INVARIANT %s' % i for i in invariants]
    return mod, mod + '.cfg', {mod + '.tla': text, mod + '.cfg': '\n'.join(cfg) + '\n'}


I2, I3 = ['i1', 'i2'], ['i1', 'i2', 'i3']
# name, constants, bounds, actions that must have been taken (vacuity control)
MC_QUICK = [
    ('converge', dict(insts=I2, mvers=[1, 2], pvers=[1, 2], prior=[(1, 1)], newflags=[True, False]),
     dict(prior=1, sync=1),
     ['PriorFile', 'PriorTmp', 'UnlinkExtra', 'ReadPlacement', 'ReadManifest', 'Rename', 'SyncEnd']),
    ('faults', dict(insts=I2, mvers=[1], pvers=[1], prior=[(1, 1)], newflags=[True]),
     dict(conc=1, crash=1, err=1, sync=2),
     ['Crash', 'IOError', 'CloseErr', 'Raise', 'Restart', 'SetMan', 'DelMan', 'Unplace', 'Place',
      'Write', 'Rename', 'UnlinkTmp']),
]
MC_THOROUGH = [
    ('converge', dict(insts=I2, mvers=[1, 2], pvers=[0, 1, 2], prior=[(1, 1), (2, 2), (1, 0)],
                      newflags=[True, False]),
     dict(prior=1, sync=1),
     ['PriorFile', 'PriorTmp', 'UnlinkExtra', 'ReadPlacement', 'ReadManifest', 'Rename', 'SyncEnd']),
    ('faults', dict(insts=I2, mvers=[1, 2], pvers=[1], prior=[(1, 1)], newflags=[True]),
     dict(conc=1, crash=1, err=1, sync=2),
     ['Crash', 'IOError', 'CloseErr', 'Raise', 'Restart', 'SetMan', 'DelMan', 'Unplace', 'Place',
      'Write', 'Rename', 'UnlinkTmp', 'Notify']),
    ('conc2', dict(insts=I2, mvers=[1, 2], pvers=[1, 2], prior=[(1, 1)], newflags=[True]),
     dict(conc=2, sync=1),
     ['SetMan', 'DelMan', 'Unplace', 'Place', 'SetPD', 'Rename']),
    ('three', dict(insts=I3, mvers=[1], pvers=[1], prior=[(1, 1)], newflags=[True]),
     dict(conc=1, crash=1, err=1, sync=1),
     ['Crash', 'IOError', 'UnlinkExtra', 'Rename']),
]
# readiness extension (DESIGN.md 5 / 10.6): the live run() loop, `.ready`, the watchdog lease
RD_INVARIANTS = ['InvRdyRule', 'InvRdyFirstSync', 'InvRdyWatch', 'InvRdyNoExtra', 'InvRdyWd']
RD_NEED = ['LiveStart', 'CacheNotify', 'ZkExists', 'Sleep', 'Heartbeat', 'PresenceAppears',
           'PresenceDisappears', 'PlacementAppears', 'PlacementDisappears', 'SyncBegin']
RD_ONE = dict(insts=['i1'], mvers=[1], pvers=[1], prior=[(1, 1)], newflags=[True])
RD_TWO = dict(insts=I2, mvers=[1], pvers=[1], prior=[(1, 1)], newflags=[True])
RD_QUICK = [('ready', RD_ONE, dict(rd=2, hb=2, env=1, sync=3, setup=2))]
RD_THOROUGH = [('ready', RD_ONE, dict(rd=3, hb=2, env=1, crash=1, sync=5, setup=3)),
               ('ready2', RD_TWO, dict(rd=2, hb=2, env=1, sync=4, setup=3))]
# what a reader of `.ready` might expect and the code does not give: TLC must REFUTE these
RD_IDEAL = [('InvReadyIdeal', RD_ONE, dict(rd=2, hb=1, sync=2, setup=2)),
            ('InvFollowsIdeal', RD_TWO, dict(rd=2, hb=1, sync=2, setup=3))]
RDGEN_BOUNDS = dict(setup=5, env=4, rd=4, hb=4, crash=1, sync=99, writes=2, prior=1)

GEN = dict(insts=I3, mvers=[1, 2], pvers=[0, 1, 2], prior=[(1, 1), (2, 2), (1, 0), (2, 1)],
           newflags=[True, False])
GEN_BOUNDS = dict(setup=7, env=3, conc=2, crash=1, err=1, sync=99, writes=2, prior=1)


# a few directed histories: the situations check_existing exists for (a file
# older than its re-created placement node when the agent starts), with far and
# near-by time stamps, through the driver's direct call and through run()
def _outdated(near, run, new=True):
    return [['PriorFile', 'i1', 1, 1], ['PriorFile', 'i2', 2, 2], ['SetMan', 'i1', 1], ['SetMan', 'i2', 2],
            ['Place', 'i2', 2, False, near], ['Place', 'i1', 2, new, near], ['Boot'], ['Sync', dict(run=run)]]


DIRECTED = [_outdated(near, run) for near in (False, True) for run in (False, True)] + [
    # the edges of the manifest domain (exponent floats, YAML-ish strings and keys, control and
    # non-BMP characters, a 1100 character key), fetched, refreshed and written by a prior life
    [['SetMan', 'i1', 4], ['SetMan', 'i2', 5], ['Place', 'i1', 4, False], ['Place', 'i2', 4, False],
     ['Boot'], ['Sync', {}]],
    [['PriorFile', 'i1', 5, 4], ['PriorFile', 'i2', 4, 1], ['SetMan', 'i1', 4], ['SetMan', 'i2', 5],
     ['Place', 'i1', 2, True], ['Place', 'i2', 4, True, True], ['Boot'], ['Sync', dict(run=True)]],
    _outdated(True, True, new=False),
    # placed, cached, agent dies, instance evicted and placed again within the same second, agent restarts
    [['SetMan', 'i1', 1], ['Place', 'i1', 1, False], ['Boot'], ['Sync', dict(run=True)], ['Crash'],
     ['Unplace', 'i1'], ['Place', 'i1', 3, True, True], ['Restart'], ['Sync', dict(run=True)]],
    [['SetMan', 'i1', 3], ['Place', 'i1', 3, False], ['Boot'], ['Sync', {}], ['Crash'],
     ['Unplace', 'i1'], ['SetMan', 'i1', 1], ['Place', 'i1', 1, True, True], ['Restart'], ['Sync', {}]],
]


def _mc_one(ctx, name, consts, bounds):
    mod, cfg, files = mc_files(name, bounds=bounds, **consts)
    return tlc.mc(SPEC_DIR, mod, cfg, extra_files=files, coverage=True, workers=8,
                  timeout=150 if ctx.quick else 800)


def _mc(ctx, results):
    """Step 1.  A violated invariant of the MODEL is only a design-level
    finding: its counterexample is replayed on the code (returned)."""
    cex = []
    for (name, consts, bounds, need), res in zip(MC_QUICK if ctx.quick else MC_THOROUGH, results):
        ctx.add_mc('NodeCache/%s %s' % (name, json.dumps(bounds, sort_keys=True)), res,
                   need_actions=need if not res['violated'] else ())
        if res['timed_out']:
            ctx.notes.append('model run %s timed out (partial)' % name)
        if res['violated']:
            ctx.log('model invariant %s violated in %s; counterexample is replayed on the code'
                    % (res['violated'], name))
            labels = [(a, tlc.tlaval.split_args(b)) for a, b in res['cex'] if a not in ('Initial', 'Next')]
            cex.append(drv.from_labels(labels) + [['Sync', {}]])
    return cex


def _sim_live(ctx):
    mod, cfg, files = mc_files('rdgen', bounds=RDGEN_BOUNDS, invariants=(), **RD_TWO)
    behaviours, cmd = tlc.simulate(SPEC_DIR, mod, cfg, num=30 if ctx.quick else 400, depth=45,
                                   seed=ctx.seed * 37 + 5, procs=3 if ctx.quick else 8,
                                   extra_files=files, timeout=120 if ctx.quick else 600)
    return behaviours, cmd


def _readiness_mc(ctx, pool):
    futs = [(name, bounds, pool.submit(
        lambda n=name, c=consts, b=bounds: tlc.mc(
            SPEC_DIR, *mc_files(n, bounds=b, invariants=INVARIANTS + RD_INVARIANTS, **c)[:2],
            extra_files=mc_files(n, bounds=b, invariants=INVARIANTS + RD_INVARIANTS, **c)[2],
            coverage=True, workers=2 if ctx.quick else 6, timeout=150 if ctx.quick else 800)))
            for name, consts, bounds in (RD_QUICK if ctx.quick else RD_THOROUGH)]
    ideal = [(inv, pool.submit(
        lambda i=inv, c=consts, b=bounds: tlc.mc(
            SPEC_DIR, *mc_files('ideal_' + i, bounds=b, invariants=[i], **c)[:2],
            extra_files=mc_files('ideal_' + i, bounds=b, invariants=[i], **c)[2],
            coverage=False, workers=2, timeout=150)))
             for inv, consts, bounds in ([] if ctx.quick else RD_IDEAL)]      # thorough tier only
    return futs, ideal


def _readiness_mc_done(ctx, futs, ideal):
    ext = dict(model_runs=[], refuted_ideals={})
    for name, bounds, f in futs:
        res = f.result()
        ctx.add_mc('NodeCache/%s (readiness extension) %s' % (name, json.dumps(bounds, sort_keys=True)), res,
                   need_actions=RD_NEED if not res['violated'] else ())
        ext['model_runs'].append(dict(name=name, distinct=res['distinct'], violated=res['violated']))
        if res['violated']:
            ctx.log('readiness MODEL invariant %s violated (extension; design-level only)' % res['violated'])
    for inv, f in ideal:
        res = f.result()
        ctx.cmds.append(res['cmd'])
        ext['refuted_ideals'][inv] = (['%s(%s)' % (a, b) for a, b in res['cex'] if a not in ('Initial',)]
                                      if res['violated'] == inv else 'NOT REFUTED')
        ctx.log('ideal %s: %s' % (inv, 'refuted by the model of the code in %d steps' % len(res['cex'])
                                  if res['violated'] == inv else 'not refuted'))
    return ext


def _sim(ctx):
    n_tlc = 70 if ctx.quick else 600
    mod, cfg, files = mc_files('gen', bounds=GEN_BOUNDS, invariants=(), **GEN)
    behaviours, cmd = tlc.simulate(SPEC_DIR, mod, cfg, num=n_tlc, depth=48 if ctx.quick else 60,
                                   seed=ctx.seed * 31 + 12, procs=6 if ctx.quick else 12,
                                   extra_files=files, timeout=120 if ctx.quick else 600)
    return behaviours, cmd


def _gen(ctx, behaviours, cmd):
    """Step 2: behaviours of the same spec + seeded random histories."""
    n_rnd = 70 if ctx.quick else 600
    ctx.cmds.append(cmd)
    rng = random.Random(ctx.seed * 7919 + 12)
    out = [('dir', copy.deepcopy(h)) for h in DIRECTED]
    out += [('tlc', drv.vary(drv.from_labels(b), rng)) for b in behaviours]
    for k in range(n_rnd):
        out.append(('rnd', drv.gen_random(rng, insts=rng.choice([2, 3, 3, 5]))))
    return out


# ---------------------------------------------------------------------------
# step 3: replay (process pool; every worker imports the code under test itself)
def _work(job):
    src, hist, mode, seed = job
    try:
        lines = drv.replay(hist)
        out = [dict(src=src, history=hist, log_from=0, lines=lines)]
        if mode == 'none':
            return out
        if mode == 'all':
            pick = None
        else:
            rng = random.Random(seed)
            cand = []
            for s, calls in enumerate(drv.sync_calls(lines)):
                for k, ev in enumerate(calls, 1):
                    cand.append((s, k, 'crash'))
                    if ev == 'Write':
                        cand.append((s, k, 'crashmid'))
                    if ev in drv.FS_CALLS:
                        cand.append((s, k, 'ioerr'))
            chosen = set(rng.sample(cand, min(len(cand), int(mode))))

            def pick(s, k, n, ev, m):
                return (s, k, m) in chosen
        for log_from, h in drv.cut_variants(hist, lines, pick):
            out.append(dict(src=src + '+cut', history=h, log_from=log_from,
                            lines=drv.replay(h, log_from=log_from)))
        return out
    except tlc.MachineryError as err:
        return dict(error=str(err))
    except Exception:       # pylint: disable=broad-except
        import traceback
        return dict(error=traceback.format_exc()[-2000:])


def _record(ctx, hists):
    """hists: list of (src, history, cut mode)."""
    jobs = [(src, h, mode, ctx.seed * 1000003 + k) for k, (src, h, mode) in enumerate(hists)]
    procs = min(12, max(1, len(jobs)))
    traces = []
    if procs == 1:
        results = [_work(j) for j in jobs]
    else:
        with multiprocessing.get_context('fork').Pool(procs) as pool:
            results = pool.map(_work, jobs, chunksize=4)
    for res in results:
        if isinstance(res, dict):
            raise tlc.MachineryError('replay failed:\n' + res['error'])
        traces.extend(res)
    for k, t in enumerate(traces):
        t['tid'] = '%s:%d' % (t['src'], k)
    return traces


def _validate_chunk(ctx, traces, timeout):
    work = tlc.scratch('verif-batch-')
    try:
        path = os.path.join(work, 'batch.json')
        batch = drv.batch_header()
        batch['traces'] = [dict(tid=t['tid'], lines=t['lines']) for t in traces]
        with open(path, 'w') as f:
            json.dump(batch, f)
        try:
            return tlc.validate(SPEC_DIR, 'NodeCacheTrace', 'NodeCacheTrace.cfg', path, timeout=timeout)
        except tlc.MachineryError as err:
            if 'rc=143' not in str(err) and 'rc=137' not in str(err):
                raise
            ctx.log('TLC was killed from outside (SIGTERM/SIGKILL); one retry')
            return tlc.validate(SPEC_DIR, 'NodeCacheTrace', 'NodeCacheTrace.cfg', path, timeout=timeout)
    finally:
        shutil.rmtree(work, ignore_errors=True)


def _validate(ctx, traces, timeout, chunk_lines=60000):
    """Step 4; batches of about chunk_lines lines, at most 4 TLC runs at a time."""
    chunks, cur, n = [], [], 0
    for t in traces:
        cur.append(t)
        n += len(t['lines'])
        if n >= chunk_lines:
            chunks.append(cur)
            cur, n = [], 0
    if cur:
        chunks.append(cur)
    with concurrent.futures.ThreadPoolExecutor(4) as pool:
        results = list(pool.map(lambda c: _validate_chunk(ctx, c, timeout), chunks))
    verdicts = [v for vs, _ in results for v in vs]
    if results:
        ctx.cmds.append(results[0][1]['cmd'])
    total = sum(len(t['lines']) - 1 for t in traces)
    if len(verdicts) != total:
        raise tlc.MachineryError('trace spec judged %d of %d lines' % (len(verdicts), total))
    return verdicts


def _show(h):
    out = []
    for e in h:
        if e[0] == 'Sync':
            o = e[1] if len(e) > 1 else {}
            conc = ';'.join('%s@%s' % ('/'.join(map(str, x)), k) for k, v in sorted((o.get('conc') or {}).items(), key=lambda kv: int(kv[0])) for x in v)
            out.append('%s(%s%s)' % ('SyncViaRun' if o.get('run') else 'Sync',
                                     'cut=%s@%s ' % tuple(o['cut']) if o.get('cut') else '', conc))
        else:
            out.append('%s(%s)' % (e[0], ','.join(map(str, e[1:]))))
    return out


def judge(ctx, traces, verdicts):
    by_tid = {t['tid']: t for t in traces}
    violations, nontrivial, flags = [], set(), collections.Counter()
    evaluations = spontaneous = ext_lines = 0
    ext_fail = collections.Counter()
    seen = set()
    for v in sorted(verdicts, key=lambda x: (x['tid'], x['i'])):
        t = by_tid[v['tid']]
        line = t['lines'][v['i']]
        fails = set(v['fail'])
        evaluations += 1
        if any(f.startswith('drift.') for f in fails):
            ctx.drift += 1
        for f in fails:
            if f.startswith('ext.'):
                ext_fail[f] += 1
        if t['src'] in ('live', 'tlclive'):
            ext_lines += 1
        if line['ev'] == 'SyncExc' and not line.get('injected'):
            spontaneous += 1
        for f in v['ex']:
            flags[f] += 1
        if 'C12' in v['ex']:
            nontrivial.add(core.hist_hash(t['history']))
        for f in sorted(fails):
            if f.startswith('C12.') and (v['tid'], f) not in seen:
                seen.add((v['tid'], f))
                violations.append(dict(
                    clause=f, signature=f,
                    what='after %s%s at line %d of %s: %s' % (
                        line['ev'], line['args'], v['i'], v['tid'], ' '.join(_show(t['history']))),
                    replay_payload=dict(kind='nodecache', property='C12', clause=f,
                                        history=t['history'], log_from=t['log_from'],
                                        failed_line=v['i'])))
    # where in the code's iteration the vanished instances really were (read off the traces)
    vanish_pos = collections.Counter()
    for t in traces:
        if t['src'] != 'vanish':
            continue
        reads = []
        for line in t['lines']:
            if line['ev'] == 'SyncBegin':
                reads = []
            elif line['ev'] == 'ZkGet' and line['args'][0] == 'placement':
                reads.append(line['args'][1] in line['post']['zk']['pl'])
            elif line['ev'] == 'SyncEnd' and reads and not all(reads):
                for k, ok in enumerate(reads):
                    if not ok:
                        vanish_pos['first' if k == 0 else 'last' if k == len(reads) - 1 else 'middle'] += 1
                reads = []
    violations.sort(key=lambda x: len(json.dumps(x['replay_payload']['history'])))
    samples = []
    for t in traces:
        if core.hist_hash(t['history']) in nontrivial and t['src'] not in [s['source'] for s in samples]:
            samples.append(dict(trace=t['tid'], source=t['src'], lines=len(t['lines']),
                                history=_show(t['history'])))
        if len(samples) >= 3:
            break
    if ctx.drift:
        print('DRIFT: %d recorded calls are not the step NodeCache.tla takes there (the write path '
              'changed shape; spec needs updating; not a violation)' % ctx.drift)
    if ext_fail:
        print('DRIFT: readiness extension (ext.ready.*, beyond the listed property; not a violation): %s'
              % dict(ext_fail))
    extensions = dict(getattr(ctx, 'ext', {}) or {})
    extensions.update(clauses=['ext.ready.step', 'ext.ready.rule', 'ext.ready.firstSync', 'ext.ready.wd'],
                      lines_judged=ext_lines, unexplained=dict(ext_fail),
                      exercised={k: n for k, n in flags.items() if k.startswith('ext.')})
    if spontaneous:
        print('NOTE: _synchronize raised %d times without an injected error' % spontaneous)
    return core.conclude(
        ctx, level='model_checking', violations=violations, evaluations=evaluations,
        distinct_nontrivial=len(nontrivial), rule=RULE, samples=samples,
        traces_validated=len(traces), assumptions=ASSUMPTIONS,
        extra=dict(trace_sources=dict(collections.Counter(t['src'] for t in traces)),
                   exercised=dict(flags), spontaneous_exceptions=spontaneous,
                   crash_cuts=flags.get('crash', 0), ioerr_cuts=flags.get('ioerr', 0),
                   vanished_between_listing_and_read=dict(vanish_pos),
                   extensions=dict(readiness=extensions, zk2fs=getattr(ctx, 'zk2fs', None)),
                   notes=ctx.notes))


def _zk2fs_ext(ctx):
    """Beyond C12: the other ZooKeeper -> file system mirror of the code base (zksync.zk2fs.Zk2Fs) against
    specs/cell/ZkMirror.tla.  Conformance class DRIFT; a failure of this extension never decides C12."""
    try:
        with concurrent.futures.ThreadPoolExecutor(2) as pool:
            f1 = pool.submit(zkmirror_driver.run_ext, ctx)
            f2 = pool.submit(zkmirror_driver.run_ext2, ctx)
            out = f1.result()
            out['two_levels'] = f2.result()
        return out
    except Exception as e:  # pylint: disable=broad-except
        ctx.log('ext zk2fs not evaluated: %s: %s' % (type(e).__name__, str(e)[:300]))
        return dict(error='%s: %s' % (type(e).__name__, str(e)[:300]))


def run(ctx):
    # model checking runs and the simulation are independent TLC processes: overlap them
    confs = MC_QUICK if ctx.quick else MC_THOROUGH
    with concurrent.futures.ThreadPoolExecutor(len(confs) + 8) as pool:
        fsim = pool.submit(_sim, ctx)
        flive = pool.submit(_sim_live, ctx) if not ctx.quick else None      # thorough tier only
        fmc = [pool.submit(_mc_one, ctx, name, consts, bounds) for name, consts, bounds, _ in confs]
        fzk = pool.submit(_zk2fs_ext, ctx)
        rdf, rdi = _readiness_mc(ctx, pool)
        results = [f.result() for f in fmc]
        behaviours, cmd = fsim.result()
        live_b, live_cmd = flive.result() if flive else ([], '')
        cex = _mc(ctx, results)
        ctx.ext = _readiness_mc_done(ctx, rdf, rdi)
        ctx.zk2fs = fzk.result()
    gen = _gen(ctx, behaviours, cmd)
    # readiness extension: the live run() loop (no cuts)
    if live_cmd:
        ctx.cmds.append(live_cmd)
    rng = random.Random(ctx.seed * 104729 + 3)
    live = [('tlclive', drv.from_labels(b)) for b in live_b]
    live = [(s, h) for s, h in live if any(e[0] == 'Live' for e in h)]
    live += [('live', drv.gen_live(rng, insts=rng.choice([1, 2, 3]))) for _ in range(30 if ctx.quick else 500)]
    ctx.log('%d histories (%d from TLC)' % (len(gen) + len(cex), sum(1 for s, _ in gen if s == 'tlc') + len(cex)))
    if ctx.quick:
        # sampled cuts: 3 per history
        hists = [('cex', h, 'all') for h in cex] + [(s, h, '3') for s, h in gen]
    else:
        # every k of every sync for the first 200 histories of each source, 3 sampled cuts for the rest
        count = collections.Counter()
        hists = [('cex', h, 'all') for h in cex]
        for s, h in gen:
            count[s] += 1
            hists.append((s, h, 'all' if count[s] <= 200 else '3'))
    hists += [(s, h, 'none') for s, h in live]
    # syncs with 3-5 instances to fetch, one or two of them vanishing between the listing and the read,
    # the vanished one aimed at the first / middle / last place of the code's iteration
    rng = random.Random(ctx.seed * 15485863 + 7)
    hists += [('vanish', drv.gen_vanish(rng, position=k % 3), 'none') for k in range(24 if ctx.quick else 450)]
    # zero-length files left under instance names by the directory's prior life
    hists += [('blank', drv.gen_blank(rng), 'none' if k % 3 else '3') for k in range(24 if ctx.quick else 450)]
    traces = _record(ctx, hists)
    ctx.log('recorded %d traces (%d with a cut), %d lines' % (
        len(traces), sum(1 for t in traces if t['src'].endswith('+cut')),
        sum(len(t['lines']) for t in traces)))
    verdicts = _validate(ctx, traces, timeout=300 if ctx.quick else 1500)
    return judge(ctx, traces, verdicts)


def replay(ctx, path):
    payload = json.load(open(path))
    hist = payload['history']
    traces = [dict(src='replay', history=hist, log_from=int(payload.get('log_from', 0)),
                   lines=drv.replay(hist, log_from=int(payload.get('log_from', 0))), tid='replay:0')]
    verdicts = _validate(ctx, traces, timeout=300)
    for v in verdicts:
        if v['fail']:
            line = traces[0]['lines'][v['i']]
            ctx.log('line %d %s%s: %s' % (v['i'], line['ev'], line['args'], sorted(v['fail'])))
    return judge(ctx, traces, verdicts)


# ---------------------------------------------------------------------------
# ./check C12 --selftest : the binding is demonstrated, not assumed (DESIGN 4.4)
SELFTEST_LIVE = [['SetMan', 'i1', 1], ['Place', 'i1', 1, False], ['Boot'],
                 ['Live', [['Heartbeat'], ['PlacementDisappears'], ['Heartbeat']]]]

SELFTEST_HISTORY = [
    ['PriorFile', 'i3', 1, 1], ['PriorFile', 'i1', 1, 1], ['Place', 'i1', 2, True], ['Place', 'i2', 1, False],
    ['SetMan', 'i1', 2], ['SetMan', 'i2', 1], ['Boot'], ['Sync', {}]]

# realistic one-line mutants: (name, file below lib/python/treadmill, old, new, clause expected)
MUTANTS = [
    ('direct-write', 'fs/__init__.py',
     [("""        with tempfile.NamedTemporaryFile(dir=dirname,
                                         delete=False,
                                         prefix=prefix,
                                         mode=mode) as tmpfile:""",
       """        with io.open(filename, mode) as tmpfile:"""),
      ("        replace(tmpfile.name, filename)\n", "        pass\n"),
      ("            rm_safe(tmpfile.name)\n", "            pass\n")], 'C12.atomic'),
    ('no-unlink-extra', 'eventmgr.py', [("            os.unlink(manifest)\n", "            pass\n")], 'C12.noExtra'),
    ('no-placement-merge', 'eventmgr.py',
     [("                manifest.update(placement_data)\n", "                pass\n")], 'C12.content'),
    ('tmp-without-dot', 'eventmgr.py', [("prefix='.%s-' % app,", "prefix='%s-' % app,")], 'C12.atomic'),
    ('stop-at-vanished', 'eventmgr.py',
     [("""        for app in missing:
            self._cache(zkclient, app)
""", """        for app in missing:
            if not os.path.exists(os.path.join(self.tm_env.cache_dir, app)) and \\
                    not zkclient.exists(z.path.placement(self._hostname, app)):
                break
            self._cache(zkclient, app)
""")], 'C12.present'),
    ('ctime-truncated', 'eventmgr.py',
     [("placement_time = placement_metadata.ctime / 1000.0", "placement_time = placement_metadata.ctime // 1000")],
     'C12.refresh'),
    ('ready-before-watch', 'eventmgr.py',
     [('''                zkclient.ChildrenWatch(
                    z.path.placement(self._hostname), _app_watch
                )
                placement_ready.set()
''', '''                placement_ready.set()
                zkclient.ChildrenWatch(
                    z.path.placement(self._hostname), _app_watch
                )
''')], 'C12.refresh'),
]


def _corruptions(lines):
    """(name, expected clause, line index, corrupted copy of the trace lines)."""
    end = max(k for k, l in enumerate(lines) if l['ev'] == 'SyncEnd')
    ren = min(k for k, l in enumerate(lines) if l['ev'] == 'Rename')
    wr = min(k for k, l in enumerate(lines) if l['ev'] == 'Write')
    out = []

    def variant(name, clause, k, fn):
        ls = copy.deepcopy(lines)
        fn(ls[k])
        out.append((name, clause, k, ls))
    variant('content: identity of a written file changed', 'C12.content', end,
            lambda l: l['post']['dir']['i2']['f'].__setitem__('expires', 'f:1.0'))
    variant('extra: file of an unplaced instance listed after the sync', 'C12.noExtra', end,
            lambda l: l['post']['dir'].__setitem__('i3', copy.deepcopy(lines[1]['post']['dir']['i3'])))
    variant('present: file of a placed instance missing after the sync', 'C12.present', end,
            lambda l: l['post']['dir'].pop('i2'))
    variant('refresh: outdated file still holds its old content after the first sync', 'C12.refresh', end,
            lambda l: l['post']['dir'].__setitem__('i1', copy.deepcopy(lines[2]['post']['dir']['i1'])))
    variant('atomic: instance name unparseable while the temp file is written', 'C12.atomic', wr,
            lambda l: l['post']['dir'].__setitem__('i1', dict(dot=False, kind='file', parsed=False, f={})))
    variant('atomic: final name produced by a call other than replace', 'C12.atomic', ren,
            lambda l: l.__setitem__('ev', 'Chmod') or l.__setitem__('args', []))
    variant('drift: close recorded where the model expects write/fchmod', 'drift.step', wr,
            lambda l: l.__setitem__('ev', 'Close'))
    return out


def selftest(ctx):
    ok = True
    lines = drv.replay(SELFTEST_HISTORY)
    good = [dict(src='good', tid='good:0', history=SELFTEST_HISTORY, log_from=0, lines=lines)]
    cases = _corruptions(lines)
    traces = good + [dict(src='corrupt', tid='corrupt:%d' % k, history=SELFTEST_HISTORY, log_from=0, lines=ls)
                     for k, (_, _, _, ls) in enumerate(cases)]
    # readiness extension: corrupt the trace of a live run() loop
    live = drv.replay(SELFTEST_LIVE)
    slp = max(k for k, l in enumerate(live) if l['ev'] == 'Sleep')
    cn = max(k for k, l in enumerate(live) if l['ev'] == 'CacheNotify')
    ext_cases = []
    for name, clause, k, fn in [
            ('ext: `.ready` missing when the loop goes to sleep', 'ext.ready.rule', slp,
             lambda l: l['post']['dir'].pop('.ready')),
            ('ext: watchdog lease missing when the loop goes to sleep', 'ext.ready.wd', slp,
             lambda l: l['post'].__setitem__('wd', False)),
            ('ext: _cache_notify called with the opposite flag', 'ext.ready.step', cn,
             lambda l: l.__setitem__('args', [not l['args'][0]]))]:
        ls = copy.deepcopy(live)
        fn(ls[k])
        ext_cases.append((name, clause, k, ls))
    traces.append(dict(src='live', tid='livegood:0', history=SELFTEST_LIVE, log_from=0, lines=live))
    traces += [dict(src='live', tid='livebad:%d' % k, history=SELFTEST_LIVE, log_from=0, lines=ls)
               for k, (_, _, _, ls) in enumerate(ext_cases)]
    verdicts = _validate(ctx, traces, timeout=300)
    fails = collections.defaultdict(dict)
    for v in verdicts:
        fails[v['tid']][v['i']] = set(v['fail'])
    if any(fails['livegood:0'].values()):
        ctx.log('SELFTEST FAILED: the uncorrupted live trace is not clean: %r' % fails['livegood:0'])
        ok = False
    for k, (name, clause, idx, _) in enumerate(ext_cases):
        got = fails['livebad:%d' % k].get(idx, set())
        ctx.log('corruption %-70s -> line %d: %s' % (name, idx, sorted(got)))
        if clause not in got or any(f.startswith('C12.') for f in got):
            ctx.log('SELFTEST FAILED: expected %s and no property clause' % clause)
            ok = False
    if any(fails['good:0'].values()):
        ctx.log('SELFTEST FAILED: the uncorrupted trace is not clean: %r' % fails['good:0'])
        ok = False
    for k, (name, clause, idx, _) in enumerate(cases):
        got = fails['corrupt:%d' % k].get(idx, set())
        ctx.log('corruption %-70s -> line %d: %s' % (name, idx, sorted(got)))
        if clause not in got:
            ctx.log('SELFTEST FAILED: expected %s' % clause)
            ok = False
    # code mutants on a scratch copy of lib/python/treadmill
    for name, rel, subs, clause in MUTANTS:
        work = tlc.scratch('verif-mutant-')
        try:
            dst = os.path.join(work, 'lib', 'python')
            os.makedirs(dst)
            shutil.copytree(os.path.join(core.REPO, 'lib', 'python', 'treadmill'),
                            os.path.join(dst, 'treadmill'),
                            ignore=shutil.ignore_patterns('__pycache__', 'tests'))
            path = os.path.join(dst, 'treadmill', rel)
            text = open(path).read()
            for old, new in subs:
                if text.count(old) != 1:
                    raise tlc.MachineryError('mutant %s does not apply to %s' % (name, rel))
                text = text.replace(old, new)
            with open(path, 'w') as f:
                f.write(text)
            env = dict(os.environ, VERIF_REPO=work)
            env.pop('_VERIF_REEXEC', None)
            p = subprocess.run([sys.executable, os.path.join(core.VERIF, 'check'), 'C12'], env=env,
                               stdout=subprocess.PIPE, stderr=subprocess.STDOUT, timeout=1200)
            text = p.stdout.decode('utf-8', 'replace')
            clauses = sorted(set(x.split('clause=')[1].split()[0] for x in text.splitlines() if 'clause=' in x))
            ctx.log('mutant %-20s -> exit %d, clauses %s' % (name, p.returncode, clauses))
            if p.returncode != 1 or clause not in clauses:
                ctx.log('SELFTEST FAILED: expected exit 1 with %s\n%s' % (clause, text[-1500:]))
                ok = False
        finally:
            shutil.rmtree(work, ignore_errors=True)
    ctx.log('selftest %s (evidence/C12.json now describes the last mutant run: re-run ./check C12)'
            % ('passed' if ok else 'FAILED'))
    return 0 if ok else 2
