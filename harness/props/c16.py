"""C16: what a container start registers on the host is removed when it finishes.
See DESIGN.md section 6 (C16), specs/node/NetReg.tla, harness/netreg_driver.py."""
import collections
import concurrent.futures
import json
import random

from .. import core, tlc
from .. import netreg_driver as nd
from .. import owners_driver as od
from .c14 import _tmp_env, _tmp_env_done

RULE = ('a history counts when a container whose start was observed to add at least one rule file, '
        # (among them: finishes that are the retry of an aborted attempt, counted in exercised.retried)
        'endpoint spec or ip-set member is finished (so C16.clean has something to demand); '
        'distinct = distinct (manifests, interleaving) histories')

ASSUMPTIONS = [
    'manifests are schema-valid (etc/schema/app.json: passthrough is an array, endpoint type only "infra", '
    'proto tcp|udp, 0..1024 ephemeral ports) and reach the node through appcfg.manifest.load, as on a node',
    'the lines of _run.run between the network request and _unshare_network are transcribed in the harness '
    '(run() itself execs the supervisor); finish goes through the real _finish._cleanup',
    'each container holds its network resource (distinct vip from the real NetworkResourceService/VipMgr, /29) '
    'and its allocated sockets until its first finish; the network service handles a request before the '
    'client reads the reply',
    'host names resolve to the same addresses at start and at finish (pinned table; the source notes the '
    'FIXME itself); newnet, firewall plugin, conntrack, rrd, log archiving are stubbed',
    'ip-set members are attributed to the container whose start was observed to add them',
    'finish is run after a completed start (a start aborted half-way is not generated)',
    'a finish attempt may be aborted once per container by an I/O style error raised by its k-th side-effecting call '
    '(ipset command, unlink of a rule file or endpoint spec, release of the network resource); the finish is then '
    'run again, as the supervisor does',
]


def _spaces(containers, thorough):
    apps = {'c1': ['a1'], 'c2': ['a1', 'a2'], 'c3': ['a2']}
    sp = {c: nd.raw_space(apps[c], thorough) for c in containers}
    if not thorough and 'c2' in sp:
        # quick: c2 alternates between "another instance of c1's application" and "another application"
        half = len(sp['c2']) // 2
        sp['c2'] = [sp['c2'][k] if k % 2 else sp['c2'][half + k] for k in range(half)]
    return sp


def _mc(ctx):
    # (containers, big manifest space, finish<=, aborted attempts per container, thinning)
    if ctx.quick:
        runs = [(['c1', 'c2'], False, 2, 0, 1), (['c1', 'c2'], False, 2, 1, 2)]
    else:
        runs = [(['c1', 'c2'], True, 2, 0, 1), (['c1', 'c2'], False, 2, 1, 1),
                (['c1', 'c2', 'c3'], False, 1, 1, 10)]

    # beyond C16 (DESIGN 5 / 10.6): AllocPorts with every outcome of the allocation algorithm
    runs.append((['c1', 'c2'], 'ports', 1, 0, 1))

    def one(run):
        containers, big, maxfin, fail, thin = run
        if big == 'ports':
            sp = {c: nd.ports_space() for c in containers}
        else:
            sp = {c: v[::thin] for c, v in _spaces(containers, big).items()}
        mod, cfg, files = nd.mc_files(containers, sp, max_finish=maxfin, max_fail=fail,
                                      alloc_any=(big == 'ports'),
                                      tag='_%d_%d%d%s' % (len(containers), fail, thin,
                                                          'p' if big == 'ports' else ''))
        return run, sp, tlc.mc(nd.SPEC_DIR, mod, cfg, extra_files=files, workers=8, heap='6g',
                               coverage=False, timeout=150 if ctx.quick else 800)
    cex = []
    with concurrent.futures.ThreadPoolExecutor(len(runs)) as ex:
        for (containers, big, maxfin, fail, _thin), sp, res in ex.map(one, runs):
            ctx.add_mc('NetReg %d containers, %s manifests each, finish<=%d, aborted attempts<=%d%s' % (
                len(containers), '/'.join(str(len(sp[c])) for c in containers), maxfin, fail,
                ', AllocPorts: any outcome (pools %s, busy %s)' % (nd.PORT_POOLS, nd.BUSY)
                if big == 'ports' else ''), res)
            if res['timed_out'] and ctx.quick:
                raise tlc.MachineryError('model checking of NetReg did not finish')
            if res['violated']:
                ctx.log('model invariant %s violated; counterexample is replayed on the code' % res['violated'])
                labels = [(a, tlc.tlaval.split_args(b)) for a, b in res['cex'] if a not in ('Initial', 'Next')]
                cex.append(nd.history_of(labels))
    return cex


def _gen(ctx):
    n_tlc = 90 if ctx.quick else 1200
    n_rnd = 280 if ctx.quick else 4000
    out = []
    # TLC writes only behaviours that reach -depth: without faults a complete behaviour has
    # 3 events per container, with one aborted finish attempt per container 4 (a container on
    # the shared network has no attempt that could be aborted, so those appear only in the first two)
    for k, (containers, fail) in enumerate([(['c1', 'c2'], 0), (['c1', 'c2', 'c3'], 0),
                                            (['c1', 'c2'], 1)]):
        sp = _spaces(containers, True)
        if fail:
            sp = {c: [r for r in v if not r['shared']] for c, v in sp.items()}
        mod, cfg, files = nd.mc_files(containers, sp, max_fail=fail, tag='_gen%d' % k,
                                      invariants=())
        behaviours, cmd = tlc.simulate(nd.SPEC_DIR, mod, cfg, num=n_tlc,
                                       depth=(3 + fail) * len(containers) + 1,
                                       seed=ctx.seed * 31 + k, procs=4 if ctx.quick else 10,
                                       extra_files=files, timeout=100 if ctx.quick else 600)
        ctx.cmds.append(cmd)
        if not behaviours:
            raise tlc.MachineryError('TLC generated no behaviour for %r' % (containers,))
        for b in behaviours:
            out.append(('tlc', nd.history_of(b)))
    rng = random.Random(ctx.seed * 7919 + 16)
    for _ in range(n_rnd):
        out.append(('rnd', nd.gen_random(rng)))
    if not ctx.quick:
        # every k: the failing call walks through the whole finish of each container
        for _ in range(25):
            for h in nd.every_fault(nd.gen_random(rng, fail=0)):
                out.append(('allk', h))
    return out


def _replay_one(item):
    k, src, h, seed = item
    return dict(tid='%s:%d' % (src, k), src=src, history=[list(x) for x in h],
                lines=nd.replay(h, seed=seed))


def _record(ctx, hist):
    return od.pmap(_replay_one, [(k, src, h, ctx.seed * 100000 + k) for k, (src, h) in enumerate(hist)])


def _show(step):
    if step[0] == 'Finish':
        return 'Finish(%s)' % step[1]
    if step[0] == 'FinishFail':
        return 'FinishFail(%s, call %s raises)' % (step[1], step[2])
    r = step[2]
    return 'Start(%s, app=%s eps=[%s] eph=%d/%d pass=%s vring=%s shared=%s)' % (
        step[1], r['app'], ' '.join('%s/%s:%s%s' % (e['name'], e['proto'], e['port'], '!' if e['infra'] else '')
                                     for e in r['eps']),
        r['etcp'], r['eudp'], r['pass'], r['vring'], r['shared'])


def judge(ctx, traces, verdicts):
    total = sum(len(t['lines']) - 1 for t in traces)
    if len(verdicts) != total:
        raise tlc.MachineryError('trace spec judged %d of %d lines' % (len(verdicts), total))
    by_tid = {t['tid']: t for t in traces}
    violations, nontrivial, flags = [], set(), collections.Counter()
    harness_exc = 0
    ext_failed, ext_evals = collections.Counter(), 0
    for v in verdicts:
        t = by_tid[v['tid']]
        fails = set(v['fail'])
        line = t['lines'][v['i']]
        if fails & {'drift.step', 'drift.alloc'} or any(f.startswith('ext.') for f in fails):
            ctx.drift += 1
        for f in fails:
            if f.startswith('ext.'):
                ext_failed[f] += 1
        if 'ext.ports' in v['ex']:
            ext_evals += 1
        if line['ev'] == 'Start' and line['res'] == 'raise':
            harness_exc += 1
        flags.update(v['ex'])
        if 'registered' in v['ex']:
            nontrivial.add(core.hist_hash(t['history']))
        for f in sorted(fails):
            if f.startswith('C16.'):
                violations.append(dict(
                    clause=f, signature=f,
                    what='after %s(%s) -> %s %s at step %d of %s' % (
                        line['ev'], line['c'], line['res'], line['exc'], v['i'], t['tid']),
                    replay_payload=dict(kind='netreg', property='C16', clause=f,
                                        history=t['history'][:v['i']], failed_step=v['i'])))
    violations.sort(key=lambda x: len(x['replay_payload']['history']))
    if harness_exc:
        ctx.log('%d starts raised (judged as drift, see evidence)' % harness_exc)
    samples = []
    for t in traces:
        if core.hist_hash(t['history']) in nontrivial:
            samples.append(dict(source=t.get('src'), history=[_show(s) for s in t['history']]))
        if len(samples) >= 3:
            break
    if ctx.drift:
        print('DRIFT: %d recorded steps are not what NetReg.tla computes '
              '(spec needs updating; not a violation)' % ctx.drift)
    return core.conclude(
        ctx, level='model_checking', violations=violations, evaluations=len(verdicts),
        distinct_nontrivial=len(nontrivial), rule=RULE, samples=samples,
        traces_validated=len(traces), assumptions=ASSUMPTIONS,
        extra=dict(trace_sources=dict(collections.Counter(t.get('src') for t in traces)),
                   exercised=dict(flags), starts_raised=harness_exc,
                   extensions=dict(
                       what='port allocation (runtime.allocate_network_ports): ext.ports.range / distinct / '
                            'assign / held on every recorded start; model: AllocPorts with InvPorts',
                       clauses=['ext.ports.range', 'ext.ports.distinct', 'ext.ports.assign', 'ext.ports.held'],
                       evaluations=ext_evals, failed=dict(ext_failed))))


def run(ctx):
    jtmp, old = _tmp_env()
    try:
        cex = _mc(ctx)
        hist = [('cex', h) for h in cex] + _gen(ctx)
        ctx.log('%d histories (%d from TLC)' % (len(hist), sum(1 for s, _ in hist if s != 'rnd')))
        traces = _record(ctx, hist)
        ctx.log('recorded %d traces, %d lines' % (len(traces), sum(len(t['lines']) for t in traces)))
        verdicts, stats = nd.validate(traces, timeout=300 if ctx.quick else 2400)
        ctx.cmds.append(stats['cmd'])
        return judge(ctx, traces, verdicts)
    finally:
        _tmp_env_done(jtmp, old)


def replay(ctx, path):
    payload = json.load(open(path))
    h = [tuple(x) for x in payload['history']]
    jtmp, old = _tmp_env()
    try:
        traces = _record(ctx, [('replay', h)])
        for line in traces[0]['lines']:
            ctx.log('%s(%s) -> %s %s' % (line['ev'], line['c'], line['res'], line['exc']))
            ctx.log('   ' + json.dumps(line['post'], sort_keys=True))
        verdicts, _ = nd.validate(traces)
        return judge(ctx, traces, verdicts)
    finally:
        _tmp_env_done(jtmp, old)


# ---------------------------------------------------------------------------
# ./check C16 --selftest : trace corruption (DESIGN 4.4) -- TLC must name the clause
def selftest(ctx):
    import copy
    r1 = nd.raw_manifest('a1', nd.EP_SHAPES[5], 1, 1, nd.HOST_SHAPES[1], vring=True)
    r2 = nd.raw_manifest('a1', nd.EP_SHAPES[3], 0, 1, nd.HOST_SHAPES[2])
    h = [('Start', 'c1', r1), ('Start', 'c2', r2), ('Finish', 'c1'), ('Finish', 'c1'),
         ('Finish', 'c2'), ('Finish', 'c2')]
    jtmp, old = _tmp_env()
    try:
        good = nd.replay(h, seed=ctx.seed)
        c1_rule = [p for p in good[1]['post']['rules'] if p[0][0] == 'dnat' and p[0][2] == 'udp'][0]
        c1_infra = [m for m in good[1]['post']['infra'] if m[1] == 'udp'][0]

        def c_rule_left(line):      # one of c1's rule files survived its finish
            line['post']['rules'] = line['post']['rules'] + [c1_rule]

        def c_set_left(line):       # one of c1's ip-set members survived
            line['post']['infra'] = line['post']['infra'] + [c1_infra]

        def c_other_rule(line):     # finishing c1 took a rule of c2 (all that is left is c2's)
            line['post']['rules'] = line['post']['rules'][1:]

        def c_other_set(line):      # finishing c1 took c2's vring member
            line['post']['vring'] = []

        def c_repeat_changes(line):  # the second finish removed c2's endpoint specs
            line['post']['specs'] = []

        def c_repeat_raises(line):
            line['res'] = 'raise'
        def c_port_range(line):     # an allocated port outside the range of the environment
            p = line['rm']['etcp'][0]
            line['rm']['num'][p] = 1000

        def c_port_closed(line):    # a socket was closed before the manifest was saved
            line['socks'] = line['socks'][1:]
        cases = [('port-out-of-range', 1, c_port_range, 'ext.ports.range'),
                 ('socket-not-held', 1, c_port_closed, 'ext.ports.held'),
                 ('rule-left', 3, c_rule_left, 'C16.clean'), ('set-left', 3, c_set_left, 'C16.clean'),
                 ('takes-foreign-rule', 3, c_other_rule, 'C16.others'),
                 ('takes-foreign-member', 3, c_other_set, 'C16.others'),
                 ('repeat-changes', 4, c_repeat_changes, 'C16.idempotent'),
                 ('repeat-raises', 4, c_repeat_raises, 'C16.idempotent')]
        traces = [dict(tid='good', lines=good)]
        for name, idx, fn, _ in cases:
            lines = copy.deepcopy(good)
            fn(lines[idx])
            traces.append(dict(tid=name, lines=lines))
        verdicts, _ = nd.validate(traces)
        by = {(v['tid'], v['i']): v for v in verdicts}
        bad = [v for v in verdicts if v['tid'] == 'good' and v['fail']]
        ok = not bad
        if bad:
            ctx.log('SELFTEST: the uncorrupted trace is not clean: %r' % bad)
        for name, idx, _, clause in cases:
            got = by[(name, idx)]['fail']
            hit = clause in got
            ok = ok and hit
            ctx.log('SELFTEST corruption %-20s line %d (%s %s): TLC names %s -> %s' % (
                name, idx, good[idx]['ev'], good[idx]['c'], got, 'ok' if hit else 'MISSING ' + clause))
        if not ok:
            raise tlc.MachineryError('selftest: a corrupted trace was not rejected with the expected clause')
        return 0
    finally:
        _tmp_env_done(jtmp, old)
