"""C06: see DESIGN.md section 6 and harness/sched_check.py."""
from .. import sched_check


def run(ctx):
    return sched_check.run(ctx, 'C06')


def replay(ctx, path):
    return sched_check.replay(ctx, 'C06', path)


def selftest(ctx):
    return sched_check.selftest(ctx, 'C06')
