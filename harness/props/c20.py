"""C20 - the app monitor converges to the target count without overshoot.

Pipeline (HOWTO.md):
 1. TLC model-checks specs/cell/AppMon.tla (token buckets in units of 1/3600
    token, suspension, scale up/down, API outcomes chosen by the environment):
    the clauses of C20 hold for the evaluation that starts in any reachable state.
 2. Histories: TLC -simulate behaviours of the same spec + a seeded Python
    generator (more applications, larger counts, odd time steps so that token
    values are not integers).
 3. harness/appmon_driver.py replays them on the real _run_sync/reevaluate loop
    over zkfake with a fake cell API.
 4. TLC judges every line with specs/cell/AppMonTrace.tla.
"""
import collections
import concurrent.futures
import json
import os
import random
import shutil

from .. import core, tlc
from .. import appmon_driver as drv

SPEC_DIR = os.path.join(core.SPECS, 'cell')
REAL = {'a': 'proid.a', 'b': 'proid.b'}

RULE = ('a history counts when at least one evaluation issued a REST call (create or delete); '
        'distinct = distinct step sequences')

ASSUMPTIONS = [
    'the monitor is the real _run_sync loop on the in-memory ZooKeeper fake; watches are delivered '
    'synchronously, so at every evaluation the monitor sees the current /scheduled and monitor '
    'nodes (a delayed view is modelled instead by the cell carrying out accepted POSTs later: '
    'InstancesCreated / InstancesDeleted)',
    'C20 is judged per evaluation against the children of /scheduled at that moment (watches are '
    'synchronous, so the grouping built by the real _scheduled_watch must agree with them; a '
    'disagreement of the two logged views is additionally reported as drift); asking again for '
    'instances that an accepted POST has promised but the cell has not created yet is not an '
    'overshoot in the sense of the statement',
    'the rate budget is the token bucket of the code comment: full (2*count) at every '
    '(re)configuration, +2*count per hour up to 2*count, debited only by accepted POSTs, not '
    'refilled while the monitor is suspended (the time is credited when the suspension ends)',
    'clock values are whole seconds; float tokens are compared with the exact rational with a '
    'tolerance of 2e-6 token (1e-6 + rounding of the logged micro-tokens); within tolerance of an '
    'integer both floors are accepted',
    'policies are fifo, lifo or absent (the monitor node carries no policy field: the default, '
    'fifo, applies), as the monitor schema allows; instance order is the sequence number in the '
    'instance name',
    'the fake cell API answers as the history says; its scheduled-instance quota '
    '(api/instance.py) is a constant bound far above the generated counts',
    'alerts and the /app-monitors suspension summary node are not judged',
]

ALL_OUT = ['ok', 'notfound', 'badrequest', 'validation', 'error']


def tla(v):
    if isinstance(v, bool):
        return 'TRUE' if v else 'FALSE'
    if isinstance(v, int):
        return str(v)
    if isinstance(v, str):
        return json.dumps(v)
    if isinstance(v, (list, tuple)):
        return '<<' + ', '.join(tla(x) for x in v) + '>>'
    if isinstance(v, (set, frozenset)):
        return '{' + ', '.join(tla(x) for x in sorted(v)) + '}'
    raise TypeError(v)


INVS = ['InvNoOvershoot', 'InvBudget', 'InvSurplus', 'InvNotBoth', 'InvQuiet', 'InvQuietObs', 'InvRate',
        # extension beyond C20: the bookkeeping published in /app-monitors
        'InvExtPubSusp', 'InvExtWaitedPublished']


def mc_files(tag, apps, counts, ticks, max_steps, outcomes=ALL_OUT, policies=('', 'fifo', 'lifo'),
             max_inst=4, invariants=INVS, defects=()):
    mod = 'MC_appmon_%s' % tag
    text = '---- MODULE %s ----\nEXTENDS AppMon\ncAppSeq == %s\n====\n' % (mod, tla(list(apps)))
    cfg = ['SPECIFICATION Spec', 'CHECK_DEADLOCK FALSE', 'CONSTANTS', ' AppSeq <- cAppSeq',
           ' Counts = %s' % tla(set(counts)), ' Policies = %s' % tla(set(policies)),
           ' Ticks = %s' % tla(set(ticks)), ' MaxSteps = %d' % max_steps,
           ' MaxInst = %d' % max_inst, ' EvalOutcomes = %s' % tla(set(outcomes)),
           ' Defects = %s' % tla(set(defects))]
    cfg += ['INVARIANT %s' % inv for inv in invariants]
    return mod, mod + '.cfg', {mod + '.tla': text, mod + '.cfg': '\n'.join(cfg) + '\n'}


def _model_check(ctx):
    ticks = [0, 600, 1800, 3600]
    if ctx.quick:
        jobs = [('two', ['a', 'b'], [0, 1, 2, 3], ticks, 5, ALL_OUT),
                ('one', ['a'], [0, 1, 2, 3], ticks, 6, ALL_OUT)]
    else:
        jobs = [('two', ['a', 'b'], [0, 1, 2, 3], ticks, 6, ALL_OUT),
                ('one', ['a'], [0, 1, 2, 3], ticks + [300, 900], 8, ALL_OUT)]
    need = ['Configure', 'DeleteMonitor', 'Tick', 'InstanceDies', 'ExternalCreate',
            'InstancesCreated', 'InstancesDeleted', 'Evaluate']

    def one(job):
        tag, apps, counts, tks, steps, outs = job
        # policy domain: absent ("" - the node has no policy field, the default applies),
        # fifo, lifo for one application; for two applications absent and lifo (an explicit
        # fifo behaves like the default in every action; keeps the run time where it was)
        pols = ('', 'fifo', 'lifo') if len(apps) == 1 else ('', 'lifo')
        mod, cfg, files = mc_files(tag, apps, counts, tks, steps, outs, policies=pols)
        for attempt in (1, 2):
            try:
                # -coverage 1 quadruples the run time of the two-application model (16 s ->
                # 60 s for 216 k states); action coverage (vacuity) is taken from the
                # one-application run, which has the same actions
                return tlc.mc(SPEC_DIR, mod, cfg, extra_files=files, workers=8,
                              coverage=(len(apps) == 1),
                              timeout=600 if ctx.quick else 1500, heap='4g')
            except tlc.MachineryError as e:
                if attempt == 2 or 'rc=143' not in str(e):
                    raise

    with concurrent.futures.ThreadPoolExecutor(len(jobs)) as ex:
        results = list(ex.map(one, jobs))
    for job, res in zip(jobs, results):
        ctx.add_mc('AppMon/%s apps=%d steps<=%d' % (job[0], len(job[1]), job[4]), res,
                   need_actions=need)
        if res['violated']:
            raise tlc.MachineryError('AppMon.tla (%s) violates %s; labels: %s'
                                     % (job[0], res['violated'], res['cex'][:30]))
        if res['timed_out']:
            raise tlc.MachineryError('model checking AppMon/%s timed out' % job[0])


# ---------------------------------------------------------------------------
def labels_to_history(labels):
    out = []
    for label, args in labels:
        if label == 'Configure':
            out.append(['Configure', REAL[args[0]], int(args[1]), args[2]])
        elif label == 'DeleteMonitor':
            out.append(['DeleteMonitor', REAL[args[0]]])
        elif label == 'Tick':
            out.append(['Tick', int(args[0])])
        elif label == 'InstanceDies':
            out.append(['InstanceDies', REAL[args[0]], int(args[1])])
        elif label in ('ExternalCreate', 'InstancesCreated', 'InstancesDeleted'):
            out.append([label, REAL[args[0]]])
        elif label == 'Evaluate':
            out.append(['Evaluate', {REAL[k]: v for k, v in dict(args[0]).items()}])
        else:
            raise tlc.MachineryError('unknown label %s' % label)
    return out


def _generate_tlc(ctx):
    n = 150 if ctx.quick else 3000
    depth = 14
    mod, cfg, files = mc_files('gen', ['a', 'b'], [0, 1, 2, 3], [0, 600, 1800, 3600], depth + 2,
                               invariants=())
    behaviours, cmd = tlc.simulate(SPEC_DIR, mod, cfg, num=n, depth=depth, seed=ctx.seed * 131 + 20,
                                   procs=6 if ctx.quick else 12, extra_files=files,
                                   timeout=120 if ctx.quick else 900)
    ctx.cmds.append(cmd)
    # TLC's ticks (0 / 600 / 1800 / 3600 s) end every 300 s back-off at once; a third of the
    # behaviours continue with the suspend / delete-while-suspended / fail-again scenario
    rng = random.Random(ctx.seed * 613 + 20)
    out = []
    for b in behaviours:
        h = labels_to_history(b)
        if rng.random() < 0.34:
            h += backoff_scenario(rng, sorted(REAL.values()))
        out.append(('tlc', h))
    return out


def backoff_scenario(rng, apps):
    """suspend (handled API failure) -> that monitor is DELETED while suspended -> later
    handled failures of the same name (after a new Configure) and of other names ->
    evaluations inside the 300 s back-off (no call allowed) and after it."""
    fail = lambda: rng.choice(drv.OUTCOMES[1:4])           # notfound / badrequest / validation
    first = rng.choice(apps)
    steps = [['Configure', first, rng.choice([1, 2, 3]), rng.choice(['', 'fifo', 'lifo'])],
             ['Evaluate', {first: fail()}]]
    if rng.random() < 0.5:
        steps.append(['Tick', rng.choice([0, 1, 60, 299])])
    steps.append(['DeleteMonitor', first])
    if rng.random() < 0.7:
        steps.append(['Evaluate', {}])                     # the evaluation that drops the entry
    victims = [first] if rng.random() < 0.5 else []
    victims += [a for a in apps if a != first and rng.random() < 0.7]
    if not victims:
        victims = [first]
    for a in victims:
        steps.append(['Configure', a, rng.choice([1, 2, 4]), rng.choice(['', 'fifo', 'lifo'])])
    steps.append(['Evaluate', {a: fail() for a in victims}])
    for dt in rng.sample([0, 1, 7, 60, 150, 299], rng.randint(1, 3)) + [rng.choice([300, 301, 600])]:
        steps += [['Tick', dt], ['Evaluate', {a: fail() for a in victims if rng.random() < 0.3}]]
    return steps


def rand_history(rng, depth):
    """Beyond the model-checked constants: 1-3 applications, counts up to 6, time
    steps that make token values non-integers and (often) land within 1e-6 of an
    integer boundary."""
    apps = ['proid.app%d' % i for i in range(rng.choice([1, 2, 2, 3]))]
    pol = lambda: rng.choice(['', 'fifo', 'lifo'])       # '' = the node carries no policy field
    hist = []
    for a in apps:
        if rng.random() < 0.9:
            hist.append(['Configure', a, rng.choice([0, 1, 2, 3, 4, 6]), pol()])
    if len(apps) > 1 and rng.random() < 0.6:
        # instances started alternately: the cell-wide sequence numbers of the applications
        # interleave (app0#0, app1#1, app0#2, app1#3 ...), so grouping /scheduled by
        # application has to cope with non-contiguous runs
        for _ in range(rng.randint(2, 4)):
            for a in apps:
                hist.append(['ExternalCreate', a])
    for _ in range(depth):
        r = rng.random()
        a = rng.choice(apps)
        if r < 0.34:
            outs = {}
            for x in apps:
                if rng.random() < 0.3:
                    outs[x] = rng.choice(drv.OUTCOMES[1:])
            hist.append(['Evaluate', outs])
        elif r < 0.52:
            hist.append(['Tick', rng.choice([0, 1, 7, 60, 299, 300, 301, 450, 600, 900, 1200, 1799,
                                             1800, 1801, 3599, 3600, 5000])])
        elif r < 0.62:
            hist.append(['InstancesCreated', a])
        elif r < 0.68:
            hist.append(['InstancesDeleted', a])
        elif r < 0.78:
            hist.append(['InstanceDies', a, rng.randint(1, 4)])
        elif r < 0.86:
            hist.append(['ExternalCreate', a])
        elif r < 0.96:
            hist.append(['Configure', a, rng.choice([0, 1, 2, 3, 4, 6]), pol()])
        else:
            hist.append(['DeleteMonitor', a])
    if rng.random() < 0.35:
        at = rng.randint(0, len(hist))
        hist[at:at] = backoff_scenario(rng, apps)
    hist.append(['Evaluate', {}])
    return hist


def record(histories):
    traces = []
    for n, (src, h) in enumerate(histories):
        lines = drv.replay(h)
        traces.append(dict(tid='%s:%d' % (src, n), lines=lines, history=h, src=src))
    return traces


def validate(traces, timeout=1200):
    work = tlc.scratch('verif-c20-batch-')
    try:
        path = os.path.join(work, 'batch.json')
        with open(path, 'w') as f:
            json.dump(dict(traces=[dict(tid=t['tid'], lines=t['lines']) for t in traces]), f)
        return tlc.validate(SPEC_DIR, 'AppMonTrace', 'AppMonTrace.cfg', path, timeout=timeout)
    finally:
        shutil.rmtree(work, ignore_errors=True)


def judge(ctx, traces, verdicts):
    total = sum(len(t['lines']) - 1 for t in traces)
    if len(verdicts) != total:
        raise tlc.MachineryError('trace spec judged %d of %d lines' % (len(verdicts), total))
    by_tid = {t['tid']: t for t in traces}
    violations, nontrivial = [], set()
    flags = collections.Counter()
    drift_samples = []
    ext_fail = collections.Counter()
    ext_samples = []
    evaluations = 0
    for v in verdicts:
        t = by_tid[v['tid']]
        fails = set(v['fail'])
        for f in fails:
            if f.startswith('ext.'):
                ext_fail[f] += 1
                if len(ext_samples) < 2:
                    ext_samples.append(dict(tid=t['tid'], step=v['i'], clause=f,
                                            history=t['history'][:v['i']]))
        if 'exc' in fails:
            ctx.skipped += 1
            ctx.notes.append('code raised in %s step %d: %s' % (t['tid'], v['i'],
                                                               t['lines'][v['i']].get('exc')))
            continue
        evaluations += 1
        if any(f.startswith('drift.') for f in fails):
            ctx.drift += 1
            if len(drift_samples) < 3:
                drift_samples.append(dict(tid=t['tid'], step=v['i'], history=t['history'][:v['i']]))
        for x in v['ex']:
            flags[x] += 1
        if 'C20' in v['ex']:
            nontrivial.add(core.hist_hash(t['history']))
        for f in sorted(fails):
            if f.startswith('C20.'):
                violations.append(dict(
                    clause=f, signature=f,
                    what='after %s at step %d of %s' % (json.dumps(t['history'][v['i'] - 1]),
                                                        v['i'], t['tid']),
                    replay_payload=dict(kind='appmon', property='C20', clause=f,
                                        history=t['history'][:v['i']], failed_step=v['i'])))
    samples = []
    for t in traces:
        if core.hist_hash(t['history']) in nontrivial and t['src'] not in [s['source'] for s in samples]:
            samples.append(dict(trace=t['tid'], source=t['src'],
                                history=[json.dumps(s) for s in t['history']]))
        if len(samples) >= 3:
            break
    if ctx.drift:
        print('DRIFT: %d recorded steps are not what AppMonOps computes (spec needs updating; '
              'not a violation), e.g. %s' % (ctx.drift, json.dumps(drift_samples[:1])))
    if ext_fail:
        print('DRIFT: extension beyond C20 (published bookkeeping, /app-monitors): %s lines do not '
              'conform to AppMon.tla (not a violation), e.g. %s'
              % (dict(ext_fail), json.dumps(ext_samples[:1])))
    extensions = dict(appmon_bookkeeping=dict(
        what='the map reevaluate() returns and stores in the /app-monitors node, and the '
             'suspend_until masterapi.get_appmonitor shows; AppMon.tla invariants InvExtPubSusp, '
             'InvExtWaitedPublished (in the model runs above); conformance class',
        clauses=['ext.appmon.waited', 'ext.appmon.published', 'ext.appmon.suspensions',
                 'ext.appmon.covered', 'ext.appmon.reader'],
        lines_judged=evaluations, nonconforming=dict(ext_fail),
        node_rewritten=flags.get('ext.rewritten', 0), rate_limited=flags.get('ext.waiting', 0),
        stale_entry_observed=flags.get('ext.stale', 0)))
    return core.conclude(
        ctx, level='model_checking', violations=violations, evaluations=evaluations,
        distinct_nontrivial=len(nontrivial), rule=RULE, samples=samples,
        traces_validated=len(traces), assumptions=ASSUMPTIONS,
        extra=dict(trace_sources=dict(collections.Counter(t['src'] for t in traces)),
                   exercised=dict(flags), notes=ctx.notes[:10], extensions=extensions))


def run(ctx):
    _model_check(ctx)
    hist = _generate_tlc(ctx)
    ctx.log('%d histories from TLC behaviours' % len(hist))
    rng = random.Random(ctx.seed * 7919 + 20)
    for _ in range(400 if ctx.quick else 12000):
        hist.append(('rnd', rand_history(rng, rng.choice([8, 12, 18, 26]))))
    traces = record(hist)
    ctx.log('recorded %d traces, %d lines' % (len(traces), sum(len(t['lines']) for t in traces)))
    verdicts, stats = validate(traces, timeout=600 if ctx.quick else 3000)
    ctx.cmds.append(stats['cmd'])
    return judge(ctx, traces, verdicts)


def replay(ctx, path):
    payload = json.load(open(path))
    traces = record([('replay', payload['history'])])
    verdicts, _ = validate(traces)
    return judge(ctx, traces, verdicts)


def selftest(ctx):
    """Trace corruption (DESIGN 4.4): one logged field of a good trace is changed;
    TLC must name the clause."""
    a = 'proid.a'
    h = [['Configure', a, 3, 'lifo'], ['Evaluate', {}], ['InstancesCreated', a], ['Tick', 600],
         ['Configure', a, 1, 'lifo'], ['Evaluate', {}], ['InstancesDeleted', a],
         ['InstanceDies', a, 1], ['Evaluate', {a: 'notfound'}], ['Tick', 10], ['Evaluate', {}]]
    good = record([('selftest', h)])[0]

    def variant(name, fn):
        t = json.loads(json.dumps(good))
        t['tid'] = name
        fn(t['lines'])
        return t

    def more(lines):             # asks for 4 where 3 are missing
        lines[2]['calls'][0]['n'] = 4

    def over_budget(lines):      # see h2 below
        pass

    def negative(lines):
        lines[2]['post']['mon'][a]['avail'] = -1000000

    def wrong_end(lines):        # lifo must delete the two newest; log the two oldest
        c = lines[6]['calls'][0]
        view = lines[5]['post']['view'][a]
        c['insts'] = view[:2]

    def both(lines):
        lines[6]['calls'].append(dict(app=a, op='create', n=1, o='ok', insts=[]))

    def noisy(lines):            # a call although the monitor is suspended
        lines[11]['calls'].append(dict(app=a, op='create', n=1, o='ok', insts=[]))

    def unpublished(lines):      # the suspension of step 9 is missing from the node
        lines[9]['post']['pub'] = {}
        lines[9]['post']['reader'][a] = -1

    def reader_blind(lines):     # get_appmonitor does not show the published until-time
        lines[9]['post']['reader'][a] = -1

    variants = [('more', more, 'C20.noOvershoot'),
                ('unpublished', unpublished, 'ext.appmon.suspensions'),
                ('reader_blind', reader_blind, 'ext.appmon.reader'),
                ('negative', negative, 'C20.budget'), ('wrong_end', wrong_end, 'C20.surplus'),
                ('both', both, 'C20.notBoth'), ('noisy', noisy, 'C20.quiet')]
    traces = [good] + [variant(n, fn) for n, fn, _ in variants]
    # rate limited: 6 tokens spent, two instances missing, 600 s later one token accrued;
    # the log is changed to "asked for 2" (<= missing, but > floor(available))
    h2 = [['Configure', a, 3, 'fifo'], ['Evaluate', {}], ['InstancesCreated', a],
          ['InstanceDies', a, 1], ['InstanceDies', a, 1], ['InstanceDies', a, 1],
          ['Evaluate', {}], ['InstancesCreated', a], ['InstanceDies', a, 1], ['InstanceDies', a, 1],
          ['Tick', 600], ['Evaluate', {}]]
    t2 = record([('selftest2', h2)])[0]
    t3 = json.loads(json.dumps(t2))
    t3['tid'] = 'over_budget'
    assert t3['lines'][12]['calls'][0]['n'] == 1, t3['lines'][12]
    t3['lines'][12]['calls'][0]['n'] = 2
    traces += [t2, t3]
    variants.append(('over_budget', None, 'C20.budget'))
    verdicts, _ = validate(traces)
    failed = collections.defaultdict(set)
    for v in verdicts:
        failed[v['tid']] |= set(v['fail'])
    ok = not failed[good['tid']] and not failed['selftest2:0']
    print('selftest: unmodified trace: %s' % sorted(failed[good['tid']]))
    for n, _fn, clause in variants:
        print('selftest: %-12s -> %s (expects %s)' % (n, sorted(failed[n]), clause))
        ok = ok and clause in failed[n]
    print('selftest %s' % ('PASSED' if ok else 'FAILED'))
    return 0 if ok else 2
