"""C15: state kept in names and directory entries round-trips losslessly.
DESIGN.md section 6 (C15), appendix F.  Level claimed: EXPLORATION over a
model-generated domain (DESIGN says so: codecs are the weakest fit for TLA+).

 1. TLC checks specs/cell/Codec.tla: the character-level name formats (rule
    file names, unique names, unique ids, event node names) decode to what was
    encoded and are injective on the enumerated domain; the LDAP entry model's
    normal form is idempotent and injective.
 2. TLC checks the same spec with the known defect switched on (must fail).
 3. TLC (CodecExport.tla) dumps the boundary-rich finite domains as JSON.
 4. harness/codec_driver.py applies the REAL encoders and decoders to every
    value (+ seeded random values beyond the enumerated constants).
 5. TLC (CodecTrace.tla) judges every recorded (value, encoding, decoded).
"""
import collections
import json
import os
import random
import shutil

from .. import core, tlc

PROP = 'C15'
SPEC_DIR = os.path.join(core.SPECS, 'cell')
FORMATS = ['rule', 'uniq', 'uid', 'event', 'evdict', 'dn', 'zk', 'ldap', 'ldapupd']
RULE = ('an item counts when the real encoder produced an encoding AND the real decoder '
        'returned a value for it, so that the round-trip comparison was made on real outputs; '
        'distinct = distinct (format, abstract value) pairs')

ASSUMPTIONS = [
    'exploration, not proof: the guarantee is over the finite domains Codec.tla enumerates '
    '(sizes in extra.domain) plus seeded random values; atoms contain the separators the '
    'statement lists for names (dots, dashes, underscores; ":" inside event reasons) but no '
    'commas, which the event node format cannot carry',
    'rule file names are read back through RuleMgr.get_rules() from a real symlink in a scratch '
    'directory; wildcard addresses are given as None / default (firewall.ANY_IP), port 0 is "any"',
    'unique ids: gen_uniqueid is run on a patched os.stat that yields the chosen 77-bit seed; '
    '_fmt_unique_name is also fed ids beyond 2^77 (all-max digits)',
    'event node names are produced by trace.post_zk -> publish on harness/zkfake with '
    'time.time and _HOSTNAME pinned to the event\'s own timestamp and source, and read by the '
    'real TraceLoop._process_events; payloads are not part of a node name',
    'Scheduled.why may be None (master publishes restored placements that way); every other '
    'event field is a string / integer / boolean',
    'ZooKeeper payloads are dictionaries and lists (nesting <= 2 enumerated, <= 3 random) of '
    'str/int/float/bool/None; top-level strings are outside the statement',
    'identifiers: CellAllocation (1-3 tenant levels, names with - . digits, palindromic and '
    'non-palindromic orders), Partition and Application ids go id -> real create() (DN + entity '
    'attribute on the real Admin.dn, the add is captured) -> from_entry(entry, dn) -> id; names '
    'contain no "," "=" "/" ":" (the DN and id syntax have no escaping)',
    'LDAP lists: every list-typed attribute (args, tickets, keytabs, features, passthrough, '
    'traits, vring cells, vring rule endpoints, partition systems, reservation traits) is also '
    'exercised with repeated elements and in unsorted order (no schema has uniqueItems; the codec '
    'copies lists element by element); C15.lossless demands the same multiset back, order may be '
    'canonicalised.  A real LDAP server keeps attribute values as a set; that is outside the '
    'pure to_entry/from_entry functions the property observes',
    'LDAP update: pairs (v1, v2) of one schema; v1 stored as LdapObject.create does, v2 written '
    'through the real Admin.update / _diff_entries onto an exact in-memory entry (MODIFY_ADD / '
    '_REPLACE / _DELETE applied as LDAP defines them; exact, case-sensitive value comparison); '
    'judged on DECODED objects against the set-wise specification of update (families the new '
    'entry mentions take the new values, the rest stays), which is the normal form of v2 when v2 '
    'says something about everything v1 has.  Narrowed: order-only / multiplicity-only changes of '
    'one attribute (same value set, same size) are accepted with the old list, as '
    '_diff_attribute_values calls them equal; pairs whose prescribed entry cannot be decoded are '
    'counted, not judged',
    'LDAP: entry = _remove_empty(to_entry(x)) as LdapObject.create stores it; round trip is '
    'stated on the normal form N = from_entry o to_entry (N(N(x)) = N(x), entry of N(x) '
    'injective per schema); from_entry is called without a DN',
]


# ---------------------------------------------------------------------------
# seeded random values beyond the enumerated constants
_NUM = '0123456789abcdefghijklmnopqrstuvwxyzABCDEFGHIJKLMNOPQRSTUVWXYZ'


def _word(rng, alphabet, lo, hi):
    return ''.join(rng.choice(alphabet) for _ in range(rng.randint(lo, hi)))


def _ip(rng):
    return '.'.join(str(rng.choice([0, 1, 9, 10, 99, 100, 199, 255])) for _ in range(4))


def _port(rng):
    return rng.choice([0, 1, 2, 9, 10, 80, 1023, 1024, 9999, 10000, 32768, 65534, 65535])


def rnd_rule(rng):
    chain = _word(rng, 'ABCTM_abc019', 2, 32)
    if rng.random() < 0.15:
        return dict(kind='passthrough', chain=chain, proto='', sip=_ip(rng), sport=0, dip=_ip(rng),
                    dport=0, nip='', nport=0)
    return dict(kind=rng.choice(['dnat', 'snat']), chain=chain, proto=rng.choice(['tcp', 'udp']),
                sip=rng.choice(['*', _ip(rng)]), sport=_port(rng),
                dip=rng.choice(['*', _ip(rng)]), dport=_port(rng), nip=_ip(rng), nport=_port(rng))


def _digits(rng, below77):
    if below77:
        seed = rng.getrandbits(rng.choice([1, 6, 31, 64, 65, 76, 77]))
        d = []
        for _ in range(13):
            d.append(seed % 62)
            seed //= 62
        return list(reversed(d))
    return [rng.choice([0, 1, 9, 10, 35, 36, 60, 61]) for _ in range(13)]


def rnd_uniq(rng):
    app = _word(rng, 'abcxyz019', 2, 6) + '.' + _word(rng, 'abz09._-', 1, 12).strip('.') + 'a'
    return dict(app=app, inst='%010d' % rng.choice([0, 1, 42, 2 ** 31, 9999999999]),
                uid=_digits(rng, rng.random() < 0.5))


def rnd_uid(rng):
    return dict(inst='%010d' % rng.choice([0, 1, 77, 2 ** 33 - 1, 9999999999]), uid=_digits(rng, True))


def rnd_event(rng):
    name = 'abcxyz019._-'
    reason = 'abcxyz019._-:@ '
    ts = repr(rng.choice([0.0, 0.5, 1.25, 1e-05, 123456789.125, 1600000000.0 + rng.randint(0, 10 ** 6) / 8.0]))
    src = _word(rng, 'abc019.-', 1, 12)
    if rng.random() < 0.15:
        obj = _word(rng, 'abc019.-', 1, 16)
        t = rng.choice(['server_state', 'server_blackout', 'server_blackout_cleared'])
        args = [rng.choice(['up', 'down', 'frozen'])] if t == 'server_state' else []
        return dict(cls='server', type=t, obj=obj, ts=ts, src=src, args=args)
    obj = '%s.%s#%010d' % (_word(rng, 'abc019', 2, 5), _word(rng, name, 1, 10), rng.randint(0, 10 ** 10 - 1))
    uid = ''.join(rng.choice(_NUM) for _ in range(13))
    svc = _word(rng, 'abc019._-', 1, 10)
    t = rng.choice(['scheduled', 'pending', 'pending_delete', 'aborted', 'configured', 'deleted',
                    'finished', 'killed', 'service_running', 'service_exited'])
    args = {
        'scheduled': lambda: [_word(rng, 'abc019.-', 1, 12),
                              rng.choice([[], [_word(rng, reason, 0, 12)]])],
        'pending': lambda: [_word(rng, reason, 0, 12)],
        'pending_delete': lambda: [_word(rng, reason, 0, 12)],
        'aborted': lambda: [_word(rng, name, 0, 12)],
        'configured': lambda: [uid],
        'deleted': lambda: [],
        'finished': lambda: [rng.choice([0, 1, 2, 127, 255]), rng.choice([0, 1, 9, 15, 64])],
        'killed': lambda: [rng.random() < 0.5],
        'service_running': lambda: [uid, svc],
        'service_exited': lambda: [uid, svc, rng.choice([0, 1, 255]), rng.choice([0, 9, 15])],
    }[t]()
    return dict(cls='app', type=t, obj=obj, ts=ts, src=src, args=args)


def rnd_tree(rng, depth):
    x = rng.random()
    if depth == 0 or x < 0.45:
        return rng.choice([
            ['s', _word(rng, 'ab z019.-_#:,~*"\\{}[]', 0, 8)], ['i', rng.choice([0, 1, -1, 255, 2 ** 31 - 1, -2 ** 31 + 1])],
            ['b', rng.random() < 0.5], ['n', 0], ['f', repr(rng.choice([0.5, -1.25, 1e-05, 123456.75]))]])
    if x < 0.7:
        return ['l', [rnd_tree(rng, depth - 1) for _ in range(rng.randint(0, 3))]]
    keys = sorted({_word(rng, 'ab z019.-_', 1, 4) for _ in range(rng.randint(0, 3))})
    return ['d', [[k, rnd_tree(rng, depth - 1)] for k in keys]]


def rnd_zk(rng):
    t = rnd_tree(rng, 3)
    while t[0] not in ('l', 'd'):
        t = rnd_tree(rng, 3)
    return t


def rnd_dn(rng):
    def name():
        return _word(rng, 'ab09', 1, 1) + _word(rng, 'ab09.-', 0, 4)
    x = rng.random()
    if x < 0.75:
        return dict(kind='cellalloc', a=[name() for _ in range(rng.choice([1, 2, 2, 3, 3]))],
                    b=name(), c=name())
    if x < 0.9:
        return dict(kind='partition', a=[], b=rng.choice(['_default', name()]), c=name())
    return dict(kind='app', a=[], b='%s.%s' % (name(), name()), c='')


def _shake(rng, t):
    """Re-draw every non-empty list of atoms in a tagged tree WITH replacement
    from its own elements and a sibling of each (repeated elements, arbitrary
    order, length 1..5); lists of objects keep their elements (keys stay
    unique) but are shuffled."""
    tag, x = t
    if tag == 'd':
        return ['d', [[k, _shake(rng, v)] for k, v in x]]
    if tag != 'l' or not x:
        return t
    if all(e[0] in ('s', 'i') for e in x):
        if rng.random() < 0.4:
            return t
        pool = list(x) + [['s', e[1] + '2'] if e[0] == 's' else ['i', e[1] + 1] for e in x]
        return ['l', [rng.choice(pool) for _ in range(rng.randint(1, 5))]]
    items = [_shake(rng, e) for e in x]
    rng.shuffle(items)
    return ['l', items]


def rnd_ldap(rng, specs):
    schema = rng.choice(['partition', 'cellalloc', 'app', 'server', 'cell'])
    pairs = []
    for f in specs[schema]:
        if rng.random() < 0.55:
            pairs.append([f['k'], _shake(rng, rng.choice(f['vs']))])
    return dict(schema=schema, obj=['d', pairs])


def _caseflip(rng, t):
    """Swap the letter case of ONE string atom of a tagged tree (the first one a
    random walk finds); the tree is returned unchanged if there is none."""
    tag, x = t
    if tag == 's' and x.swapcase() != x:
        return ['s', x.swapcase()]
    if tag == 'l' and x:
        i = rng.randrange(len(x))
        return ['l', x[:i] + [_caseflip(rng, x[i])] + x[i + 1:]]
    if tag == 'd' and x:
        i = rng.randrange(len(x))
        return ['d', x[:i] + [[x[i][0], _caseflip(rng, x[i][1])]] + x[i + 1:]]
    return t


def rnd_ldapupd(rng, specs, extra):
    """(v1, v2) of one schema: a random subset of keys at their first variant on
    both sides; one key changes between two of its variants (specification
    variants, the update variants, shaken lists) or only in letter case; now
    and then a key exists on one side only."""
    schema = rng.choice(['partition', 'cellalloc', 'app', 'server', 'cell'])
    spec = specs[schema]
    f = rng.choice(spec)
    vs = list(f['vs']) + list(extra[schema].get(f['k'], []))
    a = rng.choice(vs)
    x = rng.random()
    if x < 0.35:
        b = _caseflip(rng, a)
    elif x < 0.55:
        b = _shake(rng, a)
    else:
        b = rng.choice(vs)
    p1, p2 = [], []
    for g in spec:
        if g['k'] == f['k']:
            y = rng.random()
            if y > 0.06:
                p1.append([g['k'], a])
            if y < 0.94:
                p2.append([g['k'], b])
        elif rng.random() < 0.6:
            p1.append([g['k'], g['vs'][0]])
            p2.append([g['k'], g['vs'][0]])
    return dict(schema=schema, v1=['d', p1], v2=['d', p2])


def random_values(rng, n, specs, extra):
    return dict(ldapupd=[rnd_ldapupd(rng, specs, extra) for _ in range(n)],
                dn=[rnd_dn(rng) for _ in range(n)], **_random_values(rng, n, specs))


def _random_values(rng, n, specs):
    return dict(rule=[rnd_rule(rng) for _ in range(n)], uniq=[rnd_uniq(rng) for _ in range(n)],
                uid=[rnd_uid(rng) for _ in range(n // 2)], event=[rnd_event(rng) for _ in range(n)],
                zk=[rnd_zk(rng) for _ in range(n)], ldap=[rnd_ldap(rng, specs) for _ in range(n)])


def _dedup(values):
    seen, out = set(), []
    for v in values:
        key = json.dumps(v, sort_keys=True)
        if key not in seen:
            seen.add(key)
            out.append(v)
    return out


# ---------------------------------------------------------------------------
def _model_side(ctx):
    """Steps 1-3.  Returns the exported domain."""
    res = tlc.mc(SPEC_DIR, 'Codec', 'Codec.cfg', workers=8, coverage=False, heap='3g', timeout=300)
    ctx.add_mc('formats (Codec.cfg: round trip, injectivity, id length on the enumerated domain)', res)
    if res['violated'] or not res['ok']:
        raise tlc.MachineryError('Codec.tla does not satisfy its own invariants (%s): the format '
                                 'model is wrong\n%s' % (res['violated'], res['out'][-1500:]))
    bad = tlc.mc(SPEC_DIR, 'Codec', 'CodecDefects.cfg', workers=2, coverage=False, heap='2g', timeout=300)
    ctx.add_mc('formats with Defects={scheduled_why_none}', bad)
    if bad['violated'] != 'InvRoundTrip':
        raise tlc.MachineryError('the format model with the known defect no longer violates InvRoundTrip')
    ctx.log('format model with Defects={scheduled_why_none} violates InvRoundTrip (as the code is '
            'expected to on Scheduled(why=None)); the domain below contains that value')
    work = tlc.scratch('verif-c15-')
    try:
        path = os.path.join(work, 'domain.json')
        exp = tlc.mc(SPEC_DIR, 'CodecExport', 'CodecExport.cfg', workers=2, coverage=False, heap='2g',
                     timeout=300, env={'C15_DOMAIN': path})
        ctx.cmds.append(exp['cmd'] + ' (C15_DOMAIN=<file>)')
        if not exp['ok'] or not os.path.exists(path):
            raise tlc.MachineryError('domain export failed\n%s' % exp['out'][-1500:])
        return json.load(open(path))
    finally:
        shutil.rmtree(work, ignore_errors=True)


def _validate(records, timeout):
    work = tlc.scratch('verif-batch-')
    try:
        path = os.path.join(work, 'batch.json')
        with open(path, 'w') as f:
            json.dump(dict(formats=records), f)
        return tlc.validate(SPEC_DIR, 'CodecTrace', 'CodecTrace.cfg', path, timeout=timeout)
    finally:
        shutil.rmtree(work, ignore_errors=True)


def _sub(fmt, v):
    if fmt in ('event', 'evdict'):
        return v['type']
    if fmt in ('ldap', 'ldapupd'):
        return v['schema']
    if fmt in ('rule', 'dn'):
        return v['kind']
    return ''


def run(ctx):
    from .. import codec_driver
    domain = _model_side(ctx)
    specs = domain.pop('specs')
    updextra = domain.pop('updextra')
    sizes = {k: len(v) for k, v in domain.items()}
    rng = random.Random(ctx.seed * 7919 + 15)
    extra = random_values(rng, 120 if ctx.quick else 6000, specs, updextra)
    values = {k: _dedup(list(domain[k]) + extra[k]) for k in domain}
    src = {k: len(domain[k]) for k in domain}
    ctx.log('domain: %s enumerated by TLC, %s with random values' % (
        sizes, {k: len(v) for k, v in values.items()}))
    records = codec_driver.record(values, FORMATS)
    ctx.log('recorded %d triples' % sum(len(r['items']) for r in records))
    for r in records:       # vacuity control: every format really was exercised
        want = sizes['event' if r['fmt'] == 'evdict' else r['fmt']]
        if len(r['items']) < want or want == 0:
            raise tlc.MachineryError('vacuity: format %s judged on %d of %d enumerated values'
                                     % (r['fmt'], len(r['items']), want))
    return _judge(ctx, records, src, sizes, full_run=True)


def _judge(ctx, records, n_enumerated, sizes, full_run=False):
    verdicts, stats = _validate(records, timeout=300 if ctx.quick else 1500)
    ctx.cmds.append(stats['cmd'])
    total = sum(len(r['items']) for r in records)
    if len(verdicts) != total:
        raise tlc.MachineryError('trace spec judged %d of %d items' % (len(verdicts), total))
    by_fmt = {r['fmt']: r['items'] for r in records}
    violations, samples = [], []
    nontrivial = set()
    per_fmt = collections.Counter()
    drift_fmt = collections.Counter()
    upd = collections.Counter()
    for v in verdicts:
        fmt = v['tid']
        it = by_fmt[fmt][v['i'] - 1]
        per_fmt[fmt] += 1
        if PROP in v['ex']:
            nontrivial.add(core.hist_hash([fmt, it['v']]))
        for f in v['ex']:
            if f.startswith('update.'):
                upd[f[7:]] += 1
        fails = set(v['fail'])
        if any(f.startswith('drift.') for f in fails):
            ctx.drift += 1
            drift_fmt[fmt] += 1
        for f in sorted(fails):
            if not f.startswith(PROP + '.'):
                continue
            sub = _sub(fmt, it['v'])
            sig = '%s:%s%s' % (f, fmt, ':' + sub if sub else '')
            vals = [it['v']]
            if f == 'C15.injective':
                vals = [x['v'] for x in by_fmt[fmt][:v['i'] - 1] if x['enc'] == it['enc']][:1] + vals
            violations.append(dict(
                clause=f, signature=sig, size=len(json.dumps(it['v'])),
                what='%s value %s -> %r -> %s' % (
                    fmt, json.dumps(it['v'], sort_keys=True)[:300], it['enc'][:160],
                    ('decoded ' + json.dumps(it['d'], sort_keys=True)[:300]) if it['ok']
                    else 'decoder failed: ' + it['err'][:200]),
                replay_payload=dict(kind='codec', property=PROP, clause=f, fmt=fmt, values=vals)))
    if full_run:
        for flag in ('changed', 'full', 'seteq'):
            if not upd[flag]:
                raise tlc.MachineryError('vacuity: no update pair exercised %r' % flag)
    violations.sort(key=lambda x: (x['signature'], x['size']))
    for fmt in ('uniq', 'event', 'ldap'):
        for it in by_fmt.get(fmt, [])[3:4]:
            samples.append(dict(format=fmt, value=it['v'], encoding=it['enc'][:300],
                                decoded=it['d'], ok=it['ok']))
    if ctx.drift:
        print('DRIFT: %d recorded encodings are not what the format model in Codec.tla produces %s '
              '(spec needs updating; not a violation)' % (ctx.drift, dict(drift_fmt)))
    return core.conclude(
        ctx, level='exploration', violations=violations, evaluations=total,
        distinct_nontrivial=len(nontrivial), rule=RULE, samples=samples,
        traces_validated=len(records), assumptions=ASSUMPTIONS,
        extra=dict(domain=sizes, enumerated_by_tlc=n_enumerated, judged_per_format=dict(per_fmt),
                   update_pairs=dict(upd)))


def replay(ctx, path):
    from .. import codec_driver
    payload = json.load(open(path))
    fmt = payload['fmt']
    key = 'event' if fmt == 'evdict' else fmt
    records = codec_driver.record({key: payload['values']}, [fmt])
    return _judge(ctx, records, {}, {})


def _drop_dup_arg(items):
    # what a de-duplicating encoder would yield: N(x) and N(N(x)) agree, one '-v' is gone
    for key in ('n', 'd'):
        for pair in items[0][key]['obj'][1]:
            if pair[0] == 'args':
                pair[1] = ['l', pair[1][1][:1]]


def selftest(ctx):
    """DESIGN.md 4.4: (a) corrupt one recorded field -> TLC must name the
    clause; (b) code mutants -> the check must exit 1."""
    import copy
    from .. import codec_driver, selftest_util
    domain = _model_side(ctx)
    dup_args = [v for v in domain['ldap'] if v['schema'] == 'app'
                and any(k == 'args' and x[1] == [['s', '-v'], ['s', '-v']] for k, x in v['obj'][1])]
    if not dup_args:
        raise tlc.MachineryError('the enumerated LDAP domain has no application with args [-v, -v]')
    small = dict(uniq=[v for v in domain['uniq'] if '-' in v['app']][:6], rule=domain['rule'][:6],
                 zk=[v for v in domain['zk'] if v[0] == 'd' and v[1]][:6], ldap=dup_args[:1],
                 ldapupd=[u for u in domain['ldapupd'] if u['schema'] == 'cellalloc'
                          and json.dumps(u['v1']) != json.dumps(u['v2'])][:3])
    good = codec_driver.record(small, ['uniq', 'rule', 'zk', 'ldap', 'ldapupd'])
    recs = {r['fmt']: r for r in good}

    def variant(fmt, name, fn):
        r = copy.deepcopy(recs[fmt])
        r['fmt'] = fmt          # CodecTrace keys the model format on fmt
        fn(r['items'])
        return name, fmt, r
    cases = [
        variant('uniq', 'decoded app name altered', lambda it: it[2]['d'].update(app=it[2]['d']['app'] + 'x')),
        variant('rule', 'two rules share a file name', lambda it: it[4].update(enc=it[3]['enc'])),
        variant('uniq', 'unique name loses its last character', lambda it: it[1].update(enc=it[1]['enc'][:-1])),
        variant('zk', 'decoded payload value altered', lambda it: it[0]['d'][1][0].__setitem__(1, ['s', 'altered'])),
        variant('ldap', 'normal form loses the repeated argument', _drop_dup_arg),
        variant('ldapupd', 'read back after update is the OLD object',
                lambda it: it[1].update(d=it[1]['want'][:1] + [it[1]['want'][1][1:]])),
    ]
    expect = ['C15.roundtrip', 'C15.injective', 'C15.idLen', 'C15.roundtrip', 'C15.lossless',
              'C15.update']
    lines = [3, 5, 2, 1, 1, 2]
    problems = []
    verdicts, _ = _validate(good, 300)
    if any(f.startswith('C15.') for v in verdicts for f in v['fail']):
        problems.append('uncorrupted records have failures')
    for (name, fmt, r), want, line in zip(cases, expect, lines):
        verdicts, _ = _validate([r], 300)
        got = {f for v in verdicts if v['i'] == line for f in v['fail']}
        ctx.log('corruption %-38s item %d -> %s' % (name, line, sorted(got)))
        if want not in got:
            problems.append('corruption %r: expected %s, got %s' % (name, want, sorted(got)))
    problems += selftest_util.run_mutants(ctx, PROP)
    for p in problems:
        print('SELFTEST-FAILURE %s: %s' % (PROP, p))
    print('SELFTEST %s: %s' % (PROP, 'binding demonstrated' if not problems else 'NOT binding'))
    return 2 if problems else 0
