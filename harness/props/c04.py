"""C04: see DESIGN.md section 6 and harness/sched_check.py."""
from .. import sched_check


def run(ctx):
    return sched_check.run(ctx, 'C04')


def replay(ctx, path):
    return sched_check.replay(ctx, 'C04', path)


def selftest(ctx):
    return sched_check.selftest(ctx, 'C04')
