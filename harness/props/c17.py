"""C17 - presence registration never touches nodes owned by another session.

Pipeline (harness/HOWTO.md):
  1. TLC model-checks specs/node/Presence.tla (two hosts, successive containers of
     one instance (+ a second instance), every interleaving of ZooKeeper calls,
     request events, session expiry and restart orders): the model of the code as
     it is with the four clause invariants, the same model with NewerKept (its
     counterexample, if any, is replayed on the code), and the repaired model
     with all five.
  2. Schedules: the counterexample, TLC -simulate behaviours of the same spec, a
     transition cover of the dumped state graph of a tiny configuration, seeded
     random schedules chosen on line (also on scenarios beyond the model-checked
     constants).
  3. harness/presence_driver.py replays each schedule on two real
     PresenceResourceService objects under the turnstile.
  4. TLC judges the recorded ZooKeeper-call logs with specs/node/PresenceTrace.tla.
  5. core.conclude.
"""
import collections
import concurrent.futures
import json
import os
import random
import re
import shutil
import time

from .. import core, tlc
from .. import presence_driver as pd

SPEC_DIR = os.path.join(core.SPECS, 'node')
PROP = 'C17'
CLAUSE_INV = ['Ephemeral', 'NoForeign', 'Waits', 'OwnOnly', 'RegisteredOwned', 'NoError']
ACTIONS = ['Submit', 'Finish', 'Begin', 'Call', 'End', 'Expire', 'Crash', 'Reap', 'Restart']

RULE = ('a schedule counts when, in its recorded execution, a get of the presence service '
        'returned a node owned by another session (the service has to wait), or a node of its '
        'own session registered by another container of the instance (take-over), or a delete '
        'request ran while a sibling container of the same instance still had its request on '
        'some host; distinct = distinct executed schedules')

ASSUMPTIONS = [
    'exit on session loss: the presence service process exits when its session is lost '
    '(sproc/service.py adds zkutils.exit_on_lost); modelled as atomic with the expiry: the request '
    'in flight is abandoned at its next ZooKeeper call, the restarted service has a new session, '
    'an empty registration map and no watches',
    'a service handles one request at a time in the FIFO order of its request directory\'s inotify '
    'queue (the driver plays services/_linux_base_service.py\'s main loop with the real _on_created / '
    '_on_deleted / _check_requests / retry_request); the order in which glob lists the requests '
    'after a restart and the order in which simultaneous watch callbacks arrive are arbitrary '
    '(chosen by the schedule)',
    'a restarted service always has a NEW session (re-attaching to the old session through the '
    'zkid file is not explored)',
    'ZooKeeper is harness/zkfake.py: calls are atomic and linearised in the order the turnstile '
    'releases them; DataWatch registration counts as one call; creating missing parents is part '
    'of the create call (parents are pre-created)',
    'stubs: sysinfo.hostname (fixed per host), context.GLOBAL.zk.conn (the host\'s client), '
    'utils.sys_exit; everything else on the path is the code of the working tree',
    'the other entry points of presence.py (EndpointPresence.unregister_running / _endpoints / _identity, '
    'kill_node) are driven from an administrator session on extension traces: their set / delete of a '
    'presence node that another session owns and whose data does not name the host they act for is '
    'C17.noForeign, unless their own preceding get showed the host\'s data (the unversioned get/delete '
    'window, reported as observation ext.kill.window); trace.app.zk._unschedule is not driven',
]


# ---------------------------------------------------------------------------
# model-checking configurations rendered from the driver's scenarios
def _tla(v):
    if isinstance(v, str):
        return json.dumps(v)
    if isinstance(v, (list, tuple)):
        return '<<' + ', '.join(_tla(x) for x in v) + '>>'
    if isinstance(v, dict):
        return '(' + ' @@ '.join('%s :> %s' % (_tla(k), _tla(x)) for k, x in v.items()) + ')'
    raise TypeError(v)


def mc_files(scn, tag, max_expire, defects, invariants, max_pad=0, helpers=(), unsched=None, reg=None):
    """helpers: which helpers of presence.py run (extension): subset of ('kill', 'unreg').
    unsched: (MaxPub, MaxSched) for the publish / _unschedule configuration (no containers).
    reg: (MaxReg, Retries) for the EndpointPresence.register_* configuration (first container)."""
    mod = 'MC_Presence_%s_%s' % (scn['name'], tag)
    ext = scn['ext']
    ext_text = ('[srv |-> %s, plc |-> %s, sch |-> %s, sproot |-> %s, iorder |-> %s, fin |-> %s, '
                'plcp |-> %s, sp |-> %s]' % (
                    _tla(ext['srv']), _tla(ext['plc']), _tla(ext['sch']), _tla(ext['sproot']),
                    _tla(ext['iorder']), _tla(ext['fin']), _tla(ext['plcp']),
                    _tla(ext['sp']) if helpers or unsched or reg else '<<>>'))
    conts, inst = (scn['conts'], scn['inst']) if not unsched else ([], None)
    if reg:
        conts = scn['conts'][:1]
        inst = {c: scn['inst'][c] for c in conts}
    text = ('---- MODULE %s ----\nEXTENDS Presence\nScnHosts == %s\nScnConts == %s\n'
            'ScnInst == %s\nScnPaths == %s\nScnExt == %s\n====\n' % (
                mod, _tla(scn['hosts']), _tla(conts), _tla(inst) if inst else '<<>>',
                _tla(scn['paths']), ext_text))
    percont = '{' + ', '.join(str(2 + i) for i in range(len(scn['endpoints']))) + '}'
    cfg = ['INIT Init', 'NEXT Next', 'CHECK_DEADLOCK FALSE', 'CONSTANTS',
           ' Hosts <- ScnHosts', ' Conts <- ScnConts', ' InstOf <- ScnInst', ' PathsOf <- ScnPaths',
           ' PerCont = %s' % percont, ' MaxExpire = %d' % max_expire, ' SymFirst = %s' % ('FALSE' if max_pad else 'TRUE'),
           ' MaxKill = %d' % (1 if helpers else 0),
           ' HelpKinds = {%s}' % ', '.join('"%s"' % k for k in helpers), ' Ext <- ScnExt',
           ' MaxPub = %d' % (unsched[0] if unsched else 0),
           ' MaxSched = %d' % (unsched[1] if unsched else 0),
           ' MaxReg = %d' % (reg[0] if reg else 0), ' Retries = %d' % (reg[1] if reg else 13),
           ' MaxPad = %d' % max_pad,
           ' Defects = {%s}' % ', '.join('"%s"' % d for d in defects)]
    cfg += ['INVARIANT %s' % i for i in invariants]
    return mod, mod + '.cfg', {mod + '.tla': text, mod + '.cfg': '\n'.join(cfg) + '\n'}


def _sched(labels):
    """TLC action labels -> schedule for the driver."""
    def plain(x):
        if isinstance(x, (tuple, list)):
            return [plain(y) for y in x]
        return x
    return [(a, plain(args)) for a, args in labels if a not in ('Pad', 'Initial', 'Next', 'Init')]


def _model_check(ctx):
    """Returns the list of (scenario name, source, schedule) of model counterexamples."""
    quick = ctx.quick
    runs = []
    # (scenario, bound on service failures, variants); the long runs first
    plan = [('a2', 1, 'anr')] if quick else [('a2b1', 1, 'ar'), ('a3', 1, 'arn'), ('a2', 2, 'arn')]
    for name, mx, variants in plan:
        scn = pd.SCENARIOS[name]
        if 'a' in variants:
            runs.append((name, 'as-is %s failures<=%d' % (name, mx),
                         mc_files(scn, 'asis', mx, ['olderSteals'], CLAUSE_INV), quick))
        if 'r' in variants:
            runs.append((name, 'repaired %s failures<=%d' % (name, mx),
                         mc_files(scn, 'fix', mx, [], CLAUSE_INV + ['NewerKept']), False))
        if 'n' in variants:
            runs.append((name, 'as-is+NewerKept %s failures<=%d' % (name, mx),
                         mc_files(scn, 'nk', mx, ['olderSteals'], ['NewerKept']), False))
    cex = []

    def one(run):
        name, title, (mod, cfg, files), cover = run
        # one worker for the run that is expected to end in a counterexample: breadth-first
        # search with one worker returns the same, shortest one every time
        workers = 1 if 'NewerKept' in title else (6 if quick else 8)
        return tlc.mc(SPEC_DIR, mod, cfg, extra_files=files, coverage=cover,
                      workers=workers, timeout=120 if quick else 700)
    with concurrent.futures.ThreadPoolExecutor(3) as ex:
        results = list(ex.map(one, runs))
    for (name, title, _f, cover), res in zip(runs, results):
        ctx.add_mc(title, res, need_actions=ACTIONS if cover and not res['timed_out'] else ())
        if res['timed_out']:
            ctx.notes.append('model run %s timed out (partial)' % title)
        if res['violated']:
            ctx.log('model invariant %s violated in "%s" (%d steps); the counterexample is replayed '
                    'on the code' % (res['violated'], title, len(res['cex'])))
            labels = [(a, tlc.tlaval.split_args(b)) for a, b in res['cex']]
            cex.append((name, 'cex:' + res['violated'], _sched(labels)))
        elif 'repaired' in title or 'as-is ' in title:
            if not res['ok'] and not res['timed_out']:
                raise tlc.MachineryError('TLC did not complete %s' % title)
    return cex


# ---------------------------------------------------------------------------
# schedules
def _simulate(ctx):
    out = []
    plan = [('a2', 1, 60, 60 if ctx.quick else 600), ('a2b1', 1, 90, 60 if ctx.quick else 600)]
    if not ctx.quick:
        plan += [('a3', 2, 110, 400), ('a2', 2, 80, 300)]
    def one(job):
        k, (name, mx, depth, num) = job
        scn = pd.SCENARIOS[name]
        mod, cfg, files = mc_files(scn, 'gen%d' % k, mx, ['olderSteals'], [], max_pad=depth)
        return tlc.simulate(SPEC_DIR, mod, cfg, num=num, depth=depth,
                            seed=ctx.seed * 31 + k, procs=4 if ctx.quick else 6,
                            extra_files=files, timeout=120 if ctx.quick else 600)
    with concurrent.futures.ThreadPoolExecutor(len(plan)) as ex:
        results = list(ex.map(one, enumerate(plan)))
    for (name, _mx, _d, _n), (behaviours, cmd) in zip(plan, results):
        ctx.cmds.append(cmd)
        for b in behaviours:
            out.append((name, 'tlc', _sched(b)))
    return out


_EDGE = re.compile(r'^(-?\d+) -> (-?\d+) \[label="((?:[^"\\]|\\.)*)"')
_NODE = re.compile(r'^(-?\d+) \[label=')


def _state_graph(scn, max_expire, timeout):
    """Labelled state graph of a tiny configuration (TLC -dump dot,actionlabels)."""
    mod, cfg, files = mc_files(scn, 'dump', max_expire, ['olderSteals'], [])
    work = tlc.scratch('verif-c17-dump-')
    try:
        tlc._stage(SPEC_DIR, work, files)                    # pylint: disable=protected-access
        dot = os.path.join(work, 'graph.dot')
        rc, out, _wall, cmd = tlc._run(                      # pylint: disable=protected-access
            ['-workers', '4', '-metadir', os.path.join(work, 'meta'), '-noGenerateSpecTE',
             '-dump', 'dot,actionlabels', dot, '-config', cfg, mod + '.tla'], work, timeout)
        if rc != 0 or not os.path.exists(dot):
            raise tlc.MachineryError('TLC -dump failed rc=%s\n%s' % (rc, out[-2000:]))
        init, edges = None, collections.defaultdict(list)
        with open(dot) as f:
            for line in f:
                m = _EDGE.match(line)
                if m:
                    lab = m.group(3).replace('\\"', '"').replace('\\\\', '\\')
                    edges[m.group(1)].append((lab, m.group(2)))
                    continue
                if init is None and 'style = filled' in line:
                    m = _NODE.match(line)
                    if m:
                        init = m.group(1)
        if init is None:
            raise tlc.MachineryError('no initial state in the dump')
        return init, edges, cmd
    finally:
        shutil.rmtree(work, ignore_errors=True)


_LAB = re.compile(r'^(\w+)\((.*)\)$')


def _label(lab):
    m = _LAB.match(lab)
    if not m:
        return (lab, [])
    return (m.group(1), tlc.tlaval.split_args(m.group(2)))


def _transition_cover(init, edges, limit):
    """Paths from the initial state that together take every transition: extend
    greedily along untaken transitions, reach the next untaken one by a
    shortest path.  Deterministic (dump order is sorted first)."""
    for u in edges:
        edges[u].sort()
    parent = {init: None}
    order = [init]
    for u in order:                                         # BFS tree
        for lab, v in edges.get(u, ()):
            if v not in parent:
                parent[v] = (u, lab)
                order.append(v)
    taken = set()
    paths = []
    total = sum(len(v) for v in edges.values())
    for u in order:
        for lab, v in edges.get(u, ()):
            if (u, lab, v) in taken:
                continue
            pre = []
            x = u
            while parent[x] is not None:
                pu, pl = parent[x]
                pre.append((pu, pl, x))
                x = pu
            path = list(reversed(pre)) + [(u, lab, v)]
            cur = v
            while True:
                nxt = [(l2, v2) for l2, v2 in edges.get(cur, ()) if (cur, l2, v2) not in taken]
                if not nxt:
                    break
                l2, v2 = nxt[0]
                path.append((cur, l2, v2))
                taken.add((cur, l2, v2))
                cur = v2
            taken.update(path)
            paths.append([_label(l) for _, l, _ in path])
            if limit and len(paths) >= limit:
                return paths, len(taken), total
    return paths, len(taken), total


def _cover(ctx):
    name, mx = 'a2', (0 if ctx.quick else 1)
    scn = pd.SCENARIOS[name]
    init, edges, cmd = _state_graph(scn, mx, 120 if ctx.quick else 600)
    ctx.cmds.append(cmd)
    paths, taken, total = _transition_cover(init, edges, 700 if ctx.quick else 10000)
    ctx.log('transition cover of %s expire<=%d: %d paths take %d of %d transitions'
            % (name, mx, len(paths), taken, total))
    return [(name, 'cover', _sched(p)) for p in paths], dict(
        config='%s expire<=%d' % (name, mx), paths=len(paths), transitions_taken=taken,
        transitions=total)


# ---------------------------------------------------------------------------
def _record_chunk(chunk):
    out = []
    for k, it in chunk:
        scn = pd.SCENARIOS[it[0]]
        ext = it[1][0] in 'xug'              # x: helpers of presence.py; u: _unschedule; g: register_*
        if it[1] == 'urnd':
            lines, executed, skipped = pd.run_random_unsched(scn, random.Random(it[2]), it[3])
        elif it[1] in ('rnd', 'xrnd'):
            lines, executed, skipped = pd.run_random(scn, random.Random(it[2]), it[3],
                                                     max_expire=0 if ext else 2, ext=ext)
        else:
            lines, executed, skipped = pd.run_schedule(scn, it[2], max_expire=3, ext=ext)
        out.append(dict(tid='%s:%s:%d' % (it[0], it[1].split(':')[0], k), scn=pd.header(scn, ext),
                        lines=lines, scenario=it[0], src=it[1], schedule=executed,
                        skipped_actions=skipped))
    return out


def record(items, procs=8):
    """Replay schedules; items: (scenario, source, schedule) or (scenario, 'rnd', seed, steps).
    Every schedule runs in a world of its own, so the work is split over forked
    processes; the result does not depend on the split."""
    idx = list(enumerate(items))
    if len(idx) < 16 or procs <= 1:
        return _record_chunk(idx)
    import multiprocessing
    size = max(4, (len(idx) + procs * 4 - 1) // (procs * 4))
    chunks = [idx[i:i + size] for i in range(0, len(idx), size)]
    ctx = multiprocessing.get_context('fork')
    with concurrent.futures.ProcessPoolExecutor(procs, mp_context=ctx) as ex:
        parts = list(ex.map(_record_chunk, chunks))
    return [t for part in parts for t in part]


def _validate_batch(job):
    traces, timeout = job
    work = tlc.scratch('verif-c17-batch-')
    try:
        path = os.path.join(work, 'batch.json')
        with open(path, 'w') as f:
            json.dump(dict(traces=[dict(tid=t['tid'], scn=t['scn'], lines=t['lines'])
                                   for t in traces]), f)
        verdicts, stats = tlc.validate(SPEC_DIR, 'PresenceTrace', 'PresenceTrace.cfg', path,
                                       timeout=timeout, heap='4g')
    finally:
        shutil.rmtree(work, ignore_errors=True)
    total = sum(len(t['lines']) - 1 for t in traces)
    if len(verdicts) != total:
        raise tlc.MachineryError('trace spec judged %d of %d lines' % (len(verdicts), total))
    return verdicts, stats


def validate(traces, timeout=900, batch_lines=40000):
    """Batched trace validation (one TLC run per ~batch_lines lines, 4 at a time)."""
    batches, cur, n = [], [], 0
    for t in traces:
        cur.append(t)
        n += len(t['lines'])
        if n >= batch_lines:
            batches.append(cur)
            cur, n = [], 0
    if cur:
        batches.append(cur)
    with concurrent.futures.ThreadPoolExecutor(4) as ex:
        parts = list(ex.map(_validate_batch, [(b, timeout) for b in batches]))
    verdicts = [v for vs, _ in parts for v in vs]
    return verdicts, parts[0][1]


def _show(line):
    d = {k: v for k, v in line.items() if k != 'post'}
    return json.dumps(d, sort_keys=True)


def _newer_kept_situation(t, v):
    """The semantic situation of a C17.newerKept failure (a delete request of an OLDER
    container removes a node to which a NEWER container of the instance is entitled).

    'olderAfterNewer' (the recorded known finding): on that service incarnation a create
    request of the older container was (re)evaluated AFTER the newer container had
    registered the node -- newest-first evaluation order (glob order after a service
    restart, watch-callback order) -- so the older one took over what its session already
    held for the newer one.  Derived from the request-level lines (begin of create
    requests, the services' registration maps) only, independent of the order and number
    of ZooKeeper calls inside a request.
    'other': anything else (older evaluated first and the newer one's take-over not
    book-kept, bookkeeping lost, ...): a different defect, reported."""
    lines = t['lines']
    i = v['i']
    line = lines[i]
    h, older = line.get('h'), line.get('rc')
    claims = v.get('nk') or []
    if not claims or h is None:
        return 'other'
    start = 0
    for j in range(i - 1, 0, -1):
        if lines[j]['ev'] in ('restart', 'expire', 'crash') and lines[j].get('h') == h:
            start = j
            break

    def create_begins(c):
        return [j for j in range(start, i) if lines[j]['ev'] == 'begin' and lines[j].get('h') == h and
                lines[j].get('k') == 'create' and lines[j].get('c') == c]
    older_begins = create_begins(older)
    for path, newer in claims:
        reg = next((j for j in range(start, i)
                    if lines[j]['post']['pres'].get(h, {}).get(path) == newer), None)
        if reg is None:          # its registration never reached the service's map
            reg = next(iter(create_begins(newer)), None)
        if reg is None or not any(j > reg for j in older_begins):
            return 'other'
    return 'olderAfterNewer'


def judge(ctx, traces, verdicts, extra=None):
    by_tid = {t['tid']: t for t in traces}
    violations = []
    violating = collections.Counter()
    seen_bad = set()
    nontrivial = set()
    flags = collections.Counter()
    evaluations = 0
    drift_traces = set()
    drift_examples = []
    drifting = {v['tid'] for v in verdicts if any(f.startswith('drift.') for f in v['fail'])}
    xt = dict(traces=0, lines=0, helper_calls=0, helper_writes_judged=0, undisturbed_runs=0, unexplained=0,
              publication_calls=0, unschedule=collections.Counter(), registration_lines=0,
              clauses=collections.Counter(), observations=collections.Counter(), examples=[])
    xt['traces'] = sum(1 for t in traces if t['src'][0] in 'xug')
    for v in verdicts:
        t = by_tid[v['tid']]
        fails = set(v['fail'])
        if t['src'][0] in 'xug':
            # extension beyond the listed property (DESIGN.md 10.6): conformance class only
            xt['lines'] += 1
            if t['lines'][v['i']]['ev'] == 'acall':
                xt['helper_calls'] += 1
                evaluations += 1                 # judged by C17.noForeign (write log of the store)
            if t['lines'][v['i']]['ev'] in ('rcall', 'rend') or 'register.expire' in v['ex']:
                xt['registration_lines'] += 1
                evaluations += 1                 # judged by C17.ownsAfterRegister / keptAfterExpire
                if PROP in v['ex']:
                    nontrivial.add(core.hist_hash(t['schedule']))
            if t['lines'][v['i']]['ev'] == 'pcall':
                xt['publication_calls'] += 1
                evaluations += 1                 # judged by C17.unscheduleOwner
                if PROP in v['ex']:
                    nontrivial.add(core.hist_hash(t['schedule']))
                for e in v['ex']:
                    if e.startswith('unsched.'):
                        xt['unschedule'][e] += 1
            xt['helper_writes_judged'] += 1 if 'C17.helper' in v['ex'] else 0
            xt['undisturbed_runs'] += 1 if 'ext.atomic' in v['ex'] else 0
            for f in sorted(fails):
                if f.startswith(PROP + '.'):
                    continue        # before the first helper line the trace is an ordinary one
                if f in ('ext.kill.window', 'ext.unschedule.window'):
                    xt['observations']['%s %s' % (f, t['src'].split(':')[0])] += 1
                    continue
                xt['clauses'][f] += 1
                xt['unexplained'] += 1
                if len(xt['examples']) < 3:
                    xt['examples'].append(dict(trace=t['tid'], source=t['src'], line=v['i'], clause=f,
                                               event=json.loads(_show(t['lines'][v['i']]))))
            fails = {f for f in fails if f.startswith(PROP + '.')}
            if not fails:
                continue
        else:
            evaluations += 1
        for e in v['ex']:
            flags[e] += 1
        if any(f.startswith('drift.') for f in fails):
            ctx.drift += 1
            if t['tid'] not in drift_traces and len(drift_examples) < 5:
                drift_examples.append(dict(trace=t['tid'], source=t['src'], line=v['i'],
                                           clauses=sorted(f for f in fails if f.startswith('drift.')),
                                           event=json.loads(_show(t['lines'][v['i']]))))
            drift_traces.add(t['tid'])
        if PROP in v['ex']:
            nontrivial.add(core.hist_hash(t['schedule']))
        for f in sorted(fails):
            if f.startswith(PROP + '.'):
                line = t['lines'][v['i']]
                if (t['tid'], f) not in seen_bad:
                    seen_bad.add((t['tid'], f))
                    violating['%s %s' % (f, t['src'].split(':')[0])] += 1
                # the recorded finding is identified by WHAT fails, not by whether the
                # step-exact model explains the trace (see _newer_kept_situation)
                sig = f
                if f == PROP + '.newerKept':
                    sig = f + ':' + _newer_kept_situation(t, v)
                violations.append(dict(
                    clause=f, signature=sig,
                    what='at line %d of %s (%s): %s' % (v['i'], t['tid'], t['src'], _show(line)),
                    replay_payload=dict(kind='presence', property=PROP, clause=f,
                                        scenario=t['scenario'], schedule=t['schedule'],
                                        ext=t['src'][0] in 'xug',
                                        failed_line=v['i'], line=json.loads(_show(line)))))
    # shortest failing schedule first, per clause
    violations.sort(key=lambda x: (x['clause'], len(x['replay_payload']['schedule']),
                                   x['replay_payload']['failed_line']))
    samples = []
    for t in traces:
        if core.hist_hash(t['schedule']) in nontrivial:
            samples.append(dict(scenario=t['tid'], source=t['src'],
                                schedule=['%s(%s)' % (a, ','.join(json.dumps(x) for x in args))
                                          for a, args in t['schedule']]))
        if len(samples) >= 3:
            break
    if ctx.drift:
        print('DRIFT: %d recorded lines in %d traces are not steps of the stepped model '
              '(specs/node/Presence.tla needs updating; not a violation)' % (ctx.drift, len(drift_traces)))
        for d in drift_examples[:3]:
            print('  drift: %s' % json.dumps(d, sort_keys=True))
    if xt['unexplained']:
        ctx.drift += xt['unexplained']
        print('DRIFT: %d recorded lines of behaviour modelled beyond the listed property (helpers of '
              'presence.py: kill_node, EndpointPresence.unregister_*) are not steps of Presence.tla / '
              'miss its ext.kill clauses %s (not a violation)' % (xt['unexplained'], dict(xt['clauses'])))
        for d in xt['examples']:
            print('  ext: %s' % json.dumps(d, sort_keys=True))
    xt['clauses'] = dict(xt['clauses'])
    xt['unschedule'] = dict(xt['unschedule'])
    xt['observations'] = dict(xt['observations'])
    ex = dict(trace_sources=dict(collections.Counter(t['src'].split(':')[0] for t in traces)),
              exercised=dict(flags), drift_examples=drift_examples,
              violating_traces_by_clause_and_source=dict(violating),
              schedule_actions_not_applicable=sum(t['skipped_actions'] for t in traces))
    if extra:
        ex.update(extra)
    if xt['traces'] or 'extensions' in ex:
        ex.setdefault('extensions', {}).setdefault('presence_helpers', {})['conformance'] = xt
    return core.conclude(
        ctx, level='model_checking', violations=violations, evaluations=evaluations,
        distinct_nontrivial=len(nontrivial), rule=RULE, samples=samples,
        traces_validated=len(traces), assumptions=ASSUMPTIONS, extra=ex,
        exhaustive=False)


# ---------------------------------------------------------------------------
# Extension beyond the listed property (DESIGN.md 5 / 10.6): the helpers of
# treadmill/presence.py (kill_node, EndpointPresence.unregister_*) as actors of
# Presence.tla.  Conformance class: never a VIOLATION.
EXT_INV = ['Ephemeral', 'Waits', 'OwnOnly', 'ExtScope', 'ExtAtomic', 'ExtGuarded']
EXT_OBSERVATIONS = [
    ('safe_delete_window', 'NoForeign',
     'a node that _safe_delete has just read as its own is removed by the helper and re-created '
     'by the other host before the (unversioned) delete: the service deletes a foreign node'),
    ('helper_window', 'ExtNamed',
     'a node the helper has just read as naming its host is replaced before the helper\'s '
     '(unversioned) delete: the helper removes a node that names another host'),
]


def _ext_mc(ctx):
    """Exhaustive runs of the extension configuration (invariants that hold)."""
    out = []
    # quick: the two-path scenario; thorough: also with an endpoint
    plan = [('k2', ('kill', 'unreg'))] if ctx.quick else [('k2', ('kill', 'unreg')), ('a2', ('kill', 'unreg'))]
    for name, kinds in plan:
        scn = pd.SCENARIOS[name]
        mod, cfg, files = mc_files(scn, 'ext', 0, ['olderSteals'], EXT_INV, helpers=kinds)
        res = tlc.mc(SPEC_DIR, mod, cfg, extra_files=files, coverage=False,
                     workers=6 if ctx.quick else 8, timeout=100 if ctx.quick else 700)
        out.append(('extension %s: %s stepped, 1 helper run' % (name, ' + '.join(
            'kill_node' if k == 'kill' else 'unregister_*' for k in kinds)), name, res))
    return out


def _ext_obs(ctx):
    """The two get / delete windows: invariants EXPECTED to fail in the model."""
    scn = pd.SCENARIOS['k2']

    def one(obs):
        key, inv, _what = obs
        mod, cfg, files = mc_files(scn, 'obs_' + inv, 0, ['olderSteals'], [inv],
                                   helpers=('unreg',) if ctx.quick else ('kill', 'unreg'))
        return tlc.mc(SPEC_DIR, mod, cfg, extra_files=files, coverage=False, workers=4,
                      timeout=100 if ctx.quick else 300)
    with concurrent.futures.ThreadPoolExecutor(2) as ex:
        return list(zip(EXT_OBSERVATIONS, ex.map(one, EXT_OBSERVATIONS)))


# ---------------------------------------------------------------------------
# presence.py: EndpointPresence.register_* (the registration path that does not go through
# the presence service): it waits until it can OWN the node.
REG_INV = ['OwnsAfterRegister', 'KeptAfterExpire', 'Ephemeral']


def _register_mc(ctx):
    scn = pd.SCENARIOS['a2']
    bound = (2, 2) if ctx.quick else (3, 2)
    runs = [('register_* a2: %d runs, %d tries, clean' % bound,
             mc_files(scn, 'r', 0, ['olderSteals'], REG_INV, reg=bound)),
            ('register_* a2: defect sameDataOk, OwnsAfterRegister must fail',
             mc_files(scn, 'rd', 0, ['olderSteals', 'sameDataOk'], ['OwnsAfterRegister'], reg=bound))]

    def one(run):
        _title, (mod, cfg, files) = run
        return tlc.mc(SPEC_DIR, mod, cfg, extra_files=files, coverage=False, workers=2,
                      timeout=100 if ctx.quick else 600)
    with concurrent.futures.ThreadPoolExecutor(2) as ex:
        results = list(ex.map(one, runs))
    return [(t, r) for (t, _f), r in zip(runs, results)]


def _register_designed():
    """The same host registers the same container again from a NEW session while the OLD
    session's identical nodes still exist; the old session expires earlier (before the
    run), during it (after k steps: while it waits for the identity / running / endpoint
    node) or later (after the run gave up)."""
    items = []
    for name in ('a2', 'px'):
        scn = pd.SCENARIOS[name]
        c = scn['conts'][0]
        h, other = scn['hosts'][:2]
        old = pd.REG_SESSION + 1
        base = [('RRun', [h, c, 'all'])]
        for kind in ('all', 'identity', 'running', 'endpoints'):
            items.append((name, 'gfix', base + [('Reap', [old, []]), ('RRun', [h, c, kind])]))
            items.append((name, 'gfix', base + [('RRun', [h, c, kind]), ('Reap', [old, []])]))
            for k in (0, 2, 7, 20):
                items.append((name, 'gfix', base + [('RegBegin', [h, c, kind])] + [('RCall', [1])] * k +
                              [('Reap', [old, []]), ('RRun', [h, c, 'cont'])]))
        # another host wants the same instance: data differs
        items.append((name, 'gfix', base + [('RegBegin', [other, c, 'all'])] + [('RCall', [1])] * 4 +
                      [('Reap', [old, []]), ('RRun', [other, c, 'cont'])]))
    return items


def _register_schedules(ctx):
    items = _register_designed()
    scn = pd.SCENARIOS['a2']
    mod, cfg, files = mc_files(scn, 'rgen', 0, ['olderSteals'], [], max_pad=40, reg=(3, 2))
    behaviours, cmd = tlc.simulate(SPEC_DIR, mod, cfg, num=15 if ctx.quick else 300, depth=40,
                                   seed=ctx.seed * 43 + 11, procs=2 if ctx.quick else 4,
                                   extra_files=files, timeout=120 if ctx.quick else 600)
    ctx.cmds.append(cmd)
    return items + [('a2', 'gtlc', _sched(b)) for b in behaviours]


def _ext_designed():
    """Every helper against every host / instance on the scenarios whose names share a
    prefix: both hosts run one instance each, then ONE helper run (kill_node(h), or the
    unregister_* of instance a for host h) to its end."""
    items = []
    for name in ('px', 'py'):
        scn = pd.SCENARIOS[name]
        h0, h1 = scn['hosts'][:2]
        first = {}
        for c in scn['conts']:
            first.setdefault(scn['inst'][c], c)
        (a, ca), (b, cb) = sorted(first.items())[:2]
        for x, y in ((h0, h1), (h1, h0)):
            base = [('Submit', [x, ca]), ('Run', [x]), ('Submit', [y, cb]), ('Run', [y])]
            for h in (h0, h1):
                items.append((name, 'xfix', base + [('KillBegin', [h]), ('ARun', [])]))
                for inst in (a, b):
                    items.append((name, 'xfix', base + [('UnregBegin', [h, inst]), ('ARun', [])]))
    # a newer container on the same host (other real port) rewrites the endpoint node of its own
    # session: between the read and the rewrite the node is removed (helper) / the session expires
    for name in ('a2', 'px'):
        scn = pd.SCENARIOS[name]
        a = scn['inst'][scn['conts'][0]]
        same = [c for c in scn['conts'] if scn['inst'][c] == a][:2]
        for h in scn['hosts'][:2]:
            head = [('Submit', [h, same[0]]), ('Run', [h]), ('Submit', [h, same[1]]), ('Begin', [h]),
                    ('UntilRewrite', [h])]
            items.append((name, 'xfix', head + [('UnregBegin', [h, a]), ('ARun', []), ('Cont', [h])]))
            items.append((name, 'xfix', head + [('KillBegin', [h]), ('ARun', []), ('Cont', [h])]))
            items.append((name, 'xfix', head + [('Expire', [h, []]), ('Restart', [h, list(reversed(same))]),
                                                ('Run', [h]), ('Run', [h])]))
            items.append((name, 'xfix', head + [('Crash', [h]), ('Restart', [h, same]), ('Run', [h]),
                                                ('Reap', [scn['hosts'].index(h) + 1, []]), ('Run', [h])]))
    # the host's nodes are killed, the instance registers on the other host, then the old
    # container is cleaned up: its recorded paths now belong to the other session
    for name in ('a2', 'k2', 'px'):
        scn = pd.SCENARIOS[name]
        h0, h1 = scn['hosts'][:2]
        same = [c for c in scn['conts'] if scn['inst'][c] == scn['inst'][scn['conts'][0]]][:2]
        for x, y in ((h0, h1), (h1, h0)):
            items.append((name, 'xfix', [('Submit', [x, same[0]]), ('Run', [x]), ('KillBegin', [x]),
                                         ('ARun', []), ('Submit', [y, same[1]]), ('Run', [y]),
                                         ('Finish', [x, same[0]]), ('Run', [x])]))
    return items


# ---------------------------------------------------------------------------
# trace/app/zk.py: publish() / _unschedule() (listed under C17): a terminal event
# published by a host un-schedules the instance only while that host owns the placement.
UNSCHED_INV = ['UnscheduleOwner', 'UnscheduleScope']


def _unsched_mc(ctx):
    """(title, result) of: the clean model (exhaustive), the model with the defect
    "unschedNowhere" (the invariant must fail: vacuity control), the exists / delete
    window (expected to fail: observation)."""
    scn = pd.SCENARIOS['k2' if ctx.quick else 'a2b1']
    bound = (2, 3) if ctx.quick else (2, 4)
    runs = [('_unschedule %s: placement x publications, clean' % scn['name'],
             mc_files(scn, 'u', 0, ['olderSteals'], UNSCHED_INV, unsched=bound)),
            ('_unschedule %s: defect unschedNowhere, UnscheduleOwner must fail' % scn['name'],
             mc_files(scn, 'ud', 0, ['olderSteals', 'unschedNowhere'], ['UnscheduleOwner'], unsched=bound)),
            ('_unschedule %s: observation, UnscheduleOwnerNow expected to fail' % scn['name'],
             mc_files(scn, 'uo', 0, ['olderSteals'], ['UnscheduleOwnerNow'], unsched=bound))]

    def one(run):
        _title, (mod, cfg, files) = run
        return tlc.mc(SPEC_DIR, mod, cfg, extra_files=files, coverage=False, workers=2,
                      timeout=100 if ctx.quick else 600)
    with concurrent.futures.ThreadPoolExecutor(3) as ex:
        results = list(ex.map(one, runs))
    return [(t, r) for (t, _f), r in zip(runs, results)]


def _unsched_designed():
    """The schedules that matter: instance placed on A / withdrawn (placed nowhere) /
    re-placed on B / no /placement at all, then a (late) event of A's container."""
    items = []
    for name in ('k2', 'px'):
        scn = pd.SCENARIOS[name]
        a_host, b_host = scn['hosts'][:2]
        for inst in scn['paths']:
            for ty in ('finished', 'killed', 'aborted', 'configured'):
                pub = [('PRun', [a_host, inst, ty])]
                items += [
                    (name, 'ufix', [('Place', [inst, a_host]), ('Withdraw', [inst, a_host])] + pub),
                    (name, 'ufix', [('Place', [inst, a_host]), ('Withdraw', [inst, a_host]),
                                    ('Place', [inst, b_host])] + pub),
                    (name, 'ufix', [('Place', [inst, a_host])] + pub),
                    (name, 'ufix', [('RmRoot', [1])] + pub),
                    (name, 'ufix', pub),
                    (name, 'ufix', [('Place', [inst, a_host])] + pub + [('PRun', [b_host, inst, ty])]),
                ]
    return items


def _unsched_schedules(ctx, runs):
    items = _unsched_designed()
    for title, res in runs:
        if 'observation' in title and res['violated']:
            labels = [(a, tlc.tlaval.split_args(b)) for a, b in res['cex']]
            items.append((title.split()[1].rstrip(':'), 'ucex:unschedule_window', _sched(labels)))
    scn = pd.SCENARIOS['k2']
    mod, cfg, files = mc_files(scn, 'ugen', 0, ['olderSteals'], [], max_pad=45, unsched=(2, 4))
    behaviours, cmd = tlc.simulate(SPEC_DIR, mod, cfg, num=20 if ctx.quick else 400, depth=45,
                                   seed=ctx.seed * 41 + 7, procs=2 if ctx.quick else 4,
                                   extra_files=files, timeout=120 if ctx.quick else 600)
    ctx.cmds.append(cmd)
    items += [('k2', 'utlc', _sched(b)) for b in behaviours]
    names = ['k2', 'a2b1', 'px', 'py']
    for k in range(60 if ctx.quick else 2000):
        items.append((names[k % len(names)], 'urnd', ctx.seed * 1000003 + 700000 + k, 40))
    return items


def _designed():
    """Hand-written schedules inside the statement's quantifier that random choice rarely
    reaches.  Three successive containers of one instance: c1 on host B is being cleaned
    up (its running / endpoint nodes are gone, its last node still there), c2 on host A
    registers the free nodes and waits for the last one, c3 on host A takes c2's nodes
    over and waits too; then c2 is cleaned up -- which must leave c3's nodes alone."""
    items = []
    scn = pd.SCENARIOS['a3']
    c1, c2, c3 = scn['conts'][:3]
    for a_host, b_host in (scn['hosts'][:2], scn['hosts'][1::-1]):
        for ncalls in (3, 6):
            items.append(('a3', 'dfix', [
                ('Submit', [b_host, c1]), ('Run', [b_host]),
                ('Submit', [a_host, c2]), ('Run', [a_host]),
                ('Finish', [b_host, c1]), ('Begin', [b_host])] + [('Call', [b_host])] * ncalls + [
                ('Run', [a_host]),
                ('Submit', [a_host, c3]), ('Run', [a_host]),
                ('Finish', [a_host, c2]), ('Run', [a_host]),
                ('Run', [a_host])]))
    # the instance comes back with another identity, held by another instance on the other
    # host: the newer container takes the running / endpoint nodes over, waits for the
    # identity; the old container's clean-up must leave what the newer one took over
    scn = pd.SCENARIOS['i3']
    c1, c2, c3 = scn['conts'][:3]
    for a_host, b_host in (scn['hosts'][:2], scn['hosts'][1::-1]):
        items.append(('i3', 'dfix', [
            ('Submit', [b_host, c3]), ('Run', [b_host]),
            ('Submit', [a_host, c1]), ('Run', [a_host]),
            ('Submit', [a_host, c2]), ('Run', [a_host]),
            ('Finish', [a_host, c1]), ('Run', [a_host]),
            ('Finish', [b_host, c3]), ('Run', [b_host]), ('Run', [a_host])]))
    return items


def _ext_schedules(ctx, obs):
    items, info = _ext_designed(), {}
    for (key, inv, what), res in obs:
        info[key] = dict(invariant=inv, what=what, model_counterexample_steps=len(res['cex']),
                         violated_in_model=bool(res['violated']), reproduced_on_code=False)
        if res['violated']:
            labels = [(a, tlc.tlaval.split_args(b)) for a, b in res['cex']]
            items.append(('k2', 'xcex:' + key, _sched(labels)))
    scn = pd.SCENARIOS['k2']
    mod, cfg, files = mc_files(scn, 'xgen', 0, ['olderSteals'], [], max_pad=70, helpers=('kill', 'unreg'))
    behaviours, cmd = tlc.simulate(SPEC_DIR, mod, cfg, num=30 if ctx.quick else 600, depth=70,
                                   seed=ctx.seed * 37 + 5, procs=3 if ctx.quick else 6,
                                   extra_files=files, timeout=120 if ctx.quick else 600)
    ctx.cmds.append(cmd)
    items += [('k2', 'xtlc', _sched(b)) for b in behaviours]
    # with an endpoint: the 'content differs' rewrite (get, set) of _safe_create is there
    scn = pd.SCENARIOS['a2']
    mod, cfg, files = mc_files(scn, 'xgen2', 0, ['olderSteals'], [], max_pad=90, helpers=('kill', 'unreg'))
    behaviours, cmd = tlc.simulate(SPEC_DIR, mod, cfg, num=16 if ctx.quick else 400, depth=90,
                                   seed=ctx.seed * 47 + 3, procs=2 if ctx.quick else 4,
                                   extra_files=files, timeout=120 if ctx.quick else 600)
    ctx.cmds.append(cmd)
    items += [('a2', 'xtlc', _sched(b)) for b in behaviours]
    names = ['k2', 'a2', 'px', 'a2b1', 'py']
    for k in range(100 if ctx.quick else 3000):
        items.append((names[k % len(names)], 'xrnd', ctx.seed * 1000003 + 500000 + k, 160))
    return items, info


def run(ctx):
    t0 = time.time()
    pool = concurrent.futures.ThreadPoolExecutor(5)
    f_obs = pool.submit(_ext_obs, ctx)
    f_uns = pool.submit(_unsched_mc, ctx)
    f_reg = pool.submit(_register_mc, ctx)
    items = _model_check(ctx)
    ctx.log('model checking done (%.0fs)' % (time.time() - t0))
    f_ext = pool.submit(_ext_mc, ctx)           # long; overlaps the replay, joined before the verdict
    with concurrent.futures.ThreadPoolExecutor(3) as ex:
        f_sim = ex.submit(_simulate, ctx)
        f_cov = ex.submit(_cover, ctx)
        obs = f_obs.result()
        f_xs = ex.submit(_ext_schedules, ctx, obs)
        uns_runs = f_uns.result()
        uitems = _unsched_schedules(ctx, uns_runs) + _register_schedules(ctx)
        reg_runs = f_reg.result()
        sim = f_sim.result()
        cover, cover_info = f_cov.result()
        xitems, xinfo = f_xs.result()
    unsched = dict(spec='specs/node/Presence.tla (publish / _unschedule section), clause '
                        'C17.unscheduleOwner of PresenceTrace.tla', model_runs=[])
    for title, res in uns_runs:
        ctx.add_mc(title, res)
        unsched['model_runs'].append(dict(name=title, distinct=res['distinct'], violated=res['violated'] or '',
                                          complete=res['ok']))
        if 'clean' in title and (res['violated'] or not res['ok']):
            raise tlc.MachineryError('Presence.tla: %s violated in the clean _unschedule model' % res['violated'])
        if 'must fail' in title and res['violated'] != 'UnscheduleOwner':
            raise tlc.MachineryError('vacuity: UnscheduleOwner does not reject the defect unschedNowhere')
    register = dict(spec='specs/node/Presence.tla (register_* section), clauses C17.ownsAfterRegister / '
                         'C17.keptAfterExpire of PresenceTrace.tla', model_runs=[])
    for title, res in reg_runs:
        ctx.add_mc(title, res)
        register['model_runs'].append(dict(name=title, distinct=res['distinct'], violated=res['violated'] or '',
                                           complete=res['ok']))
        if 'clean' in title and (res['violated'] or not res['ok']):
            raise tlc.MachineryError('Presence.tla: %s violated in the clean register_* model' % res['violated'])
        if 'must fail' in title and res['violated'] != 'OwnsAfterRegister':
            raise tlc.MachineryError('vacuity: OwnsAfterRegister does not reject the defect sameDataOk')
    xitems = xitems + uitems
    for (key, inv, _what), res in obs:
        ctx.add_mc('extension observation %s: %s expected to fail (k2, 1 helper run)' % (key, inv), res)
        if not res['violated']:
            ctx.log('extension: the model no longer shows the %s window' % key)
    n_rnd = 300 if ctx.quick else 10000
    rnd = []
    names = ['a2', 'a2b1', 'a3', 'a3b2e2', 'a2b1h3']
    for k in range(n_rnd):
        rnd.append((names[k % len(names)], 'rnd', ctx.seed * 1000003 + k, 160))
    items = items + sim + cover + rnd
    ctx.log('%d schedules: %d counterexamples, %d TLC simulate, %d transition cover, %d random; '
            'extension: %d schedules with helper runs'
            % (len(items), len(items) - len(sim) - len(cover) - len(rnd), len(sim), len(cover), len(rnd),
               len(xitems)))
    items = items + xitems + _designed()         # extension / designed traces last: the others keep their ids
    traces = record(items)
    ctx.log('recorded %d traces, %d lines' % (len(traces), sum(len(t['lines']) for t in traces)))
    verdicts, stats = validate(traces, timeout=300 if ctx.quick else 1800)
    ctx.cmds.append(stats['cmd'])
    # which observations the real code reproduced (the counterexample's trace shows the window)
    windows = {v['tid'] for v in verdicts if 'ext.kill.window' in v['fail']}
    uwindows = {v['tid'] for v in verdicts if 'ext.unschedule.window' in v['fail']}
    for t in traces:
        if t['src'].startswith('xcex:') and t['tid'] in windows:
            xinfo[t['src'].split(':', 1)[1]]['reproduced_on_code'] = True
        if t['src'].startswith('ucex:'):
            unsched['window_reproduced_on_code'] = t['tid'] in uwindows
    if 'window_reproduced_on_code' in unsched:
        print('OBSERVATION ext.unschedule.window: the scheduler withdraws the placement between '
              '_unschedule\'s exists and its delete of /scheduled/<app> -- %s'
              % ('reproduced on the code' if unsched['window_reproduced_on_code']
                 else 'NOT reproduced on the code'))
    ext_runs = f_ext.result()
    pool.shutdown()
    for title, _name, res in ext_runs:
        ctx.add_mc(title, res)
        if res['violated']:
            ctx.drift += 1
            print('DRIFT: extension model invariant %s violated in "%s" (model level; not a violation '
                  'of the code)' % (res['violated'], title))
    for key, o in sorted(xinfo.items()):
        print('OBSERVATION ext.kill.window (%s): %s -- model counterexample %d steps, %s' % (
            key, o['what'], o['model_counterexample_steps'],
            'reproduced on the code' if o['reproduced_on_code'] else 'NOT reproduced on the code'))
    extensions = dict(presence_helpers=dict(
        spec='specs/node/Presence.tla (helpers section), clauses ext.kill.* of PresenceTrace.tla',
        model_runs=[dict(name=title, distinct=res['distinct'], generated=res['generated'],
                         complete=res['ok'], violated=res['violated'] or '') for title, _n, res in ext_runs],
        invariants=EXT_INV, observations=xinfo), unschedule=unsched, register=register)
    return judge(ctx, traces, verdicts, extra=dict(transition_cover=cover_info, extensions=extensions))


def replay(ctx, path):
    payload = json.load(open(path))
    sched = [(a, args) for a, args in payload['schedule']]
    traces = record([(payload['scenario'], 'xreplay' if payload.get('ext') else 'replay', sched)])
    verdicts, stats = validate(traces)
    ctx.cmds.append(stats['cmd'])
    return judge(ctx, traces, verdicts)


# ---------------------------------------------------------------------------
# ./check C17 --selftest : the trace spec must name the clause when one logged
# field of a good trace is falsified (DESIGN.md 4.4, first half)
SELFTEST_SCHEDULE = [
    ('Submit', ['host1', 'c1']), ('Run', ['host1']),            # c1 registers on host1
    ('Submit', ['host2', 'c2']), ('Run', ['host2']),            # c2 on host2 meets host1's nodes: waits
    ('Finish', ['host1', 'c1']), ('Run', ['host1']),            # clean-up of c1 fires c2's watch
    ('Run', ['host2']),                                         # retry: c2 registers
]


def _corruptions(lines):
    """(name, expected clause, function that falsifies one field of a copy)."""
    def find(pred):
        return next(i for i, l in enumerate(lines) if pred(l))
    i_del = find(lambda l: l['ev'] == 'call' and l['op'] == 'delete' and l['w'])
    i_cre = find(lambda l: l['ev'] == 'call' and l['op'] == 'create' and l['res'] == 'ok')
    i_get = find(lambda l: l['ev'] == 'call' and l['op'] == 'get' and l['seen'] not in (-1, 0, l['s']))
    i_end = find(lambda l: l['ev'] == 'end' and l['res'] == 'wait')

    def owner(ls):
        ls[i_del]['w'][0]['o'] = ls[i_del]['s'] + 1          # the store says: owned by another session

    def persistent(ls):
        ls[i_cre]['post']['nodes'][ls[i_cre]['path']]['o'] = 0   # the created node is not ephemeral

    def other(ls):
        ls[i_cre]['post']['nodes'][ls[i_cre]['path']]['o'] = ls[i_cre]['s'] + 1

    def not_waiting(ls):
        ls[i_end]['res'] = 'ok'                              # met a foreign owner, yet reports success

    def busy(ls):
        ls[i_get]['fired'] = [[ls[i_get]['h'], ls[i_get]['rc']]]   # retried while the node is there

    def wrong_container(ls):
        ls[i_del]['rc'] = 'c2'                               # the node was registered for c1

    return [('owner of a deleted node', 'C17.noForeign', owner),
            ('created node persistent', 'C17.ephemeral', persistent),
            ('created node owned by another session', 'C17.ephemeral', other),
            ('foreign owner but request succeeds', 'C17.waits', not_waiting),
            ('retry while the awaited node exists', 'C17.waits', busy),
            ('delete request removes another container\'s node', 'C17.ownOnly', wrong_container)]


def selftest(ctx):
    import copy
    scn = pd.SCENARIOS['a2']
    lines, executed, skipped = pd.run_schedule(scn, SELFTEST_SCHEDULE)
    if skipped:
        raise tlc.MachineryError('selftest schedule did not apply')
    traces = [dict(tid='good', scn=pd.header(scn), lines=lines)]
    cases = _corruptions(lines)
    for k, (_name, _clause, fn) in enumerate(cases):
        ls = copy.deepcopy(lines)
        fn(ls)
        traces.append(dict(tid='bad%d' % k, scn=pd.header(scn), lines=ls))
    verdicts, _stats = validate(traces)
    failed = collections.defaultdict(set)
    for v in verdicts:
        failed[v['tid']].update(f for f in v['fail'] if f.startswith(PROP + '.'))
    ok = True
    if failed['good']:
        print('selftest: the unmodified trace fails %s' % sorted(failed['good']))
        ok = False
    for k, (name, clause, _fn) in enumerate(cases):
        got = sorted(failed['bad%d' % k])
        hit = clause in got
        ok = ok and hit
        print('selftest: %-50s expected %-14s TLC named %s  %s' % (name, clause, got, 'ok' if hit else 'MISSED'))
    return 0 if ok else 2
