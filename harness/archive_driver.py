"""C18 driver: runs the REAL archiver (treadmill.trace.app.zk.cleanup_trace /
cleanup_finished / cleanup_*_history, trace.server.zk.cleanup_server_trace /
cleanup_server_trace_history, hence _zk.upload_batch / _zk.cleanup) on the shared
in-memory ZooKeeper (harness/zkfake.py) under a virtual clock, with crash
injection at the k-th ZooKeeper write of a run and with the rest of the cell
(events being published through the real `publish`, instances being scheduled
and finishing, the clock) acting in the middle of a run.

After every step the abstract state is PROJECTED from the node table:
  now (ms since T0), scheduled set, and per kind (trace / finished / server)
  live   the event nodes           {name, inst, ts (ms), sh, k, data}
  snaps  every history node        {seq, rows[...] (zlib + sqlite3, opened
         here), dl[...] (names the code's own reader finds: _zk.download_batch
         per known instance; for /finished.history the query of api/state.py)}
  listed (finished only) what trace.app.zk.list_traces returns
`k` is the rank of the node name among all names of the trace (TLC cannot
compare strings; the specification needs a tie-break for equal timestamps).

History format (JSON-able, self-contained, replayable):
  dict(setup=[step...], steps=[step...])   step = [name, arg...]
    ['SetNow', ms]                       absolute clock (setup only, monotone)
    ['Tick', ms]
    ['Sched', inst]                      /scheduled/<inst> + /placement/<host>/<inst>
    ['Event', kind, obj, etype(, data)]  real publish() at the current clock;
                                         etype 'finished' is terminal: writes
                                         /finished/<inst> and unschedules
    ['Stale', inst, etype]               a STALE terminal event: published (real publish())
                                         by a server that does not own the placement, so
                                         /finished/<inst> is written and /scheduled/<inst>
                                         stays - finished AND scheduled, a legal state
    ['Archive', kind, batch, expiry_s, cut, inject]
                                         cut = k: crash at the k-th write (0: none)
                                         inject = [[phase, j, step], ...]: env
                                         steps performed by another client right
                                         before the j-th shard listing
                                         (phase 'list') or before the (j+1)-th
                                         write (phase 'write') of the run, or at
                                         its end if the run gets there first
    ['Prune', kind, max, cut]
    ['Read', kind]                       extension (readers): every known instance /
                                         server is read through the code's readers by a
                                         third client, atomically at this point - also as
                                         an injected step, i.e. between two writes of a
                                         run.  Logged as line['reads'] = [{kind, at (writes
                                         of the run applied so far), items: [{name, n, loop}]}]:
                                         n = how often the raw readers return the event
                                         (download_batch over every snapshot + the live
                                         children; the api/state query + /finished children),
                                         loop = how often the real AppTraceLoop /
                                         ServerTraceLoop (run(snapshot=True), which de-duplicates)
                                         hands it to its handler; for /finished loop = 1 iff
                                         list_traces returns the name.
"""
import collections
import os
import shutil
import sqlite3
import tempfile
import time as _realtime
import zlib
from unittest import mock

import kazoo.exceptions

from . import core, tlc, zkfake

core.ensure_repo_on_path()
from treadmill import zknamespace as z  # noqa: E402
from treadmill.trace import _zk  # noqa: E402
from treadmill.trace.app import zk as app_zk  # noqa: E402
from treadmill.trace.server import zk as server_zk  # noqa: E402

T0 = 1500000000          # epoch second of model time 0 (exact in a double with ms fractions of .25)
HOST = 'node1'
STALE_HOST = 'node2'     # publishes stale events: owns no placement
KINDS = ('trace', 'finished', 'server')
ROOT = {'trace': z.TRACE, 'finished': z.FINISHED, 'server': z.SERVER_TRACE}
HIST = {'trace': z.TRACE_HISTORY, 'finished': z.FINISHED_HISTORY, 'server': z.SERVER_TRACE_HISTORY}
TABLE = {'trace': app_zk.TRACE_SOW_TABLE, 'finished': 'finished',
         'server': server_zk.SERVER_TRACE_SOW_TABLE}
# the reader of /finished.history (treadmill/api/state.py: watch_finished_history)
FINISHED_READER_SQL = 'SELECT name, data FROM finished ORDER BY timestamp'


class _TimeShim:
    def __init__(self, world):
        self._w = world

    def time(self):
        return T0 + self._w.now_ms / 1000.0

    def __getattr__(self, name):
        return getattr(_realtime, name)


class World:
    """One cell: store, clients, virtual clock."""

    def __init__(self, store=None, now_ms=0, universe=None):
        self.now_ms = now_ms
        self.store = store if store is not None else zkfake.ZkStore()
        self.store._clock = lambda: T0 + self.now_ms / 1000.0
        self.zk = zkfake.ZkFakeClient(self.store)       # the archiver
        self.env = zkfake.ZkFakeClient(self.store)      # everybody else
        self.reader = zkfake.ZkFakeClient(self.store)
        self.universe = set(universe or ())              # instance / server names ever used
        self._cache = {}
        if store is None:
            # what the master creates at start (scheduler/zkbackend.py, master.py)
            for p in (z.SCHEDULED, z.TRACE, z.TRACE_HISTORY, z.FINISHED, z.FINISHED_HISTORY,
                      z.SERVER_TRACE, z.SERVER_TRACE_HISTORY, z.path.placement(HOST)):
                self.env.ensure_path(p)

    def copy(self):
        w = World(self.store.copy(), self.now_ms, self.universe)
        w._cache = self._cache          # keyed by node content: shareable
        return w

    # -- environment -------------------------------------------------------
    def env_step(self, step):
        """Returns dict(added={kind: [names]}, unsched=[...], newsched=[...], tick=ms)."""
        out = dict(added={k: [] for k in KINDS}, unsched=[], newsched=[], tick=0, touched=[],
                   reads=[])
        name = step[0]
        if name == 'Read':
            out['reads'].append(dict(kind=step[1], at=0, items=self.read(step[1])))
        elif name == 'SetNow':
            if step[1] < self.now_ms:
                raise tlc.MachineryError('clock must be monotone')
            out['tick'] = step[1] - self.now_ms
            self.now_ms = step[1]
        elif name == 'Tick':
            self.now_ms += step[1]
            out['tick'] = step[1]
        elif name == 'Sched':
            inst = step[1]
            self.universe.add(inst)
            self.env.create(z.path.scheduled(inst), b'{}', makepath=True)
            self.env.create(z.path.placement(HOST, inst), b'', makepath=True)
            out['newsched'].append(inst)
        elif name in ('Event', 'Stale'):
            host = HOST
            if name == 'Stale':
                # another server, which has no /placement/<host>/<inst> node
                step, host = ['Event', 'trace', step[1], step[2]], STALE_HOST
            _, kind, obj, etype = step[:4]
            tag = str(step[4]) if len(step) > 4 else 'uniq1'
            self.universe.add(obj)
            when = str(T0 + self.now_ms / 1000.0)
            before = set(self.store.children(z.SCHEDULED))
            if kind == 'trace':
                fin0 = self._finished_table()
                terminal = etype in ('finished', 'killed', 'aborted')
                data = {'finished': '0.0', 'killed': 'oom', 'aborted': 'test'}.get(etype, tag)
                if terminal:
                    # the event node takes the millisecond before, so that the
                    # /finished node's mtime is the clock value itself
                    self.now_ms -= 1
                with mock.patch.object(app_zk, '_HOSTNAME', host):
                    app_zk.publish(self.env, when, obj, etype, data, None)
                if terminal:
                    self.now_ms += 1
                out['added']['trace'].append('%s,%s,%s,%s,%s' % (obj, when, host, etype, data))
                fin1 = self._finished_table()
                out['added']['finished'] += sorted(n for n in fin1 if fin1[n] != fin0.get(n))
                out['touched'] += sorted(n for n in fin1 if n in fin0 and fin1[n] != fin0[n])
            elif kind == 'server':
                with mock.patch.object(server_zk, '_HOSTNAME', HOST):
                    server_zk.publish(self.env, when, obj, etype, tag, None)
                out['added']['server'].append('%s,%s,%s,%s,%s' % (obj, when, HOST, etype, tag))
            else:
                raise tlc.MachineryError('bad event kind %r' % (kind,))
            out['unsched'] = sorted(before - set(self.store.children(z.SCHEDULED)))
        else:
            raise tlc.MachineryError('bad env step %r' % (step,))
        return out

    # -- extension: the readers ----------------------------------------------
    def read(self, kind):
        """What a client sees that reads every known object of `kind` right now."""
        zk = self.reader
        items = []
        if kind == 'finished':
            raw = collections.Counter(zk.get_children(z.FINISHED))
            for node in zk.get_children(z.FINISHED_HISTORY):
                data, _ = zk.get(z.path.finished_history(node))
                fd, fname = tempfile.mkstemp(prefix='verif-c18-rd-')
                try:
                    with os.fdopen(fd, 'wb') as f:
                        f.write(zlib.decompress(data))
                    conn = sqlite3.connect(fname)
                    raw.update(r[0] for r in conn.execute(FINISHED_READER_SQL))
                    conn.close()
                finally:
                    os.unlink(fname)
            listed = set(app_zk.list_traces(zk, '*'))
            for name in sorted(raw):
                items.append(dict(name=name, n=raw[name], loop=1 if name in listed else 0,
                                  ordered=True))
            return items
        mod, table, hist = ((app_zk, TABLE['trace'], z.TRACE_HISTORY) if kind == 'trace'
                            else (server_zk, TABLE['server'], z.SERVER_TRACE_HISTORY))
        objs = sorted(o for o in self.universe if ('#' in o) == (kind == 'trace'))
        for obj in objs:
            raw = collections.Counter()
            for node in zk.get_children(hist):
                raw.update(_zk.download_batch(zk, hist + '/' + node, table, obj))
            shard = z.path.trace(obj) if kind == 'trace' else z.path.server_trace(obj)
            if zk.exists(shard):
                raw.update(e for e in zk.get_children(shard) if e.startswith(obj + ','))
            seen = collections.Counter()
            base = app_zk.AppTraceLoop if kind == 'trace' else server_zk.ServerTraceLoop

            class Loop(base):            # records what the loop hands to its handler
                def _process_event(self, object_name, timestamp, source, event_type,
                                   event_data, ctx):
                    seen[','.join((object_name, timestamp, source, event_type, event_data))] += 1

            listed = []
            real_gc = zk.get_children

            def spy(path, *a, **k):
                r = real_gc(path, *a, **k)
                if path == hist:
                    listed.append(list(r))
                return r
            zk.get_children = spy
            try:
                Loop(zk, obj, None).run(snapshot=True)
            finally:
                del zk.get_children
            # _process_db_events iterates the listing as ZooKeeper returns it and the loop
            # drops everything older than the last event handed on: only an oldest-first
            # listing guarantees that nothing is skipped
            ordered = all(l == sorted(l) for l in listed)
            for name in sorted(set(raw) | set(seen)):
                items.append(dict(name=name, n=raw[name], loop=seen[name], ordered=bool(ordered)))
        return items

    def _finished_table(self):
        return {n: (self.store.nodes[z.path.finished(n)].data,
                    self.store.nodes[z.path.finished(n)].mtime)
                for n in self.store.children(z.FINISHED)}

    # -- the code under test -------------------------------------------------
    def _call(self, fn, cut, inject, list_paths):
        """Run fn() as the archiver with crash injection and mid-run env steps."""
        store = self.store
        plan = sorted(([p, j, s] for p, j, s in (inject or [])), key=lambda x: (x[0] != 'list', x[1]))
        done = dict(added={k: [] for k in KINDS}, unsched=[], newsched=[], tick=0, touched=[],
                    reads=[])
        state = {'listed': 0}

        def fire(pred):
            rest = []
            for item in plan:
                if pred(item):
                    w, fa, gate = store.writes, store.fail_at, store.gate
                    store.fail_at, store.gate = None, None
                    try:
                        r = self.env_step(item[2])
                    finally:
                        store.writes, store.fail_at, store.gate = w, fa, gate
                    for k in KINDS:
                        done['added'][k] += r['added'][k]
                    done['unsched'] += r['unsched']
                    done['newsched'] += r['newsched']
                    done['touched'] += r['touched']
                    for rd in r['reads']:
                        rd['at'] = w          # archiver writes applied so far
                        done['reads'].append(rd)
                    done['tick'] += r['tick']
                else:
                    rest.append(item)
            plan[:] = rest

        def gate(session, op, path):
            if session != self.zk.session:
                return
            if op == 'get_children' and path in list_paths():
                fire(lambda it: it[0] == 'list' and it[1] <= state['listed'])
                state['listed'] += 1
            elif op in ('create', 'delete', 'set'):
                fire(lambda it: it[0] == 'list' or it[1] <= store.writes)

        store.writes = 0
        store.fail_at = abs(cut) or None
        # cut < 0: the k-th write is refused with a server error (not retried by kazoo) and ZooKeeper
        # keeps serving; cut > 0: the process dies there
        store.fail_exc = _Refused if cut < 0 else None
        store.gate = gate
        crashed = False
        shim = _TimeShim(self)
        forder = []
        real_gc = self.zk.get_children

        def spy(path, *a, **k):
            # cleanup_finished forms its batches in the order ZooKeeper lists /finished
            r = real_gc(path, *a, **k)
            if path == z.FINISHED and not forder:
                forder.extend(r)
            return r
        self.zk.get_children = spy
        try:
            with mock.patch.object(app_zk, 'time', shim):
                fn()
        except (zkfake.InjectedCrash, _Refused):
            crashed = True          # the archiver stopped at that write
        finally:
            del self.zk.get_children
            store.gate = None
            store.fail_at = None
            store.fail_exc = None
        refused = bool(cut) and store.writes >= abs(cut)
        applied = store.writes - (1 if refused else 0)
        if not crashed:
            fire(lambda it: True)       # the run ended before the planned point
        else:
            plan[:] = []                # the process died: later points never come
        done.update(crashed=crashed, nw=applied, forder=forder)
        return done

    def archive(self, kind, batch, expiry_s, cut=0, inject=None):
        if kind == 'trace':
            fn = lambda: app_zk.cleanup_trace(self.zk, batch, expiry_s)
            lp = lambda: {z.path.trace_shard(s) for s in self.store.children(z.TRACE)}
        elif kind == 'finished':
            fn = lambda: app_zk.cleanup_finished(self.zk, batch, expiry_s)
            lp = lambda: {z.FINISHED}
        elif kind == 'server':
            fn = lambda: server_zk.cleanup_server_trace(self.zk, batch)
            lp = lambda: {z.path.server_trace_shard(s) for s in self.store.children(z.SERVER_TRACE)}
        else:
            raise tlc.MachineryError('bad kind %r' % (kind,))
        return self._call(fn, cut, inject, lp)

    def prune(self, kind, max_count, cut=0):
        fn = {'trace': lambda: app_zk.cleanup_trace_history(self.zk, max_count),
              'finished': lambda: app_zk.cleanup_finished_history(self.zk, max_count),
              'server': lambda: server_zk.cleanup_server_trace_history(self.zk, max_count)}[kind]
        return self._call(fn, cut, None, lambda: set())

    # -- projection ----------------------------------------------------------
    def _ms(self, seconds):
        return int(round((float(seconds) - T0) * 1000))

    def _event(self, kind, directory, name, data=''):
        inst, ts, _rest = name.split(',', 2)
        return dict(name=name, inst=inst, ts=self._ms(ts),
                    sh=int(directory.rsplit('/', 1)[1], 16), k=-1, data=data or '')

    def _snapshot(self, kind, path):
        raw = self.store.nodes[path].data
        key = (kind, raw)
        hit = self._cache.get(key)
        if hit is not None and hit[0] >= len(self.universe):
            return hit[1], hit[2]
        fd, fname = tempfile.mkstemp(prefix='verif-c18-')
        try:
            with os.fdopen(fd, 'wb') as f:
                f.write(zlib.decompress(raw))
            conn = sqlite3.connect(fname)
            rows = []
            for p, ts, data, directory, name in conn.execute(
                    'SELECT path, timestamp, data, directory, name FROM %s' % TABLE[kind]):
                if kind == 'finished':
                    rec = dict(name=name, inst=name, ts=self._ms(ts), sh=0, k=-1, data=data or '')
                else:
                    rec = self._event(kind, directory, name, data)
                    rec['ts'] = self._ms(ts)          # the stored column, not the name
                rec['pathok'] = bool(p == directory + '/' + name)
                rows.append(rec)
            if kind == 'finished':
                dl = [r[0] for r in conn.execute(FINISHED_READER_SQL)]
            conn.close()
        finally:
            os.unlink(fname)
        if kind != 'finished':
            dl = []
            for obj in sorted(self.universe):
                dl += _zk.download_batch(self.reader, path, TABLE[kind], obj)
        self._cache[key] = (len(self.universe), rows, dl)
        return rows, dl

    def project(self):
        kinds = {}
        for kind in KINDS:
            live = []
            if kind == 'finished':
                for name in self.store.children(z.FINISHED):
                    node = self.store.nodes[z.path.finished(name)]
                    live.append(dict(name=name, inst=name, ts=node.mtime - T0 * 1000, sh=0, k=-1,
                                     data=(node.data or b'').decode()))
            else:
                for shard in self.store.children(ROOT[kind]):
                    d = ROOT[kind] + '/' + shard
                    for name in self.store.children(d):
                        live.append(self._event(kind, d, name))
            snaps = []
            for node in self.store.children(HIST[kind]):
                rows, dl = self._snapshot(kind, HIST[kind] + '/' + node)
                snaps.append(dict(seq=int(node.rsplit('-', 1)[1]), rows=[dict(r) for r in rows],
                                  dl=list(dl)))
            kinds[kind] = dict(live=live, snaps=snaps)
        kinds['finished']['listed'] = app_zk.list_traces(self.reader, '*')
        kinds['trace']['listed'] = []
        kinds['server']['listed'] = []
        return dict(now=self.now_ms, sched=self.store.children(z.SCHEDULED), kinds=kinds)


# ---------------------------------------------------------------------------
class Session:
    """Scratch directory for the code's temporary files (upload_batch leaves its
    NamedTemporaryFile behind when the create fails) - nothing stays in /tmp."""

    def __enter__(self):
        # sqlite commits fsync: a memory file system makes upload_batch 30x faster
        if os.path.isdir('/dev/shm') and os.access('/dev/shm', os.W_OK) \
                and not os.environ.get('VERIF_TMP'):
            self.dir = tempfile.mkdtemp(prefix='verif-c18-tmp-', dir='/dev/shm')
        else:
            self.dir = tlc.scratch('verif-c18-tmp-')
        self._old = tempfile.tempdir
        tempfile.tempdir = self.dir
        return self

    def __exit__(self, *a):
        tempfile.tempdir = self._old
        shutil.rmtree(self.dir, ignore_errors=True)
        return False


class _Refused(kazoo.exceptions.SystemZookeeperError):
    """The injected refusal of one write (a ZooKeeper server error; not in kazoo's retry set)."""


def build(setup):
    w = World()
    for step in setup:
        w.env_step(step)
    return w


def _line(ev, step, res, post):
    line = dict(ev=ev, step=step, post=post,
                kind=step[1] if ev in ('Archive', 'Prune') else '',
                batch=step[2] if ev == 'Archive' else 0,
                expiry=int(round(step[3] * 1000)) if ev == 'Archive' else 0,
                max=step[2] if ev == 'Prune' else 0,
                cut=abs(step[4] if ev == 'Archive' else step[3]) if ev in ('Archive', 'Prune') else 0,
                fault=bool(ev in ('Archive', 'Prune') and (step[4] if ev == 'Archive' else step[3]) < 0),
                crashed=bool(res.get('crashed', False)), nw=int(res.get('nw', 0)),
                injected=bool(ev == 'Archive' and any(it[2][0] != 'Read' for it in step[5])),
                added=res['added'], unsched=res['unsched'], newsched=res['newsched'],
                touched=res['touched'], tick=res['tick'], reads=res.get('reads', []),
                forder=res.get('forder', []))
    return line


def run_steps(world, steps):
    """Execute steps on world; returns the trace lines (without line 1)."""
    lines = []
    for step in steps:
        name = step[0]
        if name == 'Archive':
            res = world.archive(step[1], step[2], step[3], step[4], step[5])
            lines.append(_line('Archive', step, res, world.project()))
        elif name == 'Prune':
            res = world.prune(step[1], step[2], step[3])
            lines.append(_line('Prune', step, res, world.project()))
        else:
            res = world.env_step(step)
            lines.append(_line('Env', step, res, world.project()))
    return lines


def finish_trace(lines):
    """Assign the name ranks `k` over the whole trace and turn `added` name lists
    into event records (taken from wherever the event shows up)."""
    names = set()

    def visit(fn):
        for ln in lines:
            for kind in KINDS:
                ks = ln['post']['kinds'][kind]
                for e in ks['live']:
                    fn(e)
                for s in ks['snaps']:
                    for e in s['rows']:
                        fn(e)
    visit(lambda e: names.add(e['name']))
    rank = {n: i + 1 for i, n in enumerate(sorted(names))}
    visit(lambda e: e.__setitem__('k', rank[e['name']]))
    for ln in lines:
        if 'added' not in ln:
            continue
        recs = {}
        for kind in KINDS:
            out = []
            for n in ln['added'][kind]:
                found = None
                for e in ln['post']['kinds'][kind]['live']:
                    if e['name'] == n:
                        found = e
                for s in ln['post']['kinds'][kind]['snaps']:
                    for e in s['rows']:
                        if e['name'] == n and found is None:
                            found = {x: v for x, v in e.items() if x != 'pathok'}
                if found is None:
                    # published and already gone without a trace: keep the name
                    found = dict(name=n, inst=n.split(',')[0], ts=ln['post']['now'], sh=0,
                                 k=0, data='')
                out.append(found)
            recs[kind] = out
        ln['added'] = recs
    return lines


def replay(history):
    """history -> lines (line 1 = state after setup)."""
    with Session():
        w = build(history['setup'])
        lines = [dict(ev='Init', post=w.project())] + run_steps(w, history['steps'])
    return finish_trace(lines)


def full_writes(world, step):
    """Number of ZooKeeper writes of an uncut run of step on a copy of world."""
    w = world.copy()
    if step[0] == 'Archive':
        return w.archive(step[1], step[2], step[3], 0, None)['nw']
    return w.prune(step[1], step[2], 0)['nw']
