"""Driver of the master-level checks C09 C10 C11 (DESIGN.md section 6):
Master.tla model-checked (every storage write is a step, Crash enabled between
any two), TLC-generated behaviours translated into ZooKeeper-level histories
with crash cuts, replayed on the REAL Master over zkfake, judged by
MasterTrace.tla."""
import collections
import random

from . import core, tlc
from . import master_common as mc

OWN = {'C09': ('C09.',), 'C10': ('C10.',), 'C11': ('C11.',), 'C08': ('C08.',)}
INV = {'C09': ['InvC09'], 'C10': ['InvC10dup', 'InvNoAssert', 'InvC09'], 'C11': ['InvC11']}
RULE = {
    'C09': 'a history counts when a completed cycle or start-up publishes at least one placed instance; distinct = distinct ZooKeeper-level histories',
    'C10': 'a history counts when the master was cut (InjectedCrash at the k-th storage write of reschedule or start-up) and the stored state was then examined / restarted on; distinct = distinct histories incl. the cut index',
    'C11': 'a history counts when a restart finds at least one instance recorded under a healthy server; distinct = distinct histories',
}
ASSUMPTIONS = [
    'real scheduler.master.Master + loader + ZkBackend on an in-memory kazoo-shaped ZooKeeper (harness/zkfake.py)',
    'ZooKeeper-level events are issued only through the real producers in scheduler.masterapi (+ node registration: record update and ephemeral presence node named by the hostname)',
    'watch events are delivered to Master.process one at a time between cycles, as the master own queue serialises them',
    'a crash is an exception injected before the k-th storage write; the Master object is abandoned',
    'virtual, strictly monotonic clock; every created instance gets its own microsecond',
    'Master.tla abstracts the scheduler to "any legal placement"',
]


def mc_cfg(defects=(), max_events=3, max_cycles=2, invariants=()):
    mod = 'MC_Master'
    cfg = ['INIT Init', 'NEXT Next', 'CHECK_DEADLOCK FALSE', 'CONSTANTS', ' Srv <- McSrv',
           ' App <- McApp', ' AppSeq <- McAppSeq', ' SrvSeq <- McSrvSeq', ' Cap = 1',
           ' MaxClock = 2', ' MaxEvents = %d' % max_events, ' MaxCycles = %d' % max_cycles]
    cfg.append(' Defects <- %s' % ({(): 'McNoDefects', ('init_not_two_pass',): 'McDefTwoPass',
                                     ('init_names_only',): 'McDefNames'}[tuple(defects)]))
    for inv in invariants:
        cfg.append('INVARIANT %s' % inv)
    return mod, 'gen_master.cfg', {'gen_master.cfg': '\n'.join(cfg) + '\n'}


def translate(labels, rng, scn):
    """Master.tla behaviour -> L2 history (see module docstring)."""
    hist = []
    nprof = len(scn['aprofiles'])
    i = 0
    up = {s for s, k in scn['server_init'].items() if k}
    while i < len(labels):
        ev, args = labels[i]
        if ev == 'Schedule':
            hist.append(('CreateApp', [args[0], rng.randrange(nprof) + 1]))
        elif ev == 'Unschedule':
            hist.append(('DeleteApp', [args[0]]))
        elif ev == 'NodeDown' and args[0] in up:
            up.discard(args[0])
            hist.append(('NodeDown', [args[0]]))
        elif ev == 'NodeUp' and args[0] not in up:
            up.add(args[0])
            hist.append(('NodeUp', [args[0], rng.randrange(len(scn['sprofiles'])) + 1]))
        elif ev == 'Tick':
            hist.append(('Tick', [rng.choice([1, 2, 3])]))
        elif ev in ('Cycle', 'Restart'):
            k = 0
            j = i + 1
            outcome = 'done'
            while j < len(labels):
                if labels[j][0] == 'PubStep':
                    k += 1
                elif labels[j][0] == 'InitSchedule':
                    pass
                elif labels[j][0] == 'Crash':
                    outcome = 'crash'
                    break
                else:
                    break
                j += 1
            if outcome == 'crash':
                hist.append(('CrashCycle' if ev == 'Cycle' else 'CrashRestart', [k + 1]))
                i = j
            else:
                hist.append((ev, []))
        i += 1
    return hist


def lag_cfg(defects=(), max_events=4, max_cycles=3, invariants=('InvNoDup', 'InvNoAssert', 'InvSettled', 'InvView')):
    """MasterLag.tla (watch latency) on 2 servers x 2 instances."""
    name = 'MC_MasterLagGen'
    mod = ['---- MODULE %s ----' % name, 'EXTENDS MasterLag', 'SrvSeqC == <<"s1", "s2">>',
           'AppSeqC == <<"a1", "a2">>',
           'DefectsC == {%s}' % ', '.join('"%s"' % d for d in defects), '====', '']
    cfg = ['INIT Init', 'NEXT Next', 'CHECK_DEADLOCK FALSE', 'CONSTANTS', ' Srv = {"s1", "s2"}',
           ' App = {"a1", "a2"}', ' SrvSeq <- SrvSeqC', ' AppSeq <- AppSeqC', ' Cap = 2',
           ' MaxEvents = %d' % max_events, ' MaxCycles = %d' % max_cycles, ' Defects <- DefectsC',
           ' StartupRace = FALSE']
    cfg += ['INVARIANT %s' % i for i in invariants]
    return name, name + '.cfg', {name + '.tla': '\n'.join(mod), name + '.cfg': '\n'.join(cfg) + '\n'}


def translate_lag(labels, rng, scn):
    """MasterLag.tla behaviour -> L2 history: nothing is delivered to the master
    unless the behaviour says so; a cycle runs on whatever view it has."""
    hist = [('Defer', [])]
    labels = list(labels)
    nprof, nsp = len(scn['aprofiles']), len(scn['sprofiles'])
    i = 0
    gone = set()
    while i < len(labels):
        ev, args = labels[i]
        if ev == 'Schedule' and args[0] in gone:
            # ZooKeeper gives a re-scheduled application a NEW instance id; the model's
            # finite App set would take it for the old instance: the history ends here
            break
        if ev == 'Schedule':
            hist.append(('CreateApp', [args[0], rng.randrange(nprof) + 1]))
        elif ev == 'Unschedule':
            gone.add(args[0])
            hist.append(('DeleteApp', [args[0]]))
        elif ev == 'AppsEvent':
            hist.append(('SetPrio', [args[0], rng.choice([1, 50, 100])]))
        elif ev == 'DeliverApps':
            hist.append(('DeliverPath', ['events']))
        elif ev in ('NodeDown', 'DeleteServer'):
            hist.append((ev, [args[0]]))
        elif ev in ('NodeUp', 'CreateServer'):
            hist.append((ev, [args[0], rng.randrange(nsp) + 1]))
        elif ev == 'DeliverScheduled':
            hist.append(('DeliverPath', ['scheduled']))
        elif ev == 'DeliverPresence':
            hist.append(('DeliverPath', ['presence']))
        elif ev == 'DeliverServers':
            hist.append(('DeliverPath', ['events']))
        elif ev == 'Crash':
            hist.append(('Kill', []))
        elif ev in ('Cycle', 'Restart'):
            k, j, outcome, during = 0, i + 1, 'done', []
            while j < len(labels):
                if labels[j][0] == 'PubStep':
                    k += 1
                elif labels[j][0] == 'InitSchedule':
                    pass
                elif labels[j][0] == 'Crash':
                    outcome = 'crash'
                    break
                elif labels[j][0] == 'Finish':
                    break
                elif ev == 'Cycle':
                    # the environment acts while the cycle is being published: the
                    # harness publishes in one go, these events follow the cut
                    during.append(labels[j])
                else:
                    break
                j += 1
            if outcome == 'crash':
                hist.append(('StaleCrashCycle' if ev == 'Cycle' else 'CrashRestart', [k + 1]))
                labels = labels[:j + 1] + during + labels[j + 1:]
                i = j
            else:
                hist.append(('StaleCycle' if ev == 'Cycle' else 'Restart', []))
            if ev == 'Restart':
                hist.append(('Defer', []))
        i += 1
    # settle: everything is delivered, one more cycle, then a fail-over
    return hist + [('Deliver', []), ('Cycle', []), ('Restart', []), ('Cycle', [])]


def lag_conformance(ctx, behaviours, rng):
    """MasterLag.tla behaviours replayed on the real Master in the model's own
    constants (scenario 'lag'); every recorded step must be a step of the model
    (MasterLagTrace.tla).  Conformance class: ext.lag.* is DRIFT, not a violation."""
    scn = mc.SCENARIOS['lag']
    hists = [translate_lag(b, rng, scn) for b in behaviours]
    for _ in range(len(behaviours) // 2):
        # (partitions are not part of MasterLag.tla)
        hists.append([(('DeleteServer', e[1]) if e[0] == 'EmptyServer' else e) for e in gen_stale(scn, rng)
                      if e[0] not in ('SetPartition', 'DetachRack')])
    traces = mc.record('lag', hists, slim=True)
    verdicts, stats = mc.validate_lag(traces)
    ctx.cmds.append(stats['cmd'])
    total = sum(len(t['lines']) - 1 for t in traces)
    if len(verdicts) != total:
        raise tlc.MachineryError('lag trace spec judged %d of %d lines' % (len(verdicts), total))
    drift = [v for v in verdicts if v['fail']]
    lost = sum(1 for v in verdicts if 'lost' in v['ex'])
    lagging = sum(1 for v in verdicts if 'lag' in v['ex'])
    cuts = sum(1 for v in verdicts if 'cut' in v['ex'])
    by = {t['tid']: t for t in traces}
    for v in drift[:3]:
        t = by[v['tid']]
        ctx.log('ext.lag drift: %s at step %d (%s%s) of %s' % (
            sorted(v['fail']), v['i'], t['lines'][v['i']]['ev'], t['lines'][v['i']]['args'],
            [list(x) for x in t['history']]))
    ctx.drift += len(drift)
    ctx.extensions = getattr(ctx, 'extensions', {})
    ctx.extensions['watch_latency'] = dict(
        traces=len(traces), lines=total, steps_not_of_model=len(drift), lines_after_mismatch=lost,
        steps_with_undelivered_notifications=lagging, steps_cut_by_crash=cuts)
    ctx.log('lag conformance: %d traces, %d lines, %d not steps of MasterLag.tla, %d taken with '
            'undelivered notifications, %d cut by a crash' % (len(traces), total, len(drift), lagging, cuts))
    if total and lagging == 0:
        raise tlc.MachineryError('lag conformance exercised no step under watch latency')


def with_cuts(hist, rng, ncuts):
    """Variants of a history where one Cycle/Restart is cut at write k."""
    idx = [i for i, (e, _) in enumerate(hist) if e in ('Cycle', 'Restart') and i > 0]
    out = []
    for _ in range(ncuts):
        if not idx:
            break
        i = rng.choice(idx)
        k = rng.randrange(1, 7)
        ev = 'CrashCycle' if hist[i][0] == 'Cycle' else 'CrashRestart'
        out.append(hist[:i] + [(ev, [k]), ('Restart', [])] + hist[i + 1:])
    return out


def all_cuts(hist, maxk=8):
    out = []
    for i, (e, _) in enumerate(hist):
        if e in ('Cycle', 'Restart') and i > 0:
            ev = 'CrashCycle' if e == 'Cycle' else 'CrashRestart'
            for k in range(1, maxk + 1):
                out.append(hist[:i] + [(ev, [k]), ('Restart', [])] + hist[i + 1:])
    return out


def gen_failover(scn, rng):
    """Fail-over histories: instances placed, a server dies (retention may have
    run out), the master dies too; the new master is cut at every start-up write."""
    napps = rng.randrange(1, len(scn['apps']) + 1)
    h = [('CreateApp', [scn['apps'][j], rng.randrange(len(scn['aprofiles'])) + 1])
         for j in range(napps)]
    h.append(('Cycle', []))
    servers = sorted(s for s, k in scn['server_init'].items() if k)
    for s in rng.sample(servers, rng.randrange(1, len(servers))):
        h.append(('NodeDown', [s]))
    if rng.random() < 0.3:
        h.append(('NodeUp', [h[-1][1][0], rng.randrange(len(scn['sprofiles'])) + 1]))
    h.append(('Tick', [rng.choice([3, 6, 6])]))
    if rng.random() < 0.5:
        h.append(('CrashCycle', [rng.randrange(1, 4)]))
    return [h + [('CrashRestart', [k]), ('Restart', [])] for k in range(1, 9)]


def gen_moves(scn, rng):
    """Steady-state moves: instances placed, a server dies and retention runs
    out (or the partition changes), the live master's next cycle moves them and
    is cut at every storage write.  Every server in turn is the one that dies,
    so moves in both directions of any publication order are produced."""
    napps = rng.randrange(1, len(scn['apps']) + 1)
    base = [('CreateApp', [scn['apps'][j], rng.randrange(len(scn['aprofiles'])) + 1])
            for j in range(napps)]
    base.append(('Cycle', []))
    servers = sorted(s for s, k in scn['server_init'].items() if k)
    realloc = [('SetAllocs', [rng.randrange(len(scn['allocsets'])) + 1])] if rng.random() < 0.3 else []
    tick = [('Tick', [rng.choice([3, 6, 6])])]
    out = []
    for s in servers:
        h = base + [('NodeDown', [s])] + realloc + tick
        out += [h + [('CrashCycle', [k]), ('Restart', [])] for k in range(1, 7)]
    # the same with placements that became INVALID on a server that stays (its partition
    # changed, or the allocation document moved the instances to another partition)
    why = rng.choice([[('SetPartition', [rng.choice(servers), rng.choice(['_default', 'pB'])])],
                      [('SetAllocs', [rng.randrange(len(scn['allocsets'])) + 1])]])
    out += [base + why + [('CrashCycle', [k]), ('Restart', [])] for k in range(1, 7)]
    # ... and with a storage ERROR instead of a crash at the k-th write (the master ends
    # on it just the same)
    s = rng.choice(servers)
    out += [base + [('NodeDown', [s])] + tick + [('FaultCycle', [k]), ('Restart', [])] for k in range(1, 7)]
    return out


def gen_stale(scn, rng):
    """Watch latency: the store changes (nodes die, servers are deleted or
    re-created, instances come and go) while the master's watch events are still
    in flight; it publishes a cycle computed on its stale view; then either the
    events arrive and it runs on, or it dies and a new master takes over."""
    apps = list(scn['apps'][:rng.randrange(1, len(scn['apps']) + 1)])
    h = [('CreateApp', [a, rng.randrange(len(scn['aprofiles'])) + 1]) for a in apps]
    if rng.random() < 0.5:
        h.append(('Cycle', []))
    servers = sorted(s for s, k in scn['server_init'].items() if k)
    up, exists = set(servers), set(servers)
    h.append(('Defer', []))
    for _ in range(rng.randrange(1, 4)):
        r = rng.random()
        s = rng.choice(servers)
        if r < 0.45 and s in exists and len(exists) > 1:
            if s in up and rng.random() < 0.7:
                h.append(('NodeDown', [s]))
                up.discard(s)
            if rng.random() < 0.4:
                h.append(('EmptyServer', [s]))     # deleted and half re-created
            else:
                h.append(('DeleteServer', [s]))
            exists.discard(s)
        elif r < 0.6 and s in up:
            h.append(('NodeDown', [s]))
            up.discard(s)
        elif r < 0.7 and s not in exists:
            h.append(('CreateServer', [s, rng.randrange(len(scn['sprofiles'])) + 1]))
            exists.add(s)
        elif r < 0.8 and apps:
            h.append(('DeleteApp', [apps.pop(rng.randrange(len(apps)))]))
        elif r < 0.87 and s in exists:
            h.append(('SetPartition', [s, rng.choice(['_default', 'pB'])]))
        elif r < 0.94:
            h.append(('DetachRack', [rng.choice(sorted(scn['racks']))]))
        else:
            h.append(('Tick', [rng.choice([1, 6])]))
    h.append(('StaleCycle', []))
    tail = rng.choice([[('Restart', [])],
                       [('Deliver', []), ('Cycle', []), ('Restart', [])],
                       [('Deliver', []), ('Cycle', []), ('Cycle', [])],
                       [('CrashRestart', [rng.randrange(1, 6)]), ('Restart', [])],
                       [('Deliver', []), ('CrashCycle', [rng.randrange(1, 4)]), ('Restart', [])]])
    return h + tail + [('Cycle', [])]


def gen_lease_failover(scn, rng):
    """Long leases against reboot dates: instances with a multi-day lease are
    placed, days pass (the lease is still running, the servers' reboot dates come
    within a lease length), the master fails over."""
    leased = [i + 1 for i, p in enumerate(scn['aprofiles']) if str(p.get('lease', '')).endswith('d')]
    other = [i + 1 for i in range(len(scn['aprofiles'])) if i + 1 not in leased]
    h = []
    for j, a in enumerate(scn['apps'][:rng.randrange(1, len(scn['apps']) + 1)]):
        h.append(('CreateApp', [a, rng.choice(leased) if j == 0 or rng.random() < 0.5 else rng.choice(other)]))
    h.append(('Cycle', []))
    if rng.random() < 0.3:
        servers = sorted(s for s, k in scn['server_init'].items() if k)
        h.append(('ServerState', [rng.choice(servers), 'frozen', []]))
    h.append(('Tick', [rng.choice([14, 15, 16, 17, 18]) * 86400]))
    if rng.random() < 0.5:
        h.append(('Cycle', []))
    h.append(('Restart', []))
    h.append(('Cycle', []))
    return h


def run(ctx, prop):
    me, mcyc = (4, 3) if ctx.quick else (5, 3)
    mod, cfg, files = mc_cfg(max_events=me, max_cycles=mcyc, invariants=INV[prop])
    res = tlc.mc(mc.SPEC_DIR, mod, cfg, extra_files=files, coverage=True,
                 timeout=200 if ctx.quick else 1500)
    ctx.add_mc('Master.tla 2 servers 2 instances events<=%d cycles+restarts<=%d' % (me, mcyc), res,
               need_actions=['Crash', 'PubStep', 'Restart', 'Cycle', 'InitSchedule'])
    if prop == 'C09':
        # extension beyond the listed properties: Master._check_pending_start
        pres = tlc.mc(mc.SPEC_DIR, 'MC_PendingStart', 'MC_PendingStart.cfg', coverage=True, workers=4,
                      extra_cfg_text='CONSTANT MaxClock = %d' % (500 if ctx.quick else 900),
                      timeout=200 if ctx.quick else 900)
        ctx.add_mc('PendingStart.tla (extension: _check_pending_start)', pres,
                   need_actions=['Check', 'Run', 'Tick'])
        if pres['violated']:
            ctx.log('PendingStart.tla: %s violated in the MODEL' % pres['violated'])
    if prop in ('C10', 'C09'):
        # watch latency (MasterLag.tla): cycles on a view that lags the store
        lme, lmc = (5, 4) if ctx.quick else (7, 6)
        lmod, lcfg, lfiles = lag_cfg(max_events=lme, max_cycles=lmc)
        lres = tlc.mc(mc.SPEC_DIR, lmod, lcfg, extra_files=lfiles, coverage=True,
                      timeout=300 if ctx.quick else 2400)
        ctx.add_mc('MasterLag.tla (watch latency) 2 servers 2 instances events<=%d cycles+restarts<=%d'
                   % (lme, lmc), lres,
                   need_actions=['DeliverScheduled', 'DeliverPresence', 'DeliverServers', 'DeliverApps',
                                 'AppsEvent', 'DeleteServer',
                                 'CreateServer', 'Cycle', 'PubStep', 'Finish', 'Crash', 'Restart',
                                 'InitSchedule'])
        if lres['violated']:
            ctx.log('MasterLag.tla: %s violated in the MODEL' % lres['violated'])
    hist = []
    scn = mc.SCENARIOS['base']
    if res['violated']:
        ctx.log('model invariant %s violated; counterexample is replayed on the code' % res['violated'])
        labels = [(a, tlc.tlaval.split_args(b)) for a, b in res['cex'] if a != 'Initial']
        hist.append(('cex', translate(labels, random.Random(ctx.seed), scn) + [('Restart', [])]))
    gmod, gcfg, gfiles = mc_cfg(max_events=7, max_cycles=4)
    behaviours, cmd = tlc.simulate(mc.SPEC_DIR, gmod, gcfg, num=80 if ctx.quick else 2500,
                                   depth=24, seed=ctx.seed, procs=6 if ctx.quick else 12,
                                   extra_files=gfiles, timeout=120 if ctx.quick else 900)
    ctx.cmds.append(cmd)
    rng = random.Random(ctx.seed * 104729)
    for b in behaviours:
        h = translate(b, rng, scn)
        if h and h[-1][0] not in ('Restart',):
            h.append(('Restart', []))
        hist.append(('tlc', h))
    for _ in range(300 if ctx.quick else 3000):
        h = mc.gen_random(scn, rng, rng.choice([8, 12, 16]), topology=True)
        hist.append(('rnd', h))
        if prop == 'C10' or not ctx.quick:
            for hc in (with_cuts(h, rng, 2) if ctx.quick else with_cuts(h, rng, 4)):
                hist.append(('rnd-cut', hc))
    for _ in range(120 if ctx.quick else 1500):
        hist.append(('identity', mc.gen_identity(scn, rng, rng.choice([4, 6, 9]))))
    for _ in range(80 if ctx.quick else 1000):
        hist.append(('servers', mc.gen_servers(scn, rng, rng.choice([5, 8, 12]))))
    for _ in range(120 if ctx.quick else 1500):
        hist.append(('defer', mc.gen_defer(scn, rng)))
    for _ in range(80 if ctx.quick else 1000):
        hist.append(('topology', mc.gen_topology(scn, rng)))
    for _ in range(60 if ctx.quick else 800):
        hist.append(('resize-down', mc.gen_resize_down(scn, rng)))
    if prop in ('C11', 'C09'):
        for _ in range(40 if ctx.quick else 600):
            hist.append(('lease-failover', gen_lease_failover(scn, rng)))
    if prop == 'C09':
        for _ in range(60 if ctx.quick else 800):
            hist.append(('pending', mc.gen_pending(scn, rng, rng.choice([6, 10]))))
    if prop == 'C09':
        for _ in range(100 if ctx.quick else 1500):
            hist.append(('stale', gen_stale(scn, rng)))
    if prop == 'C10':
        for _ in range(30 if ctx.quick else 300):
            for hc in gen_failover(scn, rng):
                hist.append(('failover', hc))
        for _ in range(16 if ctx.quick else 300):
            for hc in gen_moves(scn, rng):
                hist.append(('moves', hc))
        for _ in range(150 if ctx.quick else 3000):
            hist.append(('stale', gen_stale(scn, rng)))
        # a new master on a store with stale-view leftovers, cut at every start-up write
        for _ in range(25 if ctx.quick else 400):
            h = gen_stale(scn, rng)
            k0 = next(i for i, e in enumerate(h) if e[0] == 'StaleCycle')
            for k in range(1, 13):
                hist.append(('stale-cuts', h[:k0 + 1] + [('CrashRestart', [k]), ('Restart', []), ('Cycle', [])]))
    if prop in ('C10', 'C09'):
        gmod2, gcfg2, gfiles2 = lag_cfg(max_events=7, max_cycles=4, invariants=())
        lb, lcmd = tlc.simulate(mc.SPEC_DIR, gmod2, gcfg2, num=120 if ctx.quick else 3000,
                                depth=26, seed=ctx.seed + 11, procs=6 if ctx.quick else 12,
                                extra_files=gfiles2, timeout=120 if ctx.quick else 900)
        ctx.cmds.append(lcmd)
        for b in lb:
            hist.append(('tlc-lag', translate_lag(b, rng, scn)))
        lag_conformance(ctx, lb, rng)
    if prop == 'C10' and not ctx.quick:
        for src, h in list(hist)[:150]:
            for hc in all_cuts(h):
                hist.append((src + '-allcuts', hc))
    ctx.log('%d histories' % len(hist))
    traces = mc.record('base', [h for _, h in hist], slim=True)
    for (src, _), t in zip(hist, traces):
        t['src'] = src
    if prop in ('C11', 'C09'):
        # traits learnt from servers (not in the cell's trait list) that manifests and
        # allocations require: fail-overs must keep what is placed on them
        dscn = mc.SCENARIOS['dup']
        dh = [mc.gen_servers(dscn, rng, rng.choice([4, 6])) if k % 2 else mc.gen_allocs(dscn, rng, 3)
              for k in range(40 if ctx.quick else 500)]
        dt = mc.record('dup', dh, slim=True)
        for t in dt:
            t['src'] = 'dup'
        traces += dt
        hh = [mc.gen_hetero(mc.SCENARIOS['hetero'], rng) for _ in range(60 if ctx.quick else 800)]
        ht = mc.record('hetero', hh, slim=True)
        for t in ht:
            t['src'] = 'hetero'
        traces += ht
    ctx.log('recorded %d traces, %d lines' % (len(traces), sum(len(t['lines']) for t in traces)))
    verdicts, stats = mc.validate(traces, timeout=600 if ctx.quick else 3000)
    ctx.cmds.append(stats['cmd'])
    total = sum(len(t['lines']) - 1 for t in traces)
    if len(verdicts) != total:
        raise tlc.MachineryError('trace spec judged %d of %d lines' % (len(verdicts), total))
    return judge(ctx, prop, traces, verdicts)


def judge(ctx, prop, traces, verdicts):
    by_tid = {t['tid']: t for t in traces}
    violations, nontrivial, evaluations = [], set(), 0
    for v in verdicts:
        t = by_tid[v['tid']]
        fails = set(v['fail'])
        if 'exc' in fails:
            ctx.skipped += 1
        if any(f.startswith('ext.') for f in fails):
            ctx.drift += 1
        evaluations += 1
        if prop in v['ex']:
            nontrivial.add(core.hist_hash(t['history']))
        for f in sorted(fails):
            if f.startswith(OWN[prop]):
                line = t['lines'][v['i']]
                violations.append(dict(
                    clause=f, signature=f,
                    what='after %s%s at step %d of %s %s' % (line['ev'], line['args'], v['i'], t['tid'],
                                                             line.get('exc', '')),
                    replay_payload=dict(kind='master_l2', property=prop, clause=f, scenario=t['tid'].split(':')[0],
                                        history=t['history'][:v['i']], failed_step=v['i'])))
    samples = []
    for t in traces:
        if core.hist_hash(t['history']) in nontrivial:
            samples.append(dict(trace=t['tid'], source=t.get('src'),
                                history=['%s%s' % (e, a) for e, a in t['history']]))
        if len(samples) >= 3:
            break
    if not samples and traces:
        samples.append(dict(trace=traces[0]['tid'], history=[str(x) for x in traces[0]['history']]))
    if ctx.drift:
        print('DRIFT: %d recorded steps of behaviour modelled beyond the listed properties '
              '(PendingStart.tla, MasterLag.tla) are not steps of the model (spec needs updating; '
              'not a violation)' % ctx.drift)
    if ctx.skipped:
        print('NOTE: %d steps raised an exception outside start-up (counted as skipped)' % ctx.skipped)
    return core.conclude(
        ctx, level='model_checking', violations=violations, evaluations=evaluations,
        distinct_nontrivial=len(nontrivial), rule=RULE[prop], samples=samples,
        traces_validated=len(traces), assumptions=ASSUMPTIONS,
        extra=dict(trace_sources=dict(collections.Counter(t.get('src') for t in traces)),
                   extensions=getattr(ctx, 'extensions', {})))


def replay(ctx, prop, path):
    import json
    payload = json.load(open(path))
    h = [tuple(x) for x in payload['history']]
    h.append(('Restart', []))
    traces = mc.record(payload.get('scenario', 'base'), [h])
    verdicts, _ = mc.validate(traces)
    return judge(ctx, prop, traces, verdicts)


def selftest(ctx, prop):
    """(a) Master.tla with a defect switched on must violate the invariant;
    (b) every seeded change for this property must make the check exit 1."""
    import glob
    import json
    import os
    import subprocess
    ok = True
    for defects, inv in {'C09': [(('init_names_only',), 'InvC09')], 'C10': [(('init_not_two_pass',), 'InvC10dup')],
                         'C11': []}[prop]:
        mod, cfg, files = mc_cfg(defects=defects, max_events=4, max_cycles=3, invariants=[inv])
        res = tlc.mc(mc.SPEC_DIR, mod, cfg, extra_files=files, coverage=False, timeout=600)
        good = res['violated'] == inv
        ok = ok and good
        print('selftest model defect %-20s -> %s' % (defects[0], 'counterexample of %s in %d steps' % (inv, len(res['cex']))
                                                     if good else 'NOT DETECTED'))
    if prop == 'C10':
        # MasterLag.tla: each repaired watch-latency defect, switched on, is found
        for defects, inv in [(('init_known_only',), 'InvSettled'), (('drop_no_withdraw',), 'InvNoDup'),
                             (('integrity_first_seen', 'init_known_only'), 'InvNoAssert'),
                             (('apps_event_no_unpublish',), 'InvSettled')]:
            mod, cfg, files = lag_cfg(defects=defects, invariants=[inv])
            res = tlc.mc(mc.SPEC_DIR, mod, cfg, extra_files=files, coverage=False, timeout=600)
            good = res['violated'] == inv
            ok = ok and good
            print('selftest lag model defect %-40s -> %s' % (
                '+'.join(defects), 'counterexample of %s in %d steps' % (inv, len(res['cex']))
                if good else 'NOT DETECTED'))
        # binding: a recorded lag trace with one corrupted observation is rejected
        rng = random.Random(7)
        scn = mc.SCENARIOS['lag']
        traces = mc.record('lag', [[(('DeleteServer', e[1]) if e[0] == 'EmptyServer' else e)
                                    for e in gen_stale(scn, rng) if e[0] not in ('SetPartition', 'DetachRack')]
                                   for _ in range(12)])
        clean, _ = mc.validate_lag(traces)
        import copy
        bad = copy.deepcopy(traces)
        hit = 0
        for t in bad:
            for l in t['lines'][1:]:
                if l['ev'] in ('StaleCycle', 'Cycle') and 'exc' not in l and l['obs']['alive'] \
                        and any(l['obs']['pl'].values()):
                    srv = next(s for s, v in l['obs']['pl'].items() if v)
                    l['obs']['pl'][srv] = []          # a placement entry the master never withdrew
                    hit += 1
                    break
        dirty, _ = mc.validate_lag(bad)
        n_clean = sum(1 for v in clean if v['fail'])
        n_bad = len({v['tid'] for v in dirty if 'ext.lag.step' in v['fail']})
        good = n_clean == 0 and hit > 0 and n_bad == hit
        ok = ok and good
        print('selftest lag binding: %d clean traces -> %d rejected steps; %d traces with one corrupted '
              'observation -> %d rejected (%s)' % (len(traces), n_clean, hit, n_bad, 'ok' if good else 'FAILED'))
    for d in sorted(glob.glob(os.path.join(core.VERIF, 'seeded', prop + '-*'))):
        if not os.path.exists(os.path.join(d, 'patch.diff')):
            continue
        subprocess.run([os.path.join(core.VERIF, 'tools_seeded.py'), 'eval', d],
                       stdout=subprocess.PIPE, stderr=subprocess.STDOUT)
        hist = json.load(open(os.path.join(d, 'results.json')))
        rc = list(hist[-1]['checks'].values())[0]['exit'] if hist and hist[-1].get('checks') else None
        print('selftest seeded change %-22s -> check exit %s' % (os.path.basename(d), rc))
        ok = ok and rc == 1
    print('selftest %s' % ('passed' if ok else 'FAILED'))
    return 0 if ok else 1
