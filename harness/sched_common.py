"""Shared machinery of the scheduler-level checks (C01 C03 C04 C05 C07 C08):
scenarios, rendering a scenario into MC_*.tla constants, history sources
(TLC -simulate on Sched.tla, plus a seeded random generator that goes beyond the
model-checked constants), recording on the real code and batched validation."""
import json
import os
import random

from . import core, tlc, sched_l1

SPEC_DIR = os.path.join(core.SPECS, 'sched')


# ---------------------------------------------------------------------------
# scenarios
def _ap(demand, prio=1, aff='web', limits=None, alloc='x', group='', lease=0,
        retention=0, once=False, traits=()):
    return dict(demand=list(demand), prio=prio, aff=aff, limits=dict(limits or {}),
                alloc=alloc, group=group, lease=lease, retention=retention,
                once=once, traits=list(traits))


def _sp(cap, label='pA', traits=(), vu=50):
    return dict(cap=list(cap), label=label, traits=list(traits), vu=vu)


def _al(label='pA', rank=100, adj=0, reserved=(0, 0), maxutil=None, traits=()):
    return dict(label=label, rank=rank, adj=adj, reserved=list(reserved), maxutil=maxutil,
                traits=list(traits))


SCENARIOS = {
    # capacity pressure, two partitions, traits, identity group, leases
    'base': dict(
        dims=2, racks={'r1': ['s1', 's2'], 'r2': ['s3']}, pods={},
        sprofiles=[_sp([2, 2]), _sp([3, 1], traits=['t1']), _sp([2, 2], label='pB', vu=6),
                   _sp([1, 3], vu=4)],
        server_init={'s1': 1, 's2': 2, 's3': 3},
        allocs={'x': _al(), 'y': _al(rank=90, reserved=(1, 1), adj=10),
                'z': _al(label='pB'), 'w': _al(maxutil=1, reserved=(1, 1), traits=['t1'])},
        aprofiles=[_ap([1, 1]), _ap([2, 1], prio=5, alloc='y'),
                   _ap([1, 2], prio=0, retention=2, group='g1'),
                   _ap([1, 1], alloc='z', lease=3, retention=None),
                   _ap([1, 1], alloc='w', traits=['t1'], prio=2),
                   _ap([2, 2], prio=9, aff='db', group='g1', once=True, lease=2)],
        groups={'g1': 2}, apps=['a1', 'a2', 'a3', 'a4', 'a5']),
    # affinity limits at every level under eviction pressure
    'affinity': dict(
        dims=2, racks={'r1': ['s1', 's2'], 'r2': ['s3', 's4']}, pods={'p1': ['r1'], 'p2': ['r2']},
        sprofiles=[_sp([1, 1]), _sp([2, 2])],
        server_init={'s1': 1, 's2': 1, 's3': 2, 's4': 1},
        allocs={'x': _al(), 'y': _al(rank=90)},
        aprofiles=[_ap([1, 1], aff='low', prio=1),
                   _ap([1, 1], aff='web', prio=5, limits={'rack': 1}, alloc='y'),
                   _ap([1, 1], aff='web', prio=5, limits={'rack': 1}),
                   _ap([1, 1], aff='db', prio=7, limits={'server': 1, 'pod': 1, 'cell': 2}),
                   _ap([2, 2], aff='low', prio=3),
                   _ap([1, 1], aff='cache', prio=9, limits={'cell': 1})],
        groups={}, apps=['a1', 'a2', 'a3', 'a4', 'a5', 'a6']),
    # every server filled by low-priority instances, then several instances with
    # affinity limits arrive together and can only evict their way in
    'evict': dict(
        dims=2, racks={'r1': ['s1', 's2'], 'r2': ['s3', 's4']}, pods={'p1': ['r1', 'r2']},
        sprofiles=[_sp([1, 1]), _sp([2, 2])],
        server_init={'s1': 1, 's2': 1, 's3': 1, 's4': 1},
        allocs={'x': _al(), 'y': _al(rank=90)},
        aprofiles=[_ap([1, 1], aff='low', prio=1),
                   _ap([1, 1], aff='web', prio=5, limits={'rack': 1}),
                   _ap([1, 1], aff='db', prio=7, limits={'pod': 1}),
                   _ap([1, 1], aff='kv', prio=6, limits={'rack': 1, 'cell': 2}, alloc='y'),
                   _ap([1, 1], aff='bg', prio=2),
                   # one affinity at two priorities, limited per SERVER: the higher one
                   # can only take the lower one's place
                   _ap([1, 1], aff='idx', prio=4, limits={'server': 1, 'rack': 2}),
                   _ap([1, 1], aff='idx', prio=8, limits={'server': 1, 'rack': 2})],
        groups={}, apps=['a1', 'a2', 'a3', 'a4', 'a5', 'a6', 'a7']),
    # the same with roomy servers: limits, not capacity, are what is scarce
    'evict2': dict(
        dims=2, racks={'r1': ['s1', 's2'], 'r2': ['s3', 's4']}, pods={'p1': ['r1', 'r2']},
        sprofiles=[_sp([3, 3])],
        server_init={'s1': 1, 's2': 1, 's3': 1, 's4': 1},
        allocs={'x': _al()},
        aprofiles=[_ap([1, 1], aff='low', prio=1),
                   _ap([1, 1], aff='idx', prio=4, limits={'server': 1, 'rack': 2}),
                   _ap([1, 1], aff='idx', prio=8, limits={'server': 1, 'rack': 2}),
                   _ap([1, 1], aff='web', prio=3, limits={'server': 1}),
                   _ap([1, 1], aff='web', prio=9, limits={'server': 1})],
        groups={}, apps=['a1', 'a2', 'a3', 'a4', 'a5', 'a6', 'a7']),
    # racks that hold a single roomy server: the rack limit is the binding one
    'solo': dict(
        dims=2, racks={'r1': ['s1'], 'r2': ['s2'], 'r3': ['s3', 's4']}, pods={'p1': ['r1', 'r2'], 'p2': ['r3']},
        sprofiles=[_sp([3, 3])],
        server_init={'s1': 1, 's2': 1, 's3': 1, 's4': 0},
        allocs={'x': _al()},
        aprofiles=[_ap([1, 1], aff='web', prio=5, limits={'rack': 1}),
                   _ap([1, 1], aff='db', prio=6, limits={'rack': 2, 'pod': 2}),
                   _ap([1, 1], aff='kv', prio=4, limits={'pod': 1}),
                   _ap([1, 1], aff='low', prio=1),
                   # the boundary value: a limit of 0 on a level means "nowhere"
                   _ap([1, 1], aff='nil', prio=7, limits={'rack': 0})],
        groups={}, apps=['a1', 'a2', 'a3', 'a4', 'a5', 'a6']),
    # mixed sizes: an eviction that does not help (the victim's server stays too full)
    # followed by one that does, within one rack limit
    'evict3': dict(
        dims=2, racks={'r1': ['s1', 's2'], 'r2': ['s3']}, pods={},
        sprofiles=[_sp([3, 3])],
        server_init={'s1': 1, 's2': 1, 's3': 0},
        allocs={'x': _al()},
        aprofiles=[_ap([1, 1], aff='idx', prio=1, limits={'rack': 1}),
                   _ap([2, 2], aff='idx', prio=8, limits={'rack': 1}),
                   _ap([2, 2], aff='big', prio=9),
                   _ap([2, 2], aff='low', prio=2),
                   _ap([1, 1], aff='low', prio=3)],
        groups={}, apps=['a1', 'a2', 'a3', 'a4', 'a5', 'a6']),
    # the same at cell level with a third, smaller server that appears later
    'evict4': dict(
        dims=2, racks={'r1': ['s1', 's2', 's3']}, pods={},
        sprofiles=[_sp([10, 10]), _sp([6, 6])],
        server_init={'s1': 1, 's2': 1, 's3': 0},
        allocs={'x': _al()},
        aprofiles=[_ap([8, 8], aff='h', prio=100),
                   _ap([2, 2], aff='x', prio=100, limits={'cell': 2}),
                   _ap([6, 6], aff='y', prio=2),
                   _ap([2, 2], aff='x', prio=1, limits={'cell': 2}),
                   _ap([6, 6], aff='x', prio=50, limits={'cell': 2})],
        groups={}, apps=['a1', 'a2', 'a3', 'a4', 'a5', 'a6']),
    # identities: grow, shrink, delete, blacklist, schedule-once
    'identity': dict(
        dims=2, racks={'r1': ['s1', 's2']}, pods={},
        sprofiles=[_sp([2, 2]), _sp([1, 1])],
        server_init={'s1': 1, 's2': 2},
        allocs={'x': _al(), 'y': _al(rank=90), 'c': _al(maxutil=1, reserved=(1, 1))},
        aprofiles=[_ap([1, 1], group='g1'), _ap([1, 1], group='g1', prio=5, alloc='y'),
                   _ap([2, 2], group='g1', prio=3), _ap([1, 1], group='g2', once=True),
                   _ap([1, 1], group='g1', traits=['t1']),
                   _ap([1, 1], group='g1', alloc='c', prio=2), _ap([1, 1], group='g1', alloc='c', prio=8)],
        groups={'g1': 2, 'g2': 1}, apps=['a1', 'a2', 'a3', 'a4', 'a5']),
    # down / frozen / retention against the clock
    'failure': dict(
        dims=2, racks={'r1': ['s1'], 'r2': ['s2', 's3']}, pods={},
        sprofiles=[_sp([2, 2]), _sp([1, 1])],
        server_init={'s1': 1, 's2': 1, 's3': 2},
        allocs={'x': _al(), 'y': _al(rank=90), 'w': _al(maxutil=1, reserved=(1, 1))},
        aprofiles=[_ap([1, 1], retention=2), _ap([1, 1], retention=None, prio=5, alloc='y'),
                   _ap([2, 2], retention=3, prio=3), _ap([1, 1], retention=0, alloc='w'),
                   _ap([1, 1], retention=1, prio=0)],
        groups={}, apps=['a1', 'a2', 'a3', 'a4', 'a5']),
}


SCENARIOS['queue'] = dict(
    dims=2, racks={'r1': ['s1', 's2'], 'r2': ['s3']}, pods={},
    sprofiles=[_sp([2, 2]), _sp([3, 3])],
    server_init={'s1': 1, 's2': 1, 's3': 2},
    allocs={'t': _al(reserved=(1, 1)), 't/x': _al(rank=90, adj=10, reserved=(2, 1)),
            't/y': _al(maxutil=1, reserved=(1, 1)), 'u': _al(maxutil=2, reserved=(1, 1), adj=20),
            't/z': _al(maxutil=0, reserved=(1, 1)),
            'u/v/w': _al(rank=80, reserved=(0, 0))},
    aprofiles=[_ap([1, 1], prio=5, alloc='t/x'), _ap([1, 1], prio=1, alloc='t/x'),
               _ap([1, 1], prio=0, alloc='t/x'), _ap([1, 1], prio=3, alloc='t/y'),
               _ap([1, 1], prio=2, alloc='u'), _ap([2, 1], prio=7, alloc='t'),
               _ap([1, 1], prio=0, alloc='u/v/w'), _ap([1, 2], prio=4, alloc='u/v/w'),
               _ap([1, 1], prio=6, alloc='t/z')],
    groups={}, apps=['a1', 'a2', 'a3', 'a4', 'a5', 'a6'])


SCENARIOS['topology'] = dict(
    dims=2, racks={'r1': ['s1', 's2'], 'r2': ['s3'], 'r3': ['s4']}, pods={'p1': ['r1', 'r2'], 'p2': ['r3']},
    sprofiles=[_sp([2, 2]), _sp([2, 2], traits=['t1']), _sp([3, 3], label='pB', vu=5),
               _sp([1, 1], traits=['t1', 't2'], vu=3)],
    server_init={'s1': 1, 's2': 2, 's3': 3, 's4': 1},
    allocs={'x': _al(), 'y': _al(traits=['t1']), 'z': _al(label='pB')},
    aprofiles=[_ap([1, 1]), _ap([1, 1], traits=['t2']), _ap([1, 1], alloc='y'),
               _ap([2, 2], traits=['t1']), _ap([1, 1], alloc='z', lease=2),
               _ap([1, 1], aff='lim', limits={'rack': 1, 'pod': 2}), _ap([1, 1], group='g1', prio=3),
               _ap([2, 1], alloc='z', lease=4)],
    groups={'g1': 1}, apps=['a1', 'a2', 'a3', 'a4', 'a5', 'a6'])


# leases against reboot dates: shapes coincide, so an evictor that fails leaves
# the tracker primed for its victims
SCENARIOS['lease'] = dict(
    dims=2, racks={'r1': ['s1', 's2']}, pods={},
    sprofiles=[_sp([2, 2], vu=6), _sp([1, 1], vu=9), _sp([2, 2], vu=4)],
    server_init={'s1': 1, 's2': 2},
    allocs={'x': _al(), 'y': _al(rank=90)},
    aprofiles=[_ap([1, 1], lease=3), _ap([1, 1], lease=3, prio=5), _ap([1, 1], lease=0, prio=1),
               _ap([1, 1], lease=5, prio=3, alloc='y'), _ap([2, 2], lease=3, prio=7)],
    groups={}, apps=['a1', 'a2', 'a3', 'a4', 'a5'])

# the same allocation path in two partitions (allocation names do not carry the partition)
SCENARIOS['twins'] = dict(
    dims=2, racks={'r1': ['s1', 's2'], 'r2': ['s3']}, pods={},
    sprofiles=[_sp([2, 2]), _sp([2, 2], label='pB'), _sp([2, 2], traits=['t1'])],
    server_init={'s1': 1, 's2': 2, 's3': 3},
    allocs={'x': _al(), 'x@pB': _al(label='pB'), 't/y': _al(traits=['t1']), 't/y@pB': _al(label='pB')},
    aprofiles=[_ap([1, 1]), _ap([1, 1], alloc='x@pB'), _ap([1, 1], alloc='t/y', prio=3),
               _ap([1, 1], alloc='t/y@pB', prio=2), _ap([2, 1], traits=['t1'])],
    groups={}, apps=['a1', 'a2', 'a3', 'a4'])


# incomparable unplaceable demands of one shape ahead of a probe that fits
SCENARIOS['tracker'] = dict(
    dims=2, racks={'r1': ['s1', 's2']}, pods={},
    sprofiles=[_sp([2, 2]), _sp([3, 2])],
    server_init={'s1': 1, 's2': 1},
    allocs={'x': _al()},
    aprofiles=[_ap([3, 1], prio=9), _ap([1, 3], prio=8), _ap([2, 2]), _ap([1, 1]), _ap([4, 1], prio=7),
               _ap([2, 1], prio=2)],
    groups={}, apps=['a1', 'a2', 'a3', 'a4', 'a5', 'a6'])


# several servers offering the same traits under one rack / the cell: aggregated
# trait sets must survive the removal of whichever child was added first
SCENARIOS['traits'] = dict(
    dims=2, racks={'r1': ['s1', 's2', 's3'], 'r2': ['s4']}, pods={},
    sprofiles=[_sp([2, 2], traits=['t1']), _sp([2, 2], traits=['t1', 't2']), _sp([2, 2], traits=['t2']),
               _sp([2, 2])],
    server_init={'s1': 1, 's2': 1, 's3': 2, 's4': 3},
    allocs={'x': _al(), 'y': _al(traits=['t2'])},
    aprofiles=[_ap([1, 1], traits=['t1']), _ap([1, 1], traits=['t2']), _ap([1, 1], traits=['t1', 't2']),
               _ap([1, 1], alloc='y'), _ap([2, 2], traits=['t1'], prio=4)],
    groups={}, apps=['a1', 'a2', 'a3', 'a4', 'a5'])

# large quantities (2T disks in MB): comparisons must be exact, not "close"
SCENARIOS['huge'] = dict(
    dims=2, racks={'r1': ['s1', 's2']}, pods={},
    sprofiles=[_sp([2097152, 400]), _sp([1048576, 400])],
    server_init={'s1': 1, 's2': 2},
    allocs={'x': _al()},
    aprofiles=[_ap([2097160, 100]), _ap([1048580, 100]), _ap([1048576, 100]), _ap([1048572, 100]),
               _ap([4, 100]), _ap([2097152, 100], prio=5)],
    groups={}, apps=['a1', 'a2', 'a3', 'a4', 'a5'])


def probeify(hist, rng, scn):
    """C02: turn `Cycle, Submit(a,p), Cycle` into `Cycle, Quiesce, Probe(a,p)` and
    end every history with a probe of a not yet used instance name."""
    out = []
    i = 0
    used = set()
    while i < len(hist):
        ev, args = hist[i]
        if ev in ('Submit', 'Probe'):
            used.add(args[0])
        if ev == 'RemoveApp':
            used.discard(args[0])
        if (ev == 'Submit' and out and out[-1][0] in ('Cycle', 'Probe')
                and i + 1 < len(hist) and hist[i + 1][0] == 'Cycle'):
            out.append(('Quiesce', []))
            out.append(('Probe', list(args)))
            i += 2
            continue
        out.append((ev, args))
        i += 1
    free = [a for a in scn['apps'] if a not in used]
    if free:
        out.append(('Quiesce', []))
        out.append(('Probe', [free[0], rng.randrange(len(scn['aprofiles'])) + 1]))
    return out


def gen_queue_scn(rng, name):
    """A random allocation tree (depth <= 3) with random reservations, ranks,
    adjustments and caps, and instance profiles spread over it."""
    paths = []
    for top in rng.sample(['t', 'u', 'v'], rng.randrange(1, 4)):
        paths.append(top)
        for mid in rng.sample(['x', 'y'], rng.randrange(0, 3)):
            paths.append(top + '/' + mid)
            if rng.random() < 0.4:
                paths.append(top + '/' + mid + '/w')
    allocs = {}
    for p in paths:
        # (ranks and adjustments over the whole legal range 0..100: an adjustment may exceed the rank)
        allocs[p] = _al(rank=rng.choice([0, 10, 80, 90, 100, 100]), adj=rng.choice([0, 0, 10, 20, 30]),
                        reserved=(rng.randrange(0, 4), rng.randrange(0, 4)),
                        maxutil=rng.choice([None, None, 0, 1, 2, 3]))
    profiles = []
    for _ in range(8):
        profiles.append(_ap([rng.randrange(0, 3), rng.randrange(1, 3)], prio=rng.choice([0, 0, 1, 2, 5, 9]),
                            alloc=rng.choice(paths), aff=rng.choice(['web', 'db'])))
    scn = dict(dims=2, racks={'r1': ['s1', 's2'], 'r2': ['s3']}, pods={},
               sprofiles=[_sp([rng.randrange(1, 5), rng.randrange(1, 5)]), _sp([3, 3])],
               server_init={'s1': 1, 's2': 1, 's3': 2}, allocs=allocs, aprofiles=profiles,
               groups={}, apps=['a%d' % i for i in range(1, 9)])
    SCENARIOS[name] = scn
    return scn


def norm_scn(scn):
    """The header logged with every trace (no nulls, sets as arrays)."""
    sparent = {s: r for r, ss in scn['racks'].items() for s in ss}

    def ap(p):
        return dict(demand=p['demand'], prio=p['prio'], aff=p['aff'], limits=p['limits'],
                    alloc=p['alloc'], group=p['group'] or '', lease=p['lease'],
                    retention=-1 if p['retention'] is None else p['retention'],
                    once=bool(p['once']), traits=sorted(p['traits']))
    return dict(
        aprofiles=[ap(p) for p in scn['aprofiles']],
        sprofiles=[dict(cap=p['cap'], label=p['label'], traits=sorted(p['traits']), vu=p['vu'])
                   for p in scn['sprofiles']],
        sparent=sparent,
        allocs={n: dict(label=a['label'], traits=sorted(a['traits']), rank=a['rank'], adj=a['adj'],
                        reserved=list(a['reserved']),
                        maxutil=-1 if a['maxutil'] is None else a['maxutil'])
                for n, a in scn['allocs'].items()})


# ---------------------------------------------------------------------------
# rendering a scenario as TLA+ constants for Sched.tla
def tla(v):
    if isinstance(v, bool):
        return 'TRUE' if v else 'FALSE'
    if v is None:
        return '-1'
    if isinstance(v, int):
        return str(v)
    if isinstance(v, str):
        return json.dumps(v)
    if isinstance(v, (list, tuple)):
        return '<<' + ', '.join(tla(x) for x in v) + '>>'
    if isinstance(v, (set, frozenset)):
        return '{' + ', '.join(tla(x) for x in sorted(v)) + '}'
    if isinstance(v, dict):
        if not v:
            return '[z \\in {} |-> 0]'
        return '(' + ' @@ '.join('%s :> %s' % (tla(k), tla(x)) for k, x in sorted(v.items())) + ')'
    raise TypeError(v)


def scn_constants(scn):
    """Text of operator definitions that MC modules use as constants."""
    n = norm_scn(scn)
    aps = [dict(p, traits=set(p['traits'])) for p in n['aprofiles']]
    sps = [dict(p, traits=set(p['traits'])) for p in n['sprofiles']]
    allocs = {k: dict(a, traits=set(a['traits'])) for k, a in n['allocs'].items()}
    bparent = {'cell': ''}
    blevel = {'cell': 'cell'}
    for pod, racks in (scn.get('pods') or {}).items():
        bparent[pod] = 'cell'
        blevel[pod] = 'pod'
        for r in racks:
            bparent[r] = pod
    for r in scn['racks']:
        bparent.setdefault(r, 'cell')
        blevel[r] = 'rack'

    def rec(d):
        return '[' + ', '.join('%s |-> %s' % (k, tla(v)) for k, v in sorted(d.items())) + ']'
    lines = [
        'ScnAProfiles == <<' + ', '.join(rec(p) for p in aps) + '>>',
        'ScnSProfiles == <<' + ', '.join(rec(p) for p in sps) + '>>',
        'ScnSParent == ' + tla(n['sparent']),
        'ScnAllocs == (' + ' @@ '.join('%s :> %s' % (tla(k), rec(a)) for k, a in sorted(allocs.items())) + ')',
        'ScnBParent == ' + tla(bparent),
        'ScnBLevel == ' + tla(blevel),
        'ScnServerInit == ' + tla(scn['server_init']),
        'ScnGroups == ' + tla(scn.get('groups') or {}),
        'ScnApps == ' + tla(set(scn['apps'])),
    ]
    return '\n'.join(lines) + '\n'


# ---------------------------------------------------------------------------
# seeded random histories (beyond the model-checked constants)
DEFAULT_W = dict(Cycle=30, Submit=20, RemoveApp=6, SetPrio=6, Move=4, State=8, MarkUnschedule=3,
                 RemoveServer=4, AddServer=4, Blacklist=4, Group=5, Tick=6, Renew=0, SetVu=1)
WEIGHTS = {
    # capacity pressure: arrivals, priority changes, few departures
    'pressure': dict(DEFAULT_W, Submit=30, SetPrio=14, RemoveApp=2, Move=2, Tick=8, Renew=4, Group=1,
                     Blacklist=1, MarkUnschedule=1),
    # leases against the clock
    'lease': dict(DEFAULT_W, Submit=26, Tick=16, SetPrio=12, Renew=10, RemoveApp=2, Move=6, Group=1,
                  Blacklist=1, RemoveServer=2, AddServer=3, SetVu=8),
    # server failure handling
    'failure': dict(DEFAULT_W, State=26, Tick=16, MarkUnschedule=8, Blacklist=8, Submit=18, RemoveApp=2,
                    Move=1, Group=1, RemoveServer=2, AddServer=2),
    # identities
    'identity': dict(DEFAULT_W, Group=20, Submit=22, RemoveApp=8, Blacklist=8, RemoveServer=6,
                     AddServer=5, State=6, Tick=3),
}


def gen_evict(scn, rng):
    """Capacity pressure: the servers are first filled with the lowest-priority
    instances (one cycle), then several higher-priority instances - mostly of
    ONE affinity - arrive together and can only get in by evicting."""
    profs = scn['aprofiles']
    lowp = min(p['prio'] for p in profs)
    low = [i + 1 for i, p in enumerate(profs) if p['prio'] <= lowp + 1 and not p['limits']]
    high = [i + 1 for i, p in enumerate(profs) if p['prio'] > lowp + 1]
    if not low or not high:
        return gen_random(scn, rng, 10)
    apps = list(scn['apps'])
    rng.shuffle(apps)
    k = rng.randrange(2, 4)
    fillers, late = apps[:-k], apps[-k:]
    pairs = [(i + 1, j + 1) for i, p in enumerate(profs) for j, q in enumerate(profs)
             if p['aff'] == q['aff'] and p['limits'] and p['limits'] == q['limits'] and p['prio'] < q['prio']]
    if pairs and rng.random() < 0.35:
        # limit pressure instead of capacity pressure: the servers have room, the LIMITS are
        # used up by lower-priority instances of the same affinity
        lo, hi = rng.choice(pairs)
        return ([('Submit', [a, lo]) for a in fillers] + [('Cycle', [])]
                + [('Submit', [a, hi]) for a in late] + [('Cycle', []), ('Cycle', [])])
    top = max(p['prio'] for p in profs)
    mid = [i + 1 for i, p in enumerate(profs) if lowp + 1 < p['prio'] < top]
    # (mostly low-priority fillers; now and then one that is itself limited, so that a
    # later, higher-priority instance of the SAME affinity has to take its place)
    h = [('Submit', [a, rng.choice(mid) if mid and rng.random() < 0.3 else rng.choice(low)])
         for a in fillers] + [('Cycle', [])]
    main = rng.choice(high)
    for a in late:
        h.append(('Submit', [a, main if rng.random() < 0.75 else rng.choice(high)]))
    h.append(('Cycle', []))
    if rng.random() < 0.4:
        victim = rng.choice(fillers)
        h += [('RemoveApp', [victim]), ('Submit', [victim, rng.choice(high)]), ('Cycle', [])]
    return h


def gen_identity_chain(scn, rng):
    """Identity groups under several changes between two cycles: holders lose their
    server (removed / down), the group is shrunk and grown again, members come and
    go - then pending members compete for the identities."""
    groups = sorted(scn.get('groups') or {})
    gprofs = [i + 1 for i, p in enumerate(scn['aprofiles']) if p.get('group')]
    if not groups or not gprofs:
        return gen_random(scn, rng, 10)
    apps = list(scn['apps'])
    rng.shuffle(apps)
    first, late = apps[:max(2, len(apps) - 2)], apps[max(2, len(apps) - 2):]
    h = [('Submit', [a, rng.choice(gprofs)]) for a in first] + [('Cycle', [])]
    servers = sorted(s for s, k in scn['server_init'].items() if k)
    for _ in range(rng.randrange(2, 5)):
        r = rng.random()
        g = rng.choice(groups)
        if r < 0.3 and len(servers) > 1:
            s = servers.pop(rng.randrange(len(servers)))
            h.append((rng.choice(['RemoveServer', 'RemoveServer', 'Down']), [s]))
        elif r < 0.75:
            h.append(('SetCount', [g, rng.randrange(0, 4)]))
        elif r < 0.85 and first:
            h.append(('RemoveApp', [first.pop(rng.randrange(len(first)))]))
        else:
            h.append(('Tick', [1]))
    for a in late:
        h.append(('Submit', [a, rng.choice(gprofs)]))
    h += [('Cycle', []), ('Cycle', [])]
    return h


def gen_mixed_evict(scn, rng):
    """A few instances of every kind placed, then one or two of the higher-priority
    kinds arrive: evictions that help and evictions that do not, in one pass."""
    profs = scn['aprofiles']
    apps = list(scn['apps'])
    rng.shuffle(apps)
    n = rng.randrange(2, len(apps) - 1)
    # (mostly one instance of each kind, in any order)
    kinds = rng.sample(range(1, len(profs) + 1), min(n, len(profs)))
    h = [('Submit', [a, kinds[j] if j < len(kinds) and rng.random() < 0.8 else rng.randrange(len(profs)) + 1])
         for j, a in enumerate(apps[:n])] + [('Cycle', [])]
    # servers that were not there yet join before the late arrivals
    for s, k in sorted(scn['server_init'].items()):
        if not k and rng.random() < 0.6:
            h.append(('AddServer', [s, rng.randrange(len(scn['sprofiles'])) + 1]))
    top = sorted(range(len(profs)), key=lambda i: -profs[i]['prio'])[:max(2, len(profs) // 2)]
    rest = [i for i in range(len(profs)) if i + 1 not in kinds[:n]]
    for a in apps[n:n + rng.randrange(1, 3)]:
        h.append(('Submit', [a, (rng.choice(rest) if rest and rng.random() < 0.6 else rng.choice(top)) + 1]))
    h += [('Cycle', []), ('Cycle', [])]
    return h


def gen_probe_readd(scn, rng):
    """C02: instances with limits above the server level placed, then servers that
    host them are removed and re-added (or go down and come back) - whatever the
    racks/pods/cell remember of them must be gone - then a probe of the same kind."""
    lim = [i + 1 for i, p in enumerate(scn['aprofiles'])
           if any(k != 'server' for k in p['limits'])]
    if not lim:
        return gen_random(scn, rng, 10)
    apps = list(scn['apps'])
    rng.shuffle(apps)
    prof = rng.choice(lim)
    n = rng.randrange(1, max(2, len(apps) - 1))
    h = [('Submit', [a, prof if rng.random() < 0.8 else rng.choice(lim)]) for a in apps[:n]] + [('Cycle', [])]
    servers = [(s, k) for s, k in sorted(scn['server_init'].items()) if k]
    rng.shuffle(servers)
    for s, k in servers[:rng.randrange(1, len(servers) + 1)]:
        if rng.random() < 0.75:
            h += [('RemoveServer', [s])] + ([('Cycle', [])] if rng.random() < 0.5 else []) + [('AddServer', [s, k])]
        else:
            h += [('Down', [s]), ('Tick', [rng.choice([1, 5])]), ('Cycle', []), ('Up', [s])]
        h.append(('Cycle', []))
    h += [('Quiesce', []), ('Probe', [apps[n], prof])]
    return h


def gen_move_down(scn, rng):
    """Instances with data retention placed, most servers go down, most instances
    are re-assigned to another allocation (other partition / other traits) while
    their retention is still running; cycles before and after it runs out."""
    keep = [i + 1 for i, p in enumerate(scn['aprofiles']) if p.get('retention', 0) != 0]
    anyp = list(range(1, len(scn['aprofiles']) + 1))
    apps = list(scn['apps'])
    rng.shuffle(apps)
    h = [('Submit', [a, rng.choice(keep) if keep and rng.random() < 0.8 else rng.choice(anyp)])
         for a in apps[:rng.randrange(2, len(apps) + 1)]]
    used = [e[1][0] for e in h]
    h.append(('Cycle', []))
    for s, k in sorted(scn['server_init'].items()):
        if k and rng.random() < 0.7:
            h.append((rng.choice(['Down', 'Down', 'Freeze']), [s]))
    for a in used:
        if rng.random() < 0.7:
            h.append(('Move', [a, rng.choice(sorted(scn['allocs']))]))
    h.append(('Tick', [1]))
    h.append(('Cycle', []))
    h.append(('Tick', [rng.choice([1, 2, 5])]))
    h.append(('Cycle', []))
    return h


def gen_frozen_renew(scn, rng):
    """A full cell of leased instances with distinct priorities; then each server in turn is frozen, its reboot date is moved so close that no lease can be renewed on it, and every instance asks for a
    renewal; a cycle follows.  An instance taken off a server that is not up may evict its way in only past
    the instances BEHIND it."""
    anyp = list(range(1, len(scn['aprofiles']) + 1))
    apps = list(scn['apps'])
    rng.shuffle(apps)
    h = [('Submit', [a, rng.choice(anyp)]) for a in apps]
    prios = rng.sample([1, 2, 3, 5, 7, 9, 20, 50], len(apps)) if len(apps) <= 8 else None
    for k, a in enumerate(apps):
        h.append(('SetPrio', [a, prios[k] if prios else rng.choice([1, 3, 5, 7, 9, 50])]))
    h.append(('Cycle', []))
    now = 0
    up = sorted(s for s, k in scn['server_init'].items() if k)
    rng.shuffle(up)
    for s in (up + up)[:rng.choice([2, 3, 4])]:
        # the renewal is asked for while the server is up (the flag is only ever set on a placed instance of
        # an up server); the server is frozen before the next cycle serves it
        # (ONE pending renewal per cycle: an instance whose renewal is pending and which another instance
        # evicts earlier in the same cycle trips `assert app.server` of the unchanged code - observed, not
        # judged: nothing in the code base but the scheduler's own restore path ever sets the flag)
        h.append(('Renew', [rng.choice(apps)]))
        h.append(('Freeze', [s]))
        t = rng.choice([1, 1, 2])
        now += t
        h.append(('Tick', [t]))
        h.append(('SetVu', [s, now + rng.choice([1, 2, 3])]))
        h.append(('Cycle', []))
        if rng.random() < 0.5:
            h.append(('Up', [s]))
            h.append(('SetVu', [s, now + 20]))
            h.append(('Cycle', []))
    h.append(('Cycle', []))
    return h


def gen_random(scn, rng, depth, weights=None):
    """A random event history that respects the events' guards by tracking a
    light shadow (which apps/servers exist).  Ends with a Cycle.  `weights`
    biases the event mix (see WEIGHTS)."""
    w = weights or DEFAULT_W
    names = sorted(w)
    cum = []
    tot = 0
    for n in names:
        tot += w[n]
        cum.append(tot)
    apps = set()
    servers = {s for s, i in scn['server_init'].items() if i}
    allsrv = list(scn['server_init'])
    hist = []
    allocs = list(scn['allocs'])
    groups = list(scn.get('groups') or {})
    last_state = {}
    for _ in range(depth):
        r = rng.random() * tot
        kind = names[next(i for i, c in enumerate(cum) if r < c)]
        free_names = [a for a in scn['apps'] if a not in apps]
        if kind == 'Cycle':
            hist.append(('Cycle', []))
        elif kind == 'Submit' and free_names:
            a = rng.choice(free_names)
            apps.add(a)
            hist.append(('Submit', [a, rng.randrange(len(scn['aprofiles'])) + 1]))
        elif kind == 'RemoveApp' and apps:
            a = rng.choice(sorted(apps))
            apps.discard(a)
            hist.append(('RemoveApp', [a]))
        elif kind == 'SetPrio' and apps:
            hist.append(('SetPrio', [rng.choice(sorted(apps)), rng.choice([0, 1, 5, 9, 50])]))
        elif kind == 'Move' and apps:
            hist.append(('Move', [rng.choice(sorted(apps)), rng.choice(allocs)]))
        elif kind == 'State' and servers:
            s = rng.choice(sorted(servers))
            # freeze-then-down and down-then-up chains are the interesting ones
            nxt = {'Freeze': ['Down', 'Down', 'Up'], 'Down': ['Up', 'Freeze', 'Up'],
                   'Up': ['Down', 'Freeze', 'Down']}.get(last_state.get(s), ['Down', 'Up', 'Freeze'])
            ev = rng.choice(nxt)
            if rng.random() < 0.15 and apps and len(servers) > 1:
                # an unschedule mark is good for ONE eviction: freeze with marks, cycle,
                # then freeze another server with nothing marked
                s2 = rng.choice(sorted(servers - {s}))
                hist.append(('Freeze', [s]))
                for a in rng.sample(sorted(apps), min(len(apps), rng.choice([1, 2, 3]))):
                    hist.append(('MarkUnschedule', [a]))
                hist.append(('Cycle', []))
                hist.append(('Freeze', [s2]))
                hist.append(('Cycle', []))
                last_state[s] = last_state[s2] = 'Freeze'
                continue
            if rng.random() < 0.3:
                # chains that separate "state changed" from "went down": the retention
                # clock starts when the server goes DOWN, whatever it was before
                chain = rng.choice([['Freeze', 'Tick', 'Down'], ['Down', 'Tick', 'Up', 'Down'],
                                    ['Freeze', 'Tick', 'Up', 'Tick', 'Down'], ['Down', 'Tick', 'Freeze']])
                for c in chain:
                    hist.append(('Tick', [rng.choice([1, 2, 3])]) if c == 'Tick' else (c, [s]))
                last_state[s] = chain[-1]
                continue
            last_state[s] = ev
            hist.append((ev, [s]))
        elif kind == 'MarkUnschedule' and apps:
            hist.append(('MarkUnschedule', [rng.choice(sorted(apps))]))
        elif kind == 'RemoveServer' and servers:
            s = rng.choice(sorted(servers))
            servers.discard(s)
            last_state.pop(s, None)
            hist.append(('RemoveServer', [s]))
        elif kind == 'AddServer' and len(servers) < len(allsrv):
            s = rng.choice([x for x in allsrv if x not in servers])
            servers.add(s)
            hist.append(('AddServer', [s, rng.randrange(len(scn['sprofiles'])) + 1]))
        elif kind == 'Blacklist' and apps:
            hist.append((rng.choice(['Blacklist', 'Unblacklist']), [rng.choice(sorted(apps))]))
        elif kind == 'Group' and groups:
            if rng.random() < 0.25:
                hist.append(('DelGroup', [rng.choice(groups)]))
            else:
                hist.append(('SetCount', [rng.choice(groups), rng.randrange(0, 4)]))
        elif kind == 'Renew' and apps:
            # a renewal request is served by the very next cycle (see Sched.tla Renew)
            hist.append(('Renew', [rng.choice(sorted(apps))]))
            hist.append(('Cycle', []))
        elif kind == 'Tick':
            hist.append(('Tick', [rng.choice([1, 1, 2, 3])]))
        elif kind == 'SetVu' and servers:
            hist.append(('SetVu', [rng.choice(sorted(servers)),
                                   rng.choice([p['vu'] for p in scn['sprofiles']] + [3, 5])]))
    hist.append(('Cycle', []))
    return hist


KINDS = ['Submit', 'RemoveApp', 'SetPrio', 'Move', 'Down', 'Up', 'Freeze', 'MarkUnschedule',
         'RemoveServer', 'AddServer', 'Blacklist', 'Unblacklist', 'SetCount', 'DelGroup', 'Renew',
         'Tick', 'SetVu']


def gen_tuples(scn, rng, length=4):
    """Event-sequence coverage: a populated cell (submits + cycle), then a short
    sequence whose event KINDS are drawn uniformly (not by weight), each
    instantiated with arguments that are valid at that point, cycles sprinkled
    in between.  Over a run this covers the ordered pairs/triples of event kinds
    that weighted random histories reach only rarely."""
    apps, hist = set(), []
    servers = {s for s, i in scn['server_init'].items() if i}
    allsrv = list(scn['server_init'])
    allocs = list(scn['allocs'])
    groups = list(scn.get('groups') or {})
    for a in rng.sample(scn['apps'], rng.randrange(2, len(scn['apps']) + 1)):
        apps.add(a)
        hist.append(('Submit', [a, rng.randrange(len(scn['aprofiles'])) + 1]))
    hist.append(('Cycle', []))
    for _ in range(length):
        k = rng.choice(KINDS)
        free = [a for a in scn['apps'] if a not in apps]
        if k == 'Submit' and free:
            a = rng.choice(free)
            apps.add(a)
            hist.append(('Submit', [a, rng.randrange(len(scn['aprofiles'])) + 1]))
        elif k == 'RemoveApp' and apps:
            a = rng.choice(sorted(apps))
            apps.discard(a)
            hist.append(('RemoveApp', [a]))
        elif k == 'SetPrio' and apps:
            hist.append(('SetPrio', [rng.choice(sorted(apps)), rng.choice([0, 1, 5, 9, 50])]))
        elif k == 'Move' and apps:
            hist.append(('Move', [rng.choice(sorted(apps)), rng.choice(allocs)]))
        elif k in ('Down', 'Up', 'Freeze') and servers:
            hist.append((k, [rng.choice(sorted(servers))]))
        elif k in ('MarkUnschedule', 'Blacklist', 'Unblacklist', 'Renew') and apps:
            hist.append((k, [rng.choice(sorted(apps))]))
            if k == 'Renew':
                hist.append(('Cycle', []))
        elif k == 'RemoveServer' and servers:
            s = rng.choice(sorted(servers))
            servers.discard(s)
            hist.append(('RemoveServer', [s]))
        elif k == 'AddServer' and len(servers) < len(allsrv):
            s = rng.choice([x for x in allsrv if x not in servers])
            servers.add(s)
            hist.append(('AddServer', [s, rng.randrange(len(scn['sprofiles'])) + 1]))
        elif k == 'SetCount' and groups:
            hist.append(('SetCount', [rng.choice(groups), rng.randrange(0, 4)]))
        elif k == 'DelGroup' and groups:
            hist.append(('DelGroup', [rng.choice(groups)]))
        elif k == 'Tick':
            hist.append(('Tick', [rng.choice([1, 2, 3])]))
        elif k == 'SetVu' and servers:
            hist.append(('SetVu', [rng.choice(sorted(servers)),
                                   rng.choice([p['vu'] for p in scn['sprofiles']] + [3, 5])]))
        if rng.random() < 0.4:
            hist.append(('Cycle', []))
    hist.append(('Cycle', []))
    if rng.random() < 0.3:
        hist.append(('Cycle', []))
    return hist


# ---------------------------------------------------------------------------
def record(scn_name, histories):
    scn = SCENARIOS[scn_name]
    hdr = norm_scn(scn)
    traces = []
    for k, h in enumerate(histories):
        lines = sched_l1.replay(scn, h)
        traces.append(dict(tid='%s:%d' % (scn_name, k), kind='l1', scn=hdr, lines=lines, history=h))
    return traces


def _validate_chunk(args):
    traces, timeout, cfg = args
    work = tlc.scratch('verif-batch-')
    try:
        path = os.path.join(work, 'batch.json')
        with open(path, 'w') as f:
            json.dump(dict(traces=[dict(tid=t['tid'], kind=t.get('kind', 'l1'), scn=t['scn'], lines=t['lines'])
                                   for t in traces]), f)
        return tlc.validate(SPEC_DIR, 'SchedTrace', cfg, path, timeout=timeout)
    finally:
        import shutil
        shutil.rmtree(work, ignore_errors=True)


def validate(traces, timeout=1200, cfg='SchedTrace.cfg', chunk=1500):
    """TLC judges the batch; large batches are cut into chunks validated by
    several TLC processes side by side (each chunk is independent)."""
    if len(traces) <= chunk:
        return _validate_chunk((traces, timeout, cfg))
    import concurrent.futures
    chunks = [traces[i:i + chunk] for i in range(0, len(traces), chunk)]
    verdicts, stats = [], {}
    with concurrent.futures.ThreadPoolExecutor(4) as ex:
        for v, st in ex.map(_validate_chunk, [(c, timeout, cfg) for c in chunks]):
            verdicts.extend(v)
            stats = stats or st
    stats['chunks'] = len(chunks)
    return verdicts, stats


# ---------------------------------------------------------------------------
# TLC on Sched.tla
ALL_EVENTS = ['Submit', 'RemoveApp', 'SetPrio', 'Move', 'Down', 'Up', 'Freeze', 'MarkUnschedule',
              'RemoveServer', 'AddServer', 'Blacklist', 'Unblacklist', 'SetCount', 'DelGroup',
              'Renew', 'Tick', 'SetVu']
ALL_DEFECTS = ['shape_no_traits', 'no_partition_fix', 'evict_no_ancestors',
               'identity_kept_on_skip', 'adjust_xor']


def mc_files(scn_name, events, max_events, max_cycles, invariants=(), defects=(),
             ticks=(1, 2), counts=(0, 1, 3), prios=(0, 5), apps=None, tag='', profs=None):
    """Render MC_<scn>.tla / .cfg for Sched.tla.  Returns (module, cfg, files)."""
    scn = SCENARIOS[scn_name]
    if apps is not None:
        scn = dict(scn, apps=list(apps))
    mod = 'MC_%s%s' % (scn_name, tag)
    labels = sorted({a['label'] for a in scn['allocs'].values()} |
                    {p['label'] for p in scn['sprofiles']})
    text = ('---- MODULE %s ----\nEXTENDS Sched\n' % mod + scn_constants(scn) +
            'ScnEvents == %s\nScnDefects == %s\nScnTicks == %s\nScnCounts == %s\n'
            'ScnPrios == %s\nScnLabelSeq == %s\nScnAppSeq == %s\nScnProfIds == %s\n====\n' % (
                tla(set(events)), tla(set(defects)), tla(set(ticks)), tla(set(counts)),
                tla(set(prios)), tla(labels), tla(list(scn['apps'])),
                tla(set(profs or range(1, len(scn['aprofiles']) + 1)))))
    cfg = ['INIT Init', 'NEXT Next', 'CHECK_DEADLOCK FALSE', 'CONSTANTS',
           ' AProfiles <- ScnAProfiles', ' SProfiles <- ScnSProfiles', ' SParent <- ScnSParent',
           ' Allocs <- ScnAllocs', ' BParent <- ScnBParent', ' BLevel <- ScnBLevel',
           ' ServerInit <- ScnServerInit', ' GroupsInit <- ScnGroups', ' AppIds <- ScnApps',
           ' Events <- ScnEvents', ' Defects <- ScnDefects', ' Ticks <- ScnTicks',
           ' Counts <- ScnCounts', ' Prios <- ScnPrios', ' LabelSeq <- ScnLabelSeq',
           ' AppSeq <- ScnAppSeq', ' ProfIds <- ScnProfIds',
           ' MaxEvents = %d' % max_events, ' MaxCycles = %d' % max_cycles]
    for inv in invariants:
        cfg.append('INVARIANT %s' % inv)
    return mod, mod + '.cfg', {mod + '.tla': text, mod + '.cfg': '\n'.join(cfg) + '\n'}


def env_history(labels):
    """TLC behaviour labels -> the environment's history (Step is the
    implementation's own business inside a Cycle call)."""
    return [(ev, args) for ev, args in labels if ev != 'Step']
