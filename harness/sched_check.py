"""Driver shared by the scheduler-level checks C01 C03 C04 C05 C07 C08
(DESIGN.md 2.1): model check focus configurations of Sched.tla, let TLC generate
histories, replay them on the real scheduler.Cell, let TLC judge the recorded
traces against SchedTrace.tla, report only clauses owned by the property."""
import collections
import random

from . import core, tlc
from . import sched_common as sc

ENV_ALL = sc.ALL_EVENTS

# per property: model-checking focus configurations and history sources
CONF = {
    'C01': dict(
        inv=['InvC01', 'InvViews'],
        mc=[('base', ENV_ALL, None), ('failure', ['Submit', 'RemoveApp', 'Down', 'Up', 'Freeze', 'RemoveServer', 'AddServer', 'Tick', 'SetPrio'], None)],
        gen=['base', 'failure', 'affinity', 'identity', 'huge'], weights=['pressure', 'failure'],
        rule='a history counts when at least one cycle ends with an instance placed; distinct = distinct environment histories'),
    'C02': dict(
        inv=['InvC02', 'InvViews'],
        mc=[('topology', ['Submit', 'RemoveApp', 'Down', 'Up', 'RemoveServer', 'AddServer', 'Tick'], None)],
        gen=['topology', 'tracker', 'traits', 'twins', 'identity', 'solo'], probe=True,
        focus=[('solo', 'gen_probe_readd'), ('affinity', 'gen_probe_readd'), ('evict2', 'gen_probe_readd')],
        rule='a history counts when a probe instance is submitted to a quiescent cell and the leaf-scan oracle finds an up server that takes it as it is; distinct = distinct environment histories'),
    'C03': dict(
        inv=['InvC03', 'InvViews'],
        mc=[('base', ['Submit', 'Move', 'Renew', 'Tick', 'Down', 'Freeze', 'Up', 'RemoveServer', 'AddServer', 'SetPrio'], None)],
        gen=['base', 'topology', 'twins', 'lease'], weights=['lease', 'lease', 'failure'],
        focus=[('base', 'gen_move_down'), ('topology', 'gen_move_down')],
        rule='a history counts when some cycle assigns an instance to a (new) server; distinct = distinct environment histories'),
    'C04': dict(
        inv=['InvC04', 'InvViews'],
        mc=[('affinity', ['Submit', 'RemoveApp', 'SetPrio', 'Down', 'Up', 'RemoveServer', 'AddServer'], None)],
        gen=['affinity', 'solo', 'topology'], weights=['pressure', 'pressure'],
        focus=[('evict', 'gen_evict'), ('affinity', 'gen_evict'), ('evict2', 'gen_evict'),
               ('evict3', 'gen_mixed_evict'), ('evict4', 'gen_mixed_evict'), ('evict4', 'gen_mixed_evict')],
        rule='a history counts when after some cycle a node is exactly at a finite affinity limit; distinct = distinct environment histories'),
    'C05': dict(
        inv=['InvC05', 'InvViews'],
        mc=[('identity', ['Submit', 'RemoveApp', 'SetCount', 'DelGroup', 'Blacklist', 'Unblacklist', 'Down', 'Tick', 'RemoveServer', 'SetPrio'], None),
            ('base', ['Submit', 'RemoveApp', 'SetCount', 'DelGroup', 'Blacklist', 'RemoveServer', 'AddServer', 'Renew', 'Tick'], [3, 6, 1])],
        gen=['identity', 'identity', 'base'], weights=['identity', 'identity', 'pressure'],
        focus=[('identity', 'gen_identity_chain'), ('base', 'gen_identity_chain')],
        rule='a history counts when after some cycle an instance of an identity group holds an identity; distinct = distinct environment histories'),
    'C06': dict(
        inv=['InvC06', 'InvViews'],
        mc=[('queue', ['Submit', 'SetPrio', 'Down'], [1, 2, 3, 4, 5, 7])],
        mc_thorough=[('queue', ['Submit', 'RemoveApp', 'SetPrio', 'Down', 'Up', 'RemoveServer'], None)],
        gen=['queue', 'base'], randscn=8,
        rule='a history counts when a cycle sees a queue of >= 3 instances from >= 2 allocations with >= 2 distinct priorities; distinct = distinct (scenario, environment history) pairs'),
    'C07': dict(
        inv=['InvC07', 'InvViews'],
        mc=[('base', ['Submit', 'RemoveApp', 'SetPrio', 'Down', 'Up', 'RemoveServer', 'AddServer', 'Move'], None),
            ('affinity', ['Submit', 'SetPrio', 'RemoveServer', 'Down'], None)],
        gen=['base', 'affinity', 'lease', 'topology', 'queue'], weights=['pressure', 'pressure', 'lease'], randscn=2,
        focus=[('lease', 'gen_frozen_renew'), ('lease', 'gen_frozen_renew')],
        rule='a history counts when a cycle displaces an instance that was running on an up server and was entitled to stay (so the justification clause is exercised); distinct = distinct environment histories'),
    'C08': dict(
        inv=['InvC08', 'InvViews'],
        mc=[('failure', ['Submit', 'Down', 'Up', 'Freeze', 'MarkUnschedule', 'Tick', 'Blacklist', 'Unblacklist', 'SetPrio', 'RemoveApp'], None)],
        gen=['failure', 'failure', 'base'], weights=['failure', 'failure', 'pressure'],
        rule='a history counts when a cycle starts with an instance on a down or frozen server, or with a blacklisted instance; distinct = distinct environment histories'),
}

ASSUMPTIONS = [
    'scheduler.Cell is driven directly (L1) with the calls loader.py makes for each event; time.time is a virtual clock',
    'open choices (server picked by Bucket.put, identity popped) are left open in Sched.tla and resolved from the observation',
    'instances of one affinity share their limits (as in the statement of C04)',
    'Bucket aggregates only prune (Buckets.tla / C02); the cycle model scans leaf servers',
    'exceptions raised by the code under test inside a step are counted as skipped lines, not judged',
    'L2 source: the real Master/loader on an in-memory ZooKeeper drive the same Cell; only reschedule() cycles are judged there, with the previous recorded state as pre-state',
]


def _mc(ctx, prop):
    conf = CONF[prop]
    me, mcyc = (3, 2) if ctx.quick else (4, 2)
    for scn, events, profs in (conf['mc'] if ctx.quick else conf.get('mc_thorough', conf['mc'])):
        mod, cfg, files = sc.mc_files(scn, events, me, mcyc, invariants=conf['inv'], profs=profs,
                                      tag='_' + prop)
        res = tlc.mc(sc.SPEC_DIR, mod, cfg, extra_files=files, coverage=False,
                     timeout=240 if ctx.quick else 1500)
        ctx.add_mc('%s/%s events<=%d cycles<=%d' % (scn, prop, me, mcyc), res)
        if res['violated']:
            # A violation of the SPECIFICATION (design level).  It only becomes a
            # violation of the code if the replay below reproduces it.
            ctx.log('model invariant %s violated; counterexample is replayed on the code' % res['violated'])
            yield scn, sc.env_history([(a, tlc.tlaval.split_args(b)) for a, b in res['cex']
                                       if a not in ('Initial', 'Next')])


def _gen(ctx, prop):
    """TLC-generated histories + seeded random ones."""
    conf = CONF[prop]
    n_tlc = 40 if ctx.quick else 250
    n_rnd = 220 if ctx.quick else 1500
    wsets = [None] + [sc.WEIGHTS[w] for w in conf.get('weights', [])]
    out = []
    gens = list(conf['gen'])
    rs = random.Random(ctx.seed * 65537)
    for j in range(conf.get('randscn', 0) * (1 if ctx.quick else 5)):
        name = 'rq%d' % j
        sc.gen_queue_scn(rs, name)
        for _ in range(25 if ctx.quick else 60):
            out.append((name, 'rnd', sc.gen_random(sc.SCENARIOS[name], rs, rs.choice([6, 10, 14]))))
    for k, scn in enumerate(gens):
        mod, cfg, files = sc.mc_files(scn, ENV_ALL, 9, 5, tag='_gen')
        behaviours, cmd = tlc.simulate(sc.SPEC_DIR, mod, cfg, num=n_tlc, depth=22,
                                       seed=ctx.seed * 31 + k, procs=6 if ctx.quick else 12,
                                       extra_files=files, timeout=120 if ctx.quick else 900)
        ctx.cmds.append(cmd)
        for b in behaviours:
            h = sc.env_history(b)
            if not h or h[-1][0] != 'Cycle':
                h.append(('Cycle', []))
            out.append((scn, 'tlc', h))
        rng = random.Random(ctx.seed * 7919 + k)
        for _ in range(n_rnd):
            out.append((scn, 'rnd', sc.gen_random(sc.SCENARIOS[scn], rng, rng.choice([6, 10, 14, 18]),
                                                  rng.choice(wsets))))
        for _ in range(n_rnd // 2):
            out.append((scn, 'tuples', sc.gen_tuples(sc.SCENARIOS[scn], rng, rng.choice([3, 4, 5]))))
    rf = random.Random(ctx.seed * 2221)
    for scn, fn in conf.get('focus', []):
        for _ in range(60 if ctx.quick else 600):
            out.append((scn, fn, getattr(sc, fn)(sc.SCENARIOS[scn], rf)))
    return out


L2_PROPS = {'C01': 160, 'C02': 120, 'C03': 120, 'C04': 80, 'C05': 100, 'C08': 100, 'C06': 120, 'C07': 100}


def _l2_traces(ctx, prop, histories=None, scn_name='base'):
    """Master-level (L2) executions judged by the same scheduler clauses: the
    real Master/loader drive the Cell (reload_server, restore_placement,
    loader.resources with spelled quantities, presence-driven state changes)."""
    if prop not in L2_PROPS and histories is None:
        return []
    from . import master_common as mcm, master_l2
    rng = random.Random(ctx.seed * 31337 + 7)
    generated = histories is None
    if histories is None:
        n = L2_PROPS[prop] * (1 if ctx.quick else 6)
        histories = [mcm.gen_random(mcm.SCENARIOS['base'], rng, rng.choice([8, 12, 16]))
                     for _ in range(n)]
        if prop == 'C02':
            # probe histories at master level: quiesce (two cycles), submit one instance, cycle
            scn2 = mcm.SCENARIOS['base']
            histories = []
            for _ in range(n):
                h = [x for x in mcm.gen_random(scn2, rng, rng.choice([4, 8, 12]))
                     if x[0] not in ('CrashCycle', 'CrashRestart')]
                used = {x[1][0] for x in h if x[0] == 'CreateApp'}
                free = [a for a in scn2['apps'] if a not in used]
                if not free:
                    continue
                h += [('Cycle', []), ('Cycle', []),
                      ('Probe', [free[0], rng.randrange(len(scn2['aprofiles'])) + 1])]
                histories.append(h)
            # terabyte servers filled exactly, re-registered a few MB LARGER, then a probe
            # that needs exactly the difference (recorded on scenario 'big', see below)
            bscn = mcm.SCENARIOS['big']
            ctx.c02_big = []
            for _ in range(max(6, n // 8)):
                hb = [('CreateApp', ['a1', 1]), ('CreateApp', ['a2', 1]), ('Cycle', []),
                      ('NodeDown', ['s1']), ('NodeUp', ['s1', 1]), ('Cycle', []), ('Cycle', []),
                      ('Probe', ['a3', 4])]
                ctx.c02_big.append(hb)
            # an identity group used up, a holder's server and the holder itself gone in
            # ONE batch of events; then a probe of the same group
            gp = [i + 1 for i, p in enumerate(scn2['aprofiles']) if p.get('identity_group')]
            srv = sorted(s for s, k in scn2['server_init'].items() if k)
            for _ in range(n // 3):
                k = rng.randrange(1, 3)
                g = scn2['aprofiles'][gp[0] - 1]['identity_group']
                h = [('SetGroup', [g, k])] + [('CreateApp', [a, rng.choice(gp)]) for a in scn2['apps'][:k]]
                h += [('Cycle', []), ('Defer', [])]
                for s in rng.sample(srv, rng.randrange(1, len(srv))):
                    h += [('NodeDown', [s])] if rng.random() < 0.5 else []
                    h += [('DeleteServer', [s])]
                for a in rng.sample(scn2['apps'][:k], rng.randrange(1, k + 1)):
                    h += [('DeleteApp', [a])]
                h += [('Deliver', []), ('Cycle', []), ('Cycle', []),
                      ('Probe', [scn2['apps'][k], rng.choice(gp)])]
                histories.append(h)
        if prop in ('C01', 'C03', 'C04', 'C08'):
            histories += [mcm.gen_servers(mcm.SCENARIOS['base'], rng, rng.choice([5, 8, 12]))
                          for _ in range(n // 2)]
        if prop in ('C03', 'C06', 'C07'):
            histories += [mcm.gen_allocs(mcm.SCENARIOS['base'], rng, rng.choice([2, 4, 6]))
                          for _ in range(n // 2)]
        if prop == 'C04':
            # several instances of the kinds that declare limits, servers coming and going
            scnb = mcm.SCENARIOS['base']
            lim = [i + 1 for i, p in enumerate(scnb['aprofiles']) if p.get('affinity_limits')]
            for _ in range(n // 2):
                h = [('CreateApp', [a, rng.choice(lim) if rng.random() < 0.8
                                    else rng.randrange(len(scnb['aprofiles'])) + 1]) for a in scnb['apps']]
                h.append(('Cycle', []))
                h += [x for x in mcm.gen_servers(scnb, rng, rng.choice([3, 5])) if x[0] != 'CreateApp']
                histories.append(h)
        if prop == 'C05':
            histories += [mcm.gen_identity(mcm.SCENARIOS['base'], rng, rng.choice([4, 6, 9]))
                          for _ in range(n // 2)]
    out = []
    raw = mcm.record(scn_name, histories)
    ctx.l2raw = raw
    if prop == 'C02' and generated and getattr(ctx, 'c02_big', None):
        raw = raw + mcm.record('big2', ctx.c02_big)
    if prop == 'C03' and generated:
        dscn = mcm.SCENARIOS['dup']
        raw = raw + mcm.record('dup', [mcm.gen_random(dscn, rng, rng.choice([8, 12])) if k % 3 == 0 else
                                       mcm.gen_servers(dscn, rng, rng.choice([5, 8])) if k % 3 == 1 else
                                       mcm.gen_allocs(dscn, rng, rng.choice([3, 5]))
                                       for k in range(60 if ctx.quick else 600)])
    if prop == 'C01' and generated:
        raw = raw + mcm.record('big', [mcm.gen_resize(mcm.SCENARIOS['big'], rng)
                                       for _ in range(30 if ctx.quick else 300)])
    for t in raw:
        for seg in master_l2.sched_segments('l2-' + t['tid'], t['lines']):
            seg['history'] = t['history']
            seg['src'] = 'l2'
            out.append(seg)
    return out


def run(ctx, prop):
    import concurrent.futures
    with concurrent.futures.ThreadPoolExecutor(4) as ex:
        f_mc = ex.submit(lambda: list(_mc(ctx, prop)))
        f_bk = ex.submit(_buckets, ctx) if prop == 'C02' else (
            ex.submit(_reboot, ctx) if prop == 'C03' else None)
        f_gen = ex.submit(_gen, ctx, prop)
        f_l2 = ex.submit(_l2_traces, ctx, prop)
        cex = f_mc.result()
        if f_bk:
            f_bk.result()
        gen = f_gen.result()
        l2 = f_l2.result()
    hist = [(s, 'cex', h + [('Cycle', [])]) for s, h in cex] + gen
    if CONF[prop].get('probe'):
        rng = random.Random(ctx.seed * 9973)
        hist = [(s, src, sc.probeify(h, rng, sc.SCENARIOS[s])) for s, src, h in hist]
    ctx.log('%d histories (%d from TLC)' % (len(hist), sum(1 for h in hist if h[1] != 'rnd')))
    traces = []
    by_scn = collections.defaultdict(list)
    for scn, src, h in hist:
        by_scn[scn].append((src, h))
    for scn, hs in by_scn.items():
        recs = sc.record(scn, [h for _, h in hs])
        for (src, _), t in zip(hs, recs):
            t['src'] = src
        traces.extend(recs)
    traces += l2
    ctx.log('recorded %d traces, %d lines' % (len(traces), sum(len(t['lines']) for t in traces)))
    verdicts, stats, unjudged = core.validate_robust(
        lambda ts: sc.validate(ts, timeout=600 if ctx.quick else 3000), traces, ctx)
    ctx.cmds.append(stats.get('cmd', ''))
    bad = {t['tid'] for t in unjudged}
    total = sum(len(t['lines']) - 1 for t in traces if t['tid'] not in bad)
    if len(verdicts) != total:
        raise tlc.MachineryError('trace spec judged %d of %d lines' % (len(verdicts), total))
    ctx.extra_violations = _c08_master(ctx, prop)
    rc = judge(ctx, prop, [t for t in traces if t['tid'] not in bad], verdicts)
    if unjudged and rc == 0:
        raise tlc.MachineryError('%d recorded traces could not be evaluated by the trace spec '
                                 '(first: %s)' % (len(unjudged), unjudged[0]['tid']))
    return rc


def _c08_master(ctx, prop):
    """Master-level observation points of C08 (MasterTrace.tla): the state record in
    /placement/<server>, and what a new master keeps on a server that is down."""
    out = []
    if prop != 'C08' or not getattr(ctx, 'l2raw', None):
        return out
    from . import master_common as mcm
    v2, st2 = mcm.validate(ctx.l2raw)
    ctx.cmds.append(st2.get('cmd', ''))
    by = {t['tid']: t for t in ctx.l2raw}
    for v in v2:
        for f in sorted(v['fail']):
            if f.startswith('C08.'):
                t = by[v['tid']]
                out.append(dict(
                    clause=f, signature=f,
                    what='after %s at step %d of l2 %s' % (t['lines'][v['i']]['ev'], v['i'], t['tid']),
                    replay_payload=dict(kind='sched_l2', property=prop, clause=f,
                                        scenario='l2-' + t['tid'].split(':')[0],
                                        history=t['history'][:v['i']], failed_step=v['i'])))
    return out


def _reboot(ctx):
    """Extension beyond the listed properties: where valid_until comes from
    (Partition / RebootBucket), Reboot.tla model-checked and bound to the real
    Partition by recorded operation sequences (clauses ext.reboot.*: DRIFT)."""
    from . import reboot_driver as rd
    res = tlc.mc(sc.SPEC_DIR, 'MC_Reboot', 'MC_Reboot.cfg', coverage=True, workers=4,
                 timeout=200 if ctx.quick else 900)
    ctx.add_mc('Reboot.tla (extension: reboot-date assignment)', res, need_actions=['Add', 'Tick', 'Remove'])
    if res['violated']:
        ctx.log('Reboot.tla: %s violated in the MODEL' % res['violated'])
    rng = random.Random(ctx.seed * 4099)
    traces = [dict(tid='reboot:%d' % k, lines=rd.replay(rd.gen(rng, rng.choice([4, 8, 12]))))
              for k in range(150 if ctx.quick else 3000)]
    verdicts, stats = rd.validate(traces)
    ctx.cmds.append(stats['cmd'])
    bad = sum(1 for v in verdicts if v['fail'])
    ctx.notes.append(dict(reboot_conformance=dict(traces=len(traces), steps=len(verdicts), unexplained=bad)))
    if bad:
        ctx.drift += bad
        print('DRIFT: %d recorded Partition operations are not steps of Reboot.tla / miss its guarantees '
              '(extension beyond the listed properties; not a violation)' % bad)


def _buckets(ctx):
    res = tlc.mc(sc.SPEC_DIR, 'MC_Buckets', 'MC_Buckets.cfg', coverage=True, workers=4,
                 extra_cfg_text='CONSTANT MaxOps = %d' % (5 if ctx.quick else 6),
                 timeout=200 if ctx.quick else 900)
    ctx.add_mc('Buckets.tla pruning soundness', res,
               need_actions=['AddServer', 'RemoveServer', 'SetNotUp', 'Put', 'Remove'])
    if res['violated']:
        ctx.log('Buckets.tla: Sound violated in the MODEL (design level); see trace clause C02.prune for the code')
    # unbounded in the number of operations: the invariant is inductive (Apalache)
    obligations = [('Init => IndInv', 'Init', 'IndInv', 0),
                   ('IndInv /\\ Next => IndInv\'', 'IndInit', 'IndInv', 1),
                   ('IndInv => Sound', 'IndInit', 'Sound', 0)]
    done = []
    for name, init, inv, length in obligations:
        r = tlc.apalache(sc.SPEC_DIR, 'BucketsApa', init, inv, length, timeout=300 if ctx.quick else 900)
        done.append(dict(obligation=name, discharged=bool(r['ok']), wall_s=r['wall_s'], cmd=r['cmd']))
        ctx.log('Apalache %s: %s (%.0fs)' % (name, 'discharged' if r['ok'] else 'NOT discharged rc=%s' % r['rc'], r['wall_s']))
    ctx.notes.append(dict(apalache_inductive_invariant=done))


def judge(ctx, prop, traces, verdicts):
    by_tid = {t['tid']: t for t in traces}
    violations = []
    nontrivial = set()
    evaluations = 0
    for v in verdicts:
        t = by_tid[v['tid']]
        fails = set(v['fail'])
        if 'exc' in fails:
            ctx.skipped += 1
            continue
        if any(f.startswith('drift.') for f in fails):
            ctx.drift += 1
        evaluations += 1
        if prop in v['ex']:
            nontrivial.add(core.hist_hash(t['history']))
        for f in sorted(fails):
            if f.startswith(prop + '.'):
                line = t['lines'][v['i']]
                violations.append(dict(
                    clause=f, signature=f,
                    what='after %s at step %d of %s' % (line['ev'], v['i'], t['tid']),
                    replay_payload=dict(kind='sched_l2' if t.get('src') == 'l2' else 'sched_l1',
                                        property=prop, clause=f,
                                        scenario=t['tid'].split(':')[0],
                                        history=t['history'][:line.get('h', v['i'])], failed_step=v['i'])))
    samples = []
    for t in traces[:400]:
        if core.hist_hash(t['history']) in nontrivial:
            samples.append(dict(scenario=t['tid'], source=t.get('src'),
                                history=['%s(%s)' % (e, ','.join(map(str, a))) for e, a in t['history']]))
        if len(samples) >= 3:
            break
    if not samples and traces:
        t = traces[0]
        samples.append(dict(scenario=t['tid'], history=[str(x) for x in t['history']]))
    if ctx.drift:
        print('DRIFT: %d recorded steps are not explained by the cycle/event model '
              '(spec needs updating; not a violation)' % ctx.drift)
    violations += getattr(ctx, 'extra_violations', [])
    return core.conclude(
        ctx, level='model_checking', violations=violations, evaluations=evaluations,
        distinct_nontrivial=len(nontrivial), rule=CONF[prop]['rule'], samples=samples,
        traces_validated=len(traces), assumptions=ASSUMPTIONS,
        extra=dict(trace_sources=dict(collections.Counter(t.get('src') for t in traces)),
                   notes=ctx.notes))


def replay(ctx, prop, path):
    import json
    payload = json.load(open(path))
    h = [tuple(x) for x in payload['history']]
    if not h or h[-1][0] != 'Cycle':
        opened = False
        for e in h:
            opened = (e[0] == 'Defer') or (opened and e[0] not in ('Deliver', 'Cycle', 'Restart',
                                                                    'CrashCycle', 'CrashRestart'))
        if opened:
            h.append(('Deliver', []))      # (a line of its own: the cycle's pre-state is the drained view)
        h.append(('Cycle', []))
    if payload.get('kind') == 'sched_l2':
        scn_name = payload.get('scenario', 'base')
        scn_name = scn_name[3:] if scn_name.startswith('l2-') else scn_name
        if payload.get('clause', '') in ('C08.stateRecord', 'C08.keepRestart'):
            # judged after the step that follows the recorded prefix: a restart for keepRestart
            h = [tuple(x) for x in payload['history']]
            h.append(('Restart', []) if payload['clause'] == 'C08.keepRestart' else ('Cycle', []))
        traces = _l2_traces(ctx, prop, [h], scn_name if scn_name in ('base', 'big', 'dup', 'big2') else 'base')
        verdicts, _ = sc.validate(traces)
        ctx.extra_violations = _c08_master(ctx, prop)
        return judge(ctx, prop, traces, verdicts)
    traces = sc.record(payload['scenario'], [h])
    verdicts, _ = sc.validate(traces)
    return judge(ctx, prop, traces, verdicts)


# model-level mutation testing: with a defect switched on in the MODEL, TLC must
# find a counterexample of the property's invariant (else the invariant is vacuous
# for that mechanism)
MODEL_DEFECTS = {
    'C02': [('shape_no_traits', 'topology', ['Submit', 'RemoveApp', 'Down', 'Up'], 'InvC02', 4)],
    'C03': [('no_partition_fix', 'base', ['Submit', 'Move'], 'InvC03', 3)],
    'C04': [('evict_no_ancestors', 'affinity', ['Submit', 'SetPrio'], 'InvC04', 4)],
    'C05': [('identity_kept_on_skip', 'identity', ['Submit', 'Blacklist', 'RemoveServer'], 'InvC05', 3),
            ('adjust_xor', 'identity', ['Submit', 'SetCount'], 'InvC05', 4)],
}


def selftest(ctx, prop):
    """(a) defects switched on in the model must violate the invariant;
    (b) every seeded change for this property must make the check exit 1."""
    import glob
    import json
    import os
    import subprocess
    ok = True
    for defect, scn, events, inv, me in MODEL_DEFECTS.get(prop, []):
        mod, cfg, files = sc.mc_files(scn, events, me, 2, invariants=[inv], defects=[defect], tag='_st')
        res = tlc.mc(sc.SPEC_DIR, mod, cfg, extra_files=files, coverage=False, timeout=600)
        good = res['violated'] == inv
        ok = ok and good
        print('selftest model defect %-24s -> %s' % (defect, 'counterexample of %s in %d steps' % (inv, len(res['cex']))
                                                     if good else 'NOT DETECTED'))
    for d in sorted(glob.glob(os.path.join(core.VERIF, 'seeded', prop + '-*'))):
        if not os.path.exists(os.path.join(d, 'patch.diff')):
            continue
        r = subprocess.run([os.path.join(core.VERIF, 'tools_seeded.py'), 'eval', d],
                           stdout=subprocess.PIPE, stderr=subprocess.STDOUT)
        hist = json.load(open(os.path.join(d, 'results.json')))
        rc = list(hist[-1]['checks'].values())[0]['exit'] if hist and hist[-1].get('checks') else None
        print('selftest seeded change %-22s -> check exit %s' % (os.path.basename(d), rc))
        ok = ok and rc == 1
    print('selftest %s' % ('passed' if ok else 'FAILED'))
    return 0 if ok else 1
