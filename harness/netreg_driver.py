"""C16 driver: the real `_run._unshare_network` and `_finish._cleanup`
(-> `_cleanup_network`, `_cleanup_ephemeral_ports`) on a real node directory,
for schema-valid manifests and interleavings of several containers
(DESIGN.md section 6 C16, specs/node/NetReg.tla).

Real: appcfg.manifest.load (normalisation of the submitted manifest),
runtime.allocate_network_ports (sockets bound on 127.0.0.1), runtime.save_app /
load_app_safe (state.json round trip), LinuxAppEnvironment with its RuleMgr and
EndpointsMgr, the file based ResourceServiceClient (put/wait/get/delete), the
base service's _on_created/_on_deleted handlers and NetworkResourceService with
its VipMgr, iptables' ip-set helpers.
Stubbed: netdev (stateful fake), the `ipset` binary (command interpreter that keeps
the set contents), newnet.create_newnet, the firewall plugin, conntrack flush, rrd
and log archiving, DNS (socket.gethostbyname pinned to a table), os.getpid (each
container is started by its own `treadmill run` process).

The few lines of `_run.run` between "put the network request" and "call
_unshare_network" are transcribed in Node.start (run() itself execs s6-svscan).
"""
import errno
import ipaddress
import itertools
import json
import logging
import os
import random
import shutil
import socket
from unittest import mock

import yaml

from . import core, tlc
from .owners_driver import FakeNet, IpsetFake, _tla

SPEC_DIR = os.path.join(core.SPECS, 'node')

CIDR = '192.168.0.0/29'
EXT_IP = '127.0.0.1'       # allocate_network_ports really binds sockets on it
DNS = {'hosta.example.com': '10.1.1.1', 'hostb.example.com': '10.1.1.2',
       'alias-a.example.com': '10.1.1.1', '10.2.2.2': '10.2.2.2',
       # IPv4 addresses that are not written as canonical dotted quads (inet_aton forms)
       '10.3': '10.0.0.3', '192.168.7': '192.168.0.7'}
APPS = {'a1': 'proid.web#0000000001', 'a2': 'proid.db#0000000007'}
PIDS = {'c1': '4101', 'c2': '4202', 'c3': '4303'}
UNIQ = {'c1': 'uniq000000001', 'c2': 'uniq000000002', 'c3': 'uniq000000003'}


def header():
    core.ensure_repo_on_path()
    from treadmill import iptables
    net = ipaddress.IPv4Network(CIDR)
    return dict(extip=EXT_IP, pool=[str(h) for h in net.hosts()], dns=dict(DNS),
                # the configured port ranges (iptables.py; the host firewall is built from them)
                ranges=dict(prod=[iptables.PROD_PORT_LOW, iptables.PROD_PORT_HIGH],
                            nonprod=[iptables.NONPROD_PORT_LOW, iptables.NONPROD_PORT_HIGH]))


# ---------------------------------------------------------------------------
# raw (schema level) manifests
def raw_manifest(app='a1', eps=(), etcp=0, eudp=0, hosts=(), vring=False, shared=False, env='dev'):
    """eps: tuples (name, proto, port, infra)."""
    raw = dict(app=APPS.get(app, app), shared=bool(shared), vring=bool(vring), env=env,
               eps=[dict(name=n, proto=p, port=str(port), infra=bool(infra))
                    for n, p, port, infra in eps],
               etcp=int(etcp), eudp=int(eudp))
    raw['pass'] = list(hosts)
    return raw


EP_SHAPES = [
    (),
    (('http', 'tcp', 8000, False),),
    (('dns', 'udp', 0, True),),
    (('http', 'tcp', 8000, False), ('ssh', 'tcp', 0, True)),
    (('web', 'tcp', 8000, False), ('web', 'udp', 8000, False)),
    (('http', 'tcp', 0, False), ('dns', 'udp', 53, True), ('ssh', 'tcp', 22, True)),
]
HOST_SHAPES = [(), ('hosta.example.com',), ('hosta.example.com', 'alias-a.example.com'),
               ('hostb.example.com', '10.2.2.2'), ('10.3',), ('192.168.7', 'hosta.example.com')]


def raw_space(apps, thorough=False):
    out = []
    eph = [0, 1, 2] if thorough else [0, 1]
    hosts = HOST_SHAPES if thorough else [HOST_SHAPES[0], HOST_SHAPES[2]]
    for app in apps:
        for eps, t, u, h in itertools.product(EP_SHAPES, eph, eph, hosts):
            out.append(raw_manifest(app, eps, t, u, h, vring=bool(eps) and t == 0))
        out.append(raw_manifest(app, EP_SHAPES[3], 1, 1, HOST_SHAPES[1], shared=True))
    return out


def gen_raw(rng, app):
    """A random schema-valid manifest: 0-3 endpoints mixing tcp/udp/infra, 0-2
    ephemeral ports per protocol, 0-2 passthrough hosts, vring, shared network."""
    names = ['http', 'ssh', 'dns', 'web', 'grpc-1', 'a_b']
    eps = []
    for name in rng.sample(names, rng.randrange(0, 4)):
        eps.append((name, rng.choice(['tcp', 'udp']), rng.choice([0, 0, 22, 53, 8000, 8000, 65535]),
                    rng.random() < 0.4))
    if eps and rng.random() < 0.2:     # same endpoint name on both protocols
        n, p, port, infra = eps[0]
        eps.append((n, 'udp' if p == 'tcp' else 'tcp', port, rng.random() < 0.5))
    hosts = rng.sample(sorted(DNS), rng.randrange(0, 3))
    return raw_manifest(app, eps, rng.randrange(0, 3), rng.randrange(0, 3), hosts,
                        vring=rng.random() < 0.5, shared=rng.random() < 0.1,
                        env=rng.choice(['dev', 'dev', 'qa', 'uat', 'prod']))


def submitted_yaml(raw):
    """The manifest as the event manager writes it to cache/ (scheduled node +
    'task'): optional keys are left out when they have their default, as the
    schema allows."""
    eps = []
    for k, e in enumerate(raw['eps']):
        d = dict(name=e['name'], port=int(e['port']))
        if e['proto'] != 'tcp' or k % 2:
            d['proto'] = e['proto']
        if e['infra']:
            d['type'] = 'infra'
        eps.append(d)
    m = dict(proid='proid', environment=raw.get('env', 'dev'), cpu='10%', memory='100M', disk='100M',
             task=raw['app'].split('#')[1],
             services=[dict(name='web', command='/bin/true', restart=dict(limit=5, interval=60))])
    if eps:
        m['endpoints'] = eps
    eph = {}
    if raw['etcp']:
        eph['tcp'] = raw['etcp']
    if raw['eudp']:
        eph['udp'] = raw['eudp']
    if eph:
        m['ephemeral_ports'] = eph
    if raw['pass']:
        m['passthrough'] = list(raw['pass'])
    if raw['vring']:
        m['vring'] = dict(cells=['cell-b'], rules=[dict(pattern='proid.peer.*', endpoints=['http'])])
    if raw['shared']:
        m['shared_network'] = True
    return m


# ---------------------------------------------------------------------------
class _FirewallPlugin:
    def apply_exception_rules(self, *_a, **_kw):
        return None

    def cleanup_exception_rules(self, *_a, **_kw):
        return None


class Node:
    """One node directory with the real managers and the real network service,
    the harness playing the service's event loop (pump)."""

    def __init__(self, root, containers):
        core.ensure_repo_on_path()
        from treadmill import context, iptables
        from treadmill.appenv import _linux as appenv_linux
        from treadmill.services import network_service
        context.GLOBAL.cell = 'cellx'
        context.GLOBAL.zk.url = 'zookeeper://foo@localhost:2181/treadmill'
        self.root = root
        self.containers = list(containers)
        self.tm_env = appenv_linux.LinuxAppEnvironment(os.path.join(root, 'node'))
        for d in (self.tm_env.rules_dir, self.tm_env.apps_dir, self.tm_env.cache_dir,
                  self.tm_env.svc_network_dir):
            os.makedirs(d, exist_ok=True)
        self.net = FakeNet()
        self.ipset = IpsetFake([iptables.SET_PROD_CONTAINERS, iptables.SET_NONPROD_CONTAINERS,
                                iptables.SET_INFRA_SVC, iptables.SET_VRING_CONTAINERS])
        self.impl = network_service.NetworkResourceService(
            ext_device='eth0', ext_ip=EXT_IP, ext_mtu=1500, ext_speed=10000)
        self.known = set()
        self.unique = {}        # c -> unique name
        self.abstract = {}      # unique name -> c
        self.sockets = {}
        self.excname = ''

    def boot(self):
        self.impl.initialize(self.tm_env.svc_network_dir)
        self.impl.synchronize()

    # -- the network service's event loop -------------------------------------
    def pump(self):
        svc = self.tm_env.svc_network
        rsrc = os.path.join(self.tm_env.svc_network_dir, 'resources')
        now = {f for f in os.listdir(rsrc) if not f.startswith('.')}
        for f in sorted(self.known - now):
            svc._on_deleted(self.impl, os.path.join(rsrc, f))   # pylint: disable=W0212
        for f in sorted(now - self.known):
            svc._on_created(self.impl, os.path.join(rsrc, f))   # pylint: disable=W0212
        self.known = now

    # -- projection ---------------------------------------------------------------
    def _abs(self, name):
        return self.abstract.get(name, '?' + name)

    def project(self):
        from treadmill import firewall, iptables, rulefile

        def fld(x):
            return '*' if x in (None, firewall.ANY_IP, 0, '0') else str(x)
        rules = []
        for f in sorted(os.listdir(self.tm_env.rules_dir)):
            owner = self._abs(os.path.basename(os.readlink(os.path.join(self.tm_env.rules_dir, f))))
            parsed = rulefile.RuleMgr.get_rule(f)
            if parsed is None:
                r = ['raw', f] + ['*'] * 7
            else:
                chain, rule = parsed
                if isinstance(rule, firewall.PassThroughRule):
                    r = ['passthrough', chain, '*', fld(rule.src_ip), '*', fld(rule.dst_ip),
                         '*', '*', '*']
                else:
                    kind = 'dnat' if isinstance(rule, firewall.DNATRule) else 'snat'
                    r = [kind, chain, rule.proto, fld(rule.src_ip), fld(rule.src_port),
                         fld(rule.dst_ip), fld(rule.dst_port), fld(rule.new_ip), fld(rule.new_port)]
            rules.append([r, owner])
        specs = []
        for f in sorted(os.listdir(self.tm_env.endpoints_dir)):
            p = os.path.join(self.tm_env.endpoints_dir, f)
            try:
                owner = self._abs(os.path.basename(os.readlink(p)))
            except OSError:
                owner = '?notalink'
            parts = f.split('~')
            if len(parts) != 6:
                parts = ['raw', f, '', '', '', '']
            specs.append([parts, owner])
        infra = []
        for m in sorted(self.ipset.sets[iptables.SET_INFRA_SVC]):
            ip, rest = m.split(',', 1)
            proto, port = rest.split(':', 1)
            infra.append([ip, proto, port])
        vips_dir = os.path.join(self.tm_env.svc_network_dir, 'vips')
        net = []
        for f in sorted(os.listdir(vips_dir)):
            net.append([self._abs(os.path.basename(os.readlink(os.path.join(vips_dir, f)))), f])
        return dict(rules=rules, specs=specs,
                    vring=sorted(self.ipset.sets[iptables.SET_VRING_CONTAINERS]),
                    infra=infra, net=net)

    # -- events ---------------------------------------------------------------------
    def _guard(self, fn, *a):
        self.excname = ''
        try:
            return fn(*a)
        except tlc.MachineryError:
            raise
        except Exception as err:  # pylint: disable=W0703
            self.excname = '%s: %s' % (type(err).__name__, str(err)[:200])
            return 'raise', {}

    def start(self, c, raw, seed):
        return self._guard(self._start, c, raw, seed)

    def finish(self, c):
        res = self._guard(self._finish, c)[0]
        self.pump()         # the network service handles what the finish asked of it
        return res

    def finish_fail(self, c, k):
        """One finish attempt in which the k-th side-effecting call (an `ipset`
        command, the unlink of a rule file or endpoint spec, the release of the
        network resource) fails once with an I/O style error.  Returns
        (res, faulted): faulted is False when the attempt made fewer than k such
        calls (then it simply was a finish)."""
        from treadmill import iptables, subproc
        from treadmill.services import _base_service
        st = dict(n=0, hit=False)
        watched = (os.path.realpath(self.tm_env.rules_dir), os.path.realpath(self.tm_env.endpoints_dir))

        def tick(make_exc):
            st['n'] += 1
            if st['n'] == k and not st['hit']:
                st['hit'] = True
                raise make_exc()
        fake = self.ipset
        real_unlink = os.unlink
        real_delete = _base_service.ResourceServiceClient.delete

        def ipset(*a, **kw):
            tick(lambda: subproc.CalledProcessError(1, ['ipset'] + list(a)))
            return fake(*a, **kw)

        def unlink(path, *a, **kw):
            if isinstance(path, (str, bytes)) and \
                    os.path.realpath(os.path.dirname(os.fsdecode(path))) in watched:
                tick(lambda: OSError(errno.EIO, 'Input/output error', os.fsdecode(path)))
            return real_unlink(path, *a, **kw)

        def delete(client, rsrc_id):
            # only the release of the NETWORK resource is part of _cleanup_network
            if client._serviceinst is self.tm_env.svc_network:      # pylint: disable=W0212
                tick(lambda: OSError(errno.EIO, 'Input/output error', rsrc_id))
            return real_delete(client, rsrc_id)
        with mock.patch.object(iptables, '_ipset', ipset), \
                mock.patch.object(os, 'unlink', unlink), \
                mock.patch.object(_base_service.ResourceServiceClient, 'delete', delete):
            res = self._guard(self._finish, c)[0]
        # the fault belongs to the finish, not to the network service: the service
        # handles whatever the attempt asked of it after the hooks are gone
        self.pump()
        return res, st['hit']

    def _start(self, c, raw, seed):
        from treadmill import appcfg, fs, runtime
        from treadmill.appcfg import manifest as app_manifest
        from treadmill.runtime.linux import _run
        tm_env = self.tm_env
        name = raw['app']
        event = os.path.join(tm_env.cache_dir, name)
        with open(event, 'w') as f:
            yaml.safe_dump(submitted_yaml(raw), f)
        manifest = app_manifest.load(event)
        manifest['uniqueid'] = UNIQ[c]          # gen_uniqueid depends on ctime/inode
        unique_name = appcfg.manifest_unique_name(manifest)
        self.unique[c] = unique_name
        self.abstract[unique_name] = c
        container_dir = os.path.join(tm_env.apps_dir, unique_name, 'data')
        # ---- transcription of _run.run ----
        fs.mkdir_safe(os.path.join(container_dir, 'resources'))
        network_client = tm_env.svc_network.make_client(
            os.path.join(container_dir, 'resources', 'network'))
        if not manifest['shared_network']:
            network_client.put(unique_name, {'environment': manifest['environment']})
            self.pump()
            # the reply is there once the service handled the request (no blocking wait)
            app_network = network_client.wait(unique_name, timeout=0)
            manifest['network'] = app_network
            manifest['vip'] = {'ip0': app_network['gateway'], 'ip1': app_network['vip']}
        random.seed(seed)
        self.sockets[c] = runtime.allocate_network_ports(EXT_IP, manifest)
        app = runtime.save_app(manifest, container_dir)
        # the sockets as they are once the manifest is saved: open and bound?
        socks = [['tcp' if s.type == socket.SOCK_STREAM else 'udp', str(s.getsockname()[1])]
                 for s in self.sockets[c] if s.fileno() != -1]
        if not app.shared_network:
            with mock.patch('os.getpid', return_value=int(PIDS[c])):
                _run._unshare_network(tm_env, container_dir, app)   # pylint: disable=W0212
        if app.shared_network:
            # run(): "close sockets before starting the supervisor, as these ports will
            # be used by container apps"
            for s in self.sockets.pop(c):
                s.close()
        # ---- what was registered, read back from state.json ----
        rm = self.registered(c)
        rm['socks'] = socks
        return 'ok', rm

    def registered(self, c):
        state = json.load(open(os.path.join(self.tm_env.apps_dir, self.unique[c], 'data',
                                            'state.json')))
        return dict(
            app=state['name'], shared=bool(state['shared_network']),
            vring=bool(state['vring'].get('cells')), pid=PIDS[c], env=state['environment'],
            num={str(p): int(p) for p in
                 [e['real_port'] for e in state['endpoints']] +
                 state['ephemeral_ports']['tcp'] + state['ephemeral_ports']['udp']},
            eps=[dict(name=e['name'], proto=e['proto'], port=str(e['port']),
                      real=str(e['real_port']), infra=(e.get('type') == 'infra'))
                 for e in state['endpoints']],
            etcp=[str(p) for p in state['ephemeral_ports']['tcp']],
            eudp=[str(p) for p in state['ephemeral_ports']['udp']],
            **{'pass': sorted({DNS[h] for h in state['passthrough']})})

    def _finish(self, c):
        from treadmill import runtime
        from treadmill.runtime.linux import _finish
        for s in self.sockets.pop(c, []):
            s.close()
        unique_name = self.unique[c]
        data_dir = os.path.join(self.tm_env.apps_dir, unique_name, 'data')
        # ---- as _finish.finish does ----
        app = runtime.load_app_safe(unique_name, data_dir)
        if app:
            _finish._cleanup(self.tm_env, data_dir, app)     # pylint: disable=W0212
        return 'ok', {}

    def close(self):
        for socks in self.sockets.values():
            for s in socks:
                s.close()
        self.sockets = {}


def _gethostbyname(host):
    if host in DNS:
        return DNS[host]
    raise socket.gaierror(-2, 'Name or service not known')


def _plugin_load(namespace, name):
    if namespace == 'treadmill.firewall.plugins':
        return _FirewallPlugin()
    raise KeyError('%s:%s (no plugins in the harness)' % (namespace, name))


def replay(history, containers=('c1', 'c2', 'c3'), seed=1):
    """history: [('Start', c, raw) | ('Finish', c)].  Returns trace lines."""
    core.ensure_repo_on_path()
    from treadmill import iptables, netdev, newnet, plugin_manager, rrdutils, runtime
    from treadmill.runtime.linux import _finish
    from treadmill.services import network_service
    root = tlc.scratch('verif-net-')
    logging.disable(logging.CRITICAL)
    node = None
    try:
        node = Node(root, containers)
        with mock.patch.multiple(netdev, **node.net.patches()), \
                mock.patch.object(iptables, '_ipset', node.ipset), \
                mock.patch.object(iptables, 'flush_cnt_conntrack_table', lambda *_a: None), \
                mock.patch.object(network_service.NetworkResourceService, '_TM_CIDR', CIDR), \
                mock.patch.object(newnet, 'create_newnet', lambda *_a, **_k: None), \
                mock.patch.object(plugin_manager, 'load', _plugin_load), \
                mock.patch.object(rrdutils, 'flush_noexc', lambda *_a, **_k: None), \
                mock.patch.object(_finish, '_copy_metrics', lambda *_a, **_k: None), \
                mock.patch.object(runtime, 'archive_logs', lambda *_a, **_k: None), \
                mock.patch.object(socket, 'gethostbyname', _gethostbyname):
            node.boot()
            lines = [dict(ev='Init', c='', res='ok', exc='', raw={}, rm={}, post=node.project())]
            for k, step in enumerate(history):
                if step[0] == 'Start':
                    res, rm = node.start(step[1], step[2], seed * 1000 + k)
                    lines.append(dict(ev='Start', c=step[1], res=res, exc=node.excname,
                                      raw=step[2], socks=rm.pop('socks', []), rm=rm,
                                      post=node.project()))
                elif step[0] == 'FinishFail':
                    res, hit = node.finish_fail(step[1], int(step[2]))
                    # no call to fail (fewer than k): it simply was a finish
                    lines.append(dict(ev='FinishFail' if hit else 'Finish', c=step[1], res=res,
                                      exc=node.excname, k=int(step[2]), raw={}, rm={},
                                      post=node.project()))
                else:
                    res = node.finish(step[1])
                    lines.append(dict(ev='Finish', c=step[1], res=res, exc=node.excname,
                                      raw={}, rm={}, post=node.project()))
        return lines
    finally:
        if node is not None:
            node.close()
        logging.disable(logging.NOTSET)
        shutil.rmtree(root, ignore_errors=True)


# ---------------------------------------------------------------------------
# TLC side
def _rec(d):
    return '[' + ', '.join('%s |-> %s' % (k, _tlav(v)) for k, v in sorted(d.items())) + ']'


def _tlav(v):
    if isinstance(v, bool):
        return 'TRUE' if v else 'FALSE'
    if isinstance(v, dict):
        return _rec(v)
    if isinstance(v, (list, tuple)):
        return '<<' + ', '.join(_tlav(x) for x in v) + '>>'
    return _tla(v)


PORT_POOLS = dict(prod=['32768', '32769', '32770'], nonprod=['40960', '40961', '40962', '40963'])
BUSY = ['40961']


def ports_space():
    """A small manifest space for the port allocation focus: both range classes,
    port 0 and explicit ports, both protocols, ephemeral ports."""
    return [raw_manifest('a1', (('http', 'tcp', 0, False), ('dns', 'udp', 53, True)), 1, 0, env='dev'),
            raw_manifest('a1', (('http', 'tcp', 8000, False), ('ssh', 'tcp', 0, True)), 0, 1, env='prod'),
            raw_manifest('a2', (('web', 'tcp', 0, False), ('web', 'udp', 0, False)), 1, 1, env='qa'),
            raw_manifest('a2', (), 2, 2, env='uat'),
            raw_manifest('a2', (('http', 'tcp', 0, False),), 1, 0, env='dev', shared=True)]


def mc_files(containers, spaces, max_finish=2, max_fail=1, defects=(), tag='', alloc_any=False,
             invariants=('InvClauses', 'InvState', 'InvAllGone', 'InvPorts')):
    """spaces: container -> list of raw manifests."""
    mod = 'MC_NetReg%s' % tag
    pool = header()['pool'][:len(containers)]     # the choice of vip only matters up to symmetry
    ports = {c: [str(41000 + 1000 * k + j) for j in range(1, 10)]
             for k, c in enumerate(containers)}
    fun = lambda d: '(' + ' @@ '.join('%s :> %s' % (json.dumps(k), v) for k, v in sorted(d.items())) + ')'
    text = '\n'.join([
        '---- MODULE %s ----' % mod, 'EXTENDS NetReg',
        'McContainers == %s' % _tla(set(containers)),
        'McPool == %s' % _tla(pool),
        'McRawSpace == %s' % fun({c: '{' + ', '.join(_rec(r) for r in spaces[c]) + '}'
                                  for c in containers}),
        'McRealPorts == %s' % fun({c: _tla(ports[c]) for c in containers}),
        'McPids == %s' % fun({c: json.dumps(PIDS[c]) for c in containers}),
        'McDns == %s' % fun({h: json.dumps(ip) for h, ip in DNS.items()}),
        'McPortPool == %s' % fun({k: _tla(set(v)) for k, v in PORT_POOLS.items()}),
        'McBusy == %s' % _tla(set(BUSY)),
        'McDefects == %s' % _tla(set(defects)), '====', ''])
    cfg = ['INIT Init', 'NEXT Next', 'CHECK_DEADLOCK FALSE', 'CONSTANTS',
           ' Containers <- McContainers', ' Pool <- McPool', ' ExtIp = "%s"' % EXT_IP,
           ' RawSpace <- McRawSpace', ' RealPorts <- McRealPorts', ' Pids <- McPids',
           ' Dns <- McDns', ' Defects <- McDefects', ' MaxFinish = %d' % max_finish,
           ' MaxFail = %d' % max_fail, ' AllocAny = %s' % ('TRUE' if alloc_any else 'FALSE'),
           ' PortPool <- McPortPool', ' Busy <- McBusy']
    cfg += ['INVARIANT %s' % i for i in invariants]
    return mod, mod + '.cfg', {mod + '.tla': text, mod + '.cfg': '\n'.join(cfg) + '\n'}


def history_of(labels):
    """TLC labels -> [('Start', c, raw) | ('Finish', c)]; raw records come back
    from tlaval as dicts (tuples for sequences)."""
    out = []
    for name, args in labels:
        if name == 'Start':
            raw = dict(args[1])
            raw['eps'] = [dict(e) for e in raw['eps']]
            raw['pass'] = list(raw['pass'])
            out.append(('Start', str(args[0]), raw))
        elif name == 'Finish':
            out.append(('Finish', str(args[0])))
        elif name == 'FinishFail':
            # the model aborts after j of its six groups; the harness fails the
            # (2j+1)-th side-effecting call of the real attempt
            out.append(('FinishFail', str(args[0]), 2 * int(args[1]) + 1))
        else:
            raise tlc.MachineryError('unexpected label %r' % (name,))
    return out


def gen_random(rng, containers=('c1', 'c2', 'c3'), fail=0.4):
    """Two or three containers, each started once and finished once or twice, in a
    random interleaving; containers may be instances of the same application."""
    cs = list(containers[:rng.choice([2, 2, 3])])
    apps = {c: rng.choice(['a1', 'a1', 'a2']) for c in cs}
    todo = {c: ['Start'] + (['FinishFail'] if rng.random() < fail else []) +
               ['Finish'] * rng.choice([1, 2, 2]) for c in cs}
    hist = []
    while any(todo.values()):
        c = rng.choice([x for x in cs if todo[x]])
        ev = todo[c].pop(0)
        if ev == 'Start':
            hist.append(('Start', c, gen_raw(rng, apps[c])))
        elif ev == 'FinishFail':
            hist.append(('FinishFail', c, rng.randrange(1, 16)))
        else:
            hist.append(('Finish', c))
    return hist


def every_fault(base):
    """For a history without faults: one history per k = 1, 2, ... with
    FinishFail(c, k) put before the first finish of each container in turn."""
    out = []
    firsts = {}
    for idx, step in enumerate(base):
        if step[0] == 'Finish' and step[1] not in firsts:
            firsts[step[1]] = idx
    for c, idx in firsts.items():
        for k in range(1, 31):
            out.append(base[:idx] + [('FinishFail', c, k)] + base[idx:])
    return out


def validate(traces, timeout=900, cfg='NetRegTrace.cfg'):
    work = tlc.scratch('verif-batch-')
    try:
        path = os.path.join(work, 'batch.json')
        batch = header()
        batch['traces'] = [dict(tid=t['tid'], lines=t['lines']) for t in traces]
        with open(path, 'w') as f:
            json.dump(batch, f)
        return tlc.validate(SPEC_DIR, 'NetRegTrace', cfg, path, timeout=timeout)
    finally:
        shutil.rmtree(work, ignore_errors=True)
