"""Helpers for `./check <ID> --selftest` (DESIGN.md 4.4): code mutants.

A mutant run copies the python tree of the repository under test to a scratch
directory, applies the proposed fixes of the property that still apply (so the
baseline is a tree on which the check passes), applies ONE mutant patch from
/verif/mutants/<ID>-*.patch, runs `./check <ID>` against the copy and expects
exit 1.  The baseline (fixes only) is run as well and must exit 0.
"""
import glob
import os
import shutil
import subprocess
import sys

from . import core, tlc


def _apply(patch, root, required):
    args = ['patch', '-p1', '-s', '-f', '-d', root, '-i', patch]
    dry = subprocess.run(args + ['--dry-run'], stdout=subprocess.PIPE, stderr=subprocess.STDOUT)
    if dry.returncode != 0:
        if required:
            raise tlc.MachineryError('patch %s does not apply:\n%s' % (patch, dry.stdout.decode()[-800:]))
        return False
    subprocess.run(args, check=True, stdout=subprocess.PIPE, stderr=subprocess.STDOUT)
    return True


def _tree(prop):
    root = tlc.scratch('verif-mut-')
    shutil.copytree(os.path.join(core.REPO, 'lib', 'python', 'treadmill'),
                    os.path.join(root, 'lib', 'python', 'treadmill'),
                    ignore=shutil.ignore_patterns('__pycache__', '*.pyc', 'tests'))
    applied = [os.path.basename(f)
               for f in sorted(glob.glob(os.path.join(core.VERIF, 'proposed_fixes', '%s-*.patch' % prop)))
               if _apply(f, root, required=False)]
    return root, applied


def _check(prop, root):
    env = dict(os.environ, VERIF_REPO=root, VERIF_TIER='quick')
    env.pop('_VERIF_REEXEC', None)
    p = subprocess.run([sys.executable, os.path.join(core.VERIF, 'check'), prop], env=env,
                       stdout=subprocess.PIPE, stderr=subprocess.STDOUT)
    out = p.stdout.decode('utf-8', 'replace')
    sigs = sorted({l.split('signature=')[1].split(' ')[0] for l in out.splitlines() if 'signature=' in l})
    return p.returncode, sigs


def run_mutants(ctx, prop):
    """-> list of problems (empty = every mutant was caught, baseline clean)."""
    problems = []
    root, applied = _tree(prop)
    try:
        rc, sigs = _check(prop, root)
        ctx.log('baseline (proposed fixes applied: %s): exit %d %s' % (applied or 'none needed', rc, sigs))
        if rc != 0:
            problems.append('baseline with proposed fixes exits %d %s' % (rc, sigs))
    finally:
        shutil.rmtree(root, ignore_errors=True)
    for m in sorted(glob.glob(os.path.join(core.VERIF, 'mutants', '%s-*.patch' % prop))):
        root, _ = _tree(prop)
        try:
            _apply(m, root, required=True)
            rc, sigs = _check(prop, root)
            ctx.log('mutant %s: exit %d %s' % (os.path.basename(m), rc, sigs))
            if rc != 1:
                problems.append('mutant %s not caught (exit %d)' % (os.path.basename(m), rc))
        finally:
            shutil.rmtree(root, ignore_errors=True)
    return problems
