"""Thin, careful wrappers around TLC (tla2tools 1.8):

  mc()        exhaustive model check of <module>.tla with <cfg>, parsed stats and
              per-action coverage, counterexample (as action labels) if any
  simulate()  random behaviours of a generator cfg -> list of label sequences
  validate()  run a *Trace.tla spec over a batch of recorded traces and collect
              the JSON verdict lines it prints

Every call runs in a private scratch dir (removed afterwards) and under a
timeout.  Nothing here decides anything about the code under test.
"""
import concurrent.futures
import json
import os
import re
import shutil
import subprocess
import tempfile
import time

from . import tlaval

JAR = '/opt/veriftools/tla/tla2tools.jar'
CM = '/opt/veriftools/tla/CommunityModules-deps.jar'


class MachineryError(Exception):
    """TLC could not be run / parsed: exit 2, never a VIOLATION."""


def _classpath():
    cands = [JAR]
    d = os.path.dirname(JAR)
    for f in sorted(os.listdir(d)):
        if f.endswith('.jar') and os.path.join(d, f) not in cands:
            cands.append(os.path.join(d, f))
    return ':'.join(cands)


def scratch(prefix='verif-'):
    return tempfile.mkdtemp(prefix=prefix, dir=os.environ.get('VERIF_TMP', '/tmp'))


def _run(args, cwd, timeout, env_extra=None, heap='4g'):
    env = dict(os.environ)
    if env_extra:
        env.update(env_extra)
    jtmp = os.path.join(cwd, 'jtmp')
    os.makedirs(jtmp, exist_ok=True)
    cmd = ['java', '-Xmx' + heap, '-XX:+UseParallelGC', '-Djava.io.tmpdir=' + jtmp,
           '-cp', _classpath(), 'tlc2.TLC'] + args
    t0 = time.time()
    try:
        p = subprocess.run(cmd, cwd=cwd, env=env, stdout=subprocess.PIPE,
                           stderr=subprocess.STDOUT, timeout=timeout)
        out = p.stdout.decode('utf-8', 'replace')
        rc = p.returncode
    except subprocess.TimeoutExpired as e:
        out = (e.stdout or b'').decode('utf-8', 'replace')
        rc = -9
    return rc, out, time.time() - t0, ' '.join(cmd)


_LABEL = re.compile(r'^\\\* <(\w+)(?:\((.*)\))? line \d+, col \d+ to line \d+, col \d+ of module (\w+)>')
_STATE_HDR = re.compile(r'^State (\d+): <(\w+)(?:\((.*)\))? line \d+')
_COV = re.compile(r'^<(\w+) line (\d+), col \d+ to line \d+, col \d+ of module (\w+)(?: \([\d ]+\))?>: (\d+):(\d+)')
_STATS = re.compile(r'(\d+) states generated, (\d+) distinct states found, (\d+) states left on queue')
_DEPTH = re.compile(r'The depth of the complete state graph search is (\d+)')


def _stage(spec_dir, work, extra_files=None):
    """Copy all .tla/.cfg of spec_dir (and specs/common) to work."""
    for name, text in (extra_files or {}).items():
        with open(os.path.join(work, name), 'w') as f:
            f.write(text)
    for d in (os.path.join(os.path.dirname(spec_dir.rstrip('/')), 'common'), spec_dir):
        if os.path.isdir(d):
            for f in os.listdir(d):
                if f.endswith('.tla') or f.endswith('.cfg'):
                    shutil.copy(os.path.join(d, f), os.path.join(work, f))


def mc(spec_dir, module, cfg, workers=16, timeout=900, coverage=True,
       heap='8g', extra_cfg_text=None, env=None, extra_files=None):
    """Exhaustive check.  Returns dict(ok, generated, distinct, depth, coverage,
    violated, cex, wall_s, cmd, out, timed_out)."""
    work = scratch('verif-mc-')
    try:
        _stage(spec_dir, work, extra_files)
        cfgname = cfg
        if extra_cfg_text is not None:
            cfgname = 'gen_' + cfg
            with open(os.path.join(work, cfgname), 'w') as f:
                f.write(open(os.path.join(work, cfg)).read() + '\n' + extra_cfg_text)
        args = ['-workers', str(workers), '-metadir', os.path.join(work, 'meta'),
                '-noGenerateSpecTE', '-config', cfgname]
        if coverage:
            args += ['-coverage', '1']
        args += [module + '.tla']
        rc, out, wall, cmd = _run(args, work, timeout, env_extra=env, heap=heap)
        res = dict(ok=(rc == 0), rc=rc, wall_s=round(wall, 2), cmd=cmd,
                   timed_out=(rc == -9), generated=0, distinct=0, depth=0,
                   coverage={}, violated=None, cex=[], out=out)
        for line in out.splitlines():
            m = _STATS.search(line)
            if m:
                res['generated'] = int(m.group(1))
                res['distinct'] = int(m.group(2))
            m = _DEPTH.search(line)
            if m:
                res['depth'] = int(m.group(1))
            m = _COV.match(line)
            if m:
                name = m.group(1)
                cur = res['coverage'].get(name, [0, 0])
                res['coverage'][name] = [cur[0] + int(m.group(4)), cur[1] + int(m.group(5))]
            m = re.search(r'Invariant (\w+) is violated', line)
            if m:
                res['violated'] = m.group(1)
            m = re.search(r'Action property (\w+) is violated', line)
            if m:
                res['violated'] = m.group(1)
            m = _STATE_HDR.match(line)
            if m:
                res['cex'].append((m.group(2), m.group(3) or ''))
        if rc not in (0, 12, 13, -9):
            raise MachineryError('TLC failed rc=%s on %s/%s\n%s' % (rc, module, cfg, out[-3000:]))
        return res
    finally:
        shutil.rmtree(work, ignore_errors=True)


def _sim_one(spec_dir, module, cfg, num, depth, seed, timeout, env, extra_files=None):
    work = scratch('verif-sim-')
    try:
        _stage(spec_dir, work, extra_files)
        os.mkdir(os.path.join(work, 'sim'))
        args = ['-simulate', 'file=%s/sim/tr,num=%d' % (work, num), '-depth', str(depth),
                '-seed', str(seed), '-workers', '1', '-metadir', os.path.join(work, 'meta'),
                '-noGenerateSpecTE', '-config', cfg, module + '.tla']
        rc, out, wall, cmd = _run(args, work, timeout, env_extra=env, heap='2g')
        if rc not in (0, -9) and 'traces generated' not in out:
            raise MachineryError('TLC simulate failed rc=%s\n%s' % (rc, out[-3000:]))
        behaviours = []
        for f in sorted(os.listdir(os.path.join(work, 'sim'))):
            labels = []
            for line in open(os.path.join(work, 'sim', f)):
                m = _LABEL.match(line)
                if m and m.group(1) != 'Init':
                    try:
                        labels.append((m.group(1), tlaval.split_args(m.group(2) or '')))
                    except tlaval.ParseError as e:
                        raise MachineryError('label parse: %s in %r' % (e, line))
            if labels:
                behaviours.append(labels)
        return behaviours, cmd
    finally:
        shutil.rmtree(work, ignore_errors=True)


def simulate(spec_dir, module, cfg, num, depth, seed, procs=8, timeout=300, env=None,
             extra_files=None):
    """Generate ~num behaviours of exactly `depth` steps (TLC writes only those
    reaching depth), as lists of (action, [args]).  Deterministic in seed."""
    procs = max(1, min(procs, num))
    per = (num + procs - 1) // procs
    out = []
    cmd0 = None
    with concurrent.futures.ThreadPoolExecutor(procs) as ex:
        futs = [ex.submit(_sim_one, spec_dir, module, cfg, per, depth,
                          (seed * 1000003 + k * 7919) % (2 ** 31 - 1) + 1, timeout, env,
                          extra_files)
                for k in range(procs)]
        for f in futs:
            bs, cmd = f.result()
            cmd0 = cmd0 or cmd
            out.extend(bs)
    return out[:num], cmd0


def validate(spec_dir, module, cfg, trace_path, timeout=900, heap='8g', workers=1):
    """Run a trace spec over the batch in trace_path (env TRACE_FILE).  The spec
    prints one PrintT(ToJson(record)) line per judged step; returns
    (list of verdict dicts, stats dict)."""
    work = scratch('verif-val-')
    try:
        _stage(spec_dir, work)
        args = ['-workers', str(workers), '-metadir', os.path.join(work, 'meta'),
                '-noGenerateSpecTE', '-config', cfg, module + '.tla']
        rc, out, wall, cmd = _run(args, work, timeout,
                                  env_extra={'TRACE_FILE': trace_path}, heap=heap)
        if rc != 0:
            brief = '\n'.join(l for l in out.splitlines()
                              if not l.startswith(('Parsing file', 'Semantic processing', 'Linting')))
            raise MachineryError('trace validation TLC rc=%s (%s/%s)\n%s'
                                 % (rc, module, cfg, brief[-2500:]))
        verdicts = []
        for line in out.splitlines():
            line = line.strip()
            if line.startswith('"{') and line.endswith('}"'):
                try:
                    verdicts.append(json.loads(json.loads(line)))
                except ValueError:
                    raise MachineryError('bad verdict line %r' % line[:200])
        stats = dict(wall_s=round(wall, 2), cmd=cmd + ' (TRACE_FILE=<batch>)')
        m = _STATS.search(out)
        if m:
            stats['generated'] = int(m.group(1))
            stats['distinct'] = int(m.group(2))
        return verdicts, stats
    finally:
        shutil.rmtree(work, ignore_errors=True)


def apalache(spec_dir, module, init, inv, length, timeout=600):
    """apalache-mc check --init --inv --length on a typed spec; returns dict(ok, wall_s, cmd, out)."""
    work = scratch('verif-apa-')
    try:
        _stage(spec_dir, work)
        cmd = ['apalache-mc', 'check', '--init=' + init, '--inv=' + inv, '--length=%d' % length,
               '--out-dir=' + os.path.join(work, 'out'), module + '.tla']
        t0 = time.time()
        try:
            p = subprocess.run(cmd, cwd=work, stdout=subprocess.PIPE, stderr=subprocess.STDOUT,
                               timeout=timeout, env=dict(os.environ, JVM_ARGS='-Xmx4g'))
            out = p.stdout.decode('utf-8', 'replace')
            rc = p.returncode
        except (subprocess.TimeoutExpired, OSError) as e:
            out, rc = str(e), -9
        return dict(ok=(rc == 0 and 'EXITCODE: OK' in out), rc=rc, wall_s=round(time.time() - t0, 1),
                    cmd=' '.join(cmd[:6] + [module + '.tla']), out=out[-2000:])
    finally:
        shutil.rmtree(work, ignore_errors=True)
