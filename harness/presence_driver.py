"""C17 driver: two REAL treadmill.services.presence_service.PresenceResourceService
objects (one per host), each on its own zkfake client (= its own ZooKeeper
session) over one shared ZkStore, executed under a turnstile so that a schedule
(which service performs the next ZooKeeper call, when a session expires, in which
order watch callbacks and restart scans arrive) is enforced exactly.

What is real: PresenceResourceService (on_create_request, on_delete_request,
_safe_create, _safe_delete, _watch), zkutils, the request plumbing of
services/_base_service.py (ResourceServiceClient.put/delete, clt_new_request,
_on_created, _on_deleted, _check_requests, retry_request/_update_request) on a
real scratch directory.  What the driver plays: the service's main loop
(inotify queue = FIFO list of request events; one request at a time per host),
process exit on session loss (the request thread is abandoned at its next
ZooKeeper call), service restart (new client, new service objects, scan of the
request directory).  Stubbed: sysinfo.hostname (fixed per host),
context.GLOBAL.zk.conn (the host's client), utils.sys_exit (must not kill the
checker), glob order inside _check_requests (chosen by the schedule: the order
of a directory listing is arbitrary).

No sleeps and no wall-clock ordering: exactly one request thread runs at any
time, every ZooKeeper call of a request thread stops at the store's gate until
the controller releases it, the controller waits (condition variable) until the
thread is at its next gate or has finished.  A watchdog turns a stuck hand-over
into tlc.MachineryError.

Recorded line (one JSON object per event, see PresenceTrace.tla):
  ev      init | submit | finish | begin | call | end | expire | crash | restart | reap
  h, c    host / container        k   request kind (create | delete)
  call:   s session, op, path, res, seen (owner returned by get, -1), rk, rc
          (request in flight), w = writes applied by the call as the store logged
          them [{op, path, o (owner at that instant, -1 none), a (applied)}],
          fired = [[host, container]] retry_request calls in the order applied
  extension (World(ext=True), DESIGN.md 10.6): the helpers of treadmill/presence.py run
          by an administrator thread under the same turnstile -- abegin {kind kill|unreg,
          h, a}, acall {s 900, rk, rh, ra, op, path, res, w, fired} = ONE ZooKeeper
          call of presence.kill_node / EndpointPresence.unregister_*, aend {res}
  _unschedule (World(ext=True), trace/app/zk.py): the scheduler's place {a, h} / withdraw
          {a, h} / rmroot (atomic, set-up client); a host publishes a trace event through
          the real publish() under the turnstile -- pbegin {h, a, ty}, pcall {s 950+i, rh,
          ra, op, pk (trace | finished | placement | scheduled | other), path, res, found
          (what exists returned), w}, pend {res}
  register_* (World(ext=True), presence.py): a container is registered through the real
          EndpointPresence.register() / register_identity / _running / _endpoints from a
          NEW session per run (801, 802, ...), its retry loop's time.sleep being a gate
          of the turnstile -- rbegin {h, c, kind, s}, rcall {s, rh, rc, op create|get|sleep,
          path, res, w}, rend {res ok|abort}; afterwards the run's session lingers until reap
  post    nodes {path: {d, o}}, pres {host: {path: container}} (the services' maps),
          queue {host: [[kind, c]]}, active {host: [c]}, sess {host: n}, linger [n],
          next {host: [op, path] the call the request in flight is stopped at, or []},
          anext [op, path] the call the helper run is stopped at, or [],
          sch {instance: /scheduled/<app> exists}, plc {instance: [hosts the scheduler placed
          it on]}, proot (/placement exists), fin {instance: /finished/<app> exists},
          pnext [op, path kind] the call the publication is stopped at, or [],
          rnext [op, path] the step the registration run is stopped at, or []
"""
import glob as _glob
import hashlib
import logging
import os
import shutil
import threading

import mock

from . import core, tlc, zkfake

core.ensure_repo_on_path()

WATCHDOG_S = 60.0
ADMIN_SESSION = 900     # session of the administrator in the log (AdmSess in Presence.tla)
PUB_SESSION = 950       # + host index: the host's trace-event publisher (PubSess)
REG_SESSION = 800       # + n: the n-th EndpointPresence registration run (RegSess)
_REAL_GLOB = _glob.glob


class Abandoned(BaseException):
    """Raised inside an abandoned request thread at its next ZooKeeper call: the
    service process has exited (zkutils.exit_on_lost)."""


# ---------------------------------------------------------------------------
# scenarios
def _inst_app(inst, k):
    return 'foo.%s#%010d' % (inst, k)


def make_scn(name, conts, hosts=('host1', 'host2'), endpoints=('http',), identity=True, apps=None,
             idents=None):
    """conts: list of (container, instance) oldest first; apps: instance -> app name
    (default foo.<instance>#<n>); idents: container -> identity number where it is not its
    instance's (the instance was assigned another identity when it was scheduled again)."""
    insts = []
    for _, a in conts:
        if a not in insts:
            insts.append(a)
    app = {a: _inst_app(a, i + 1) for i, a in enumerate(insts)}
    app.update(apps or {})
    paths = {}
    for i, a in enumerate(insts):
        proid, rest = app[a].split('.', 1)
        ps = ['/running/' + app[a]]
        ps += ['/endpoints/%s/%s:tcp:%s' % (proid, rest, e) for e in endpoints]
        if identity:
            ps.append('/identity-groups/grp/%d' % i)
        paths[a] = ps
    rid, port = {}, {}
    for j, (c, a) in enumerate(conts):
        rid[c] = '%s-uniq%09d' % (app[a].replace('#', '-'), j + 1)
        port[c] = 32000 + 10 * (j + 1)
    data = {}
    for h in hosts:
        data[h] = {}
        for j, (c, a) in enumerate(conts):
            ds = [h]
            ds += ['%s:%d' % (h, port[c] + e) for e in range(len(endpoints))]
            if identity:
                ds.append('{"app": "%s", "host": "%s"}' % (app[a], h))
            data[h][c] = ds
    cpaths, ident_c = {}, {}
    for c, n in (idents or {}).items():
        a = dict(conts)[c]
        cpaths[c] = paths[a][:-1] + ['/identity-groups/grp/%d' % n]
        ident_c[c] = n
    ext = dict(srv={h: '/servers/' + h for h in hosts},
               plc={h: '/placement/' + h for h in hosts},
               sch={a: '/scheduled/' + app[a] for a in insts},
               sproot='/server.presence',
               sp={h: '/server.presence/%s#%010d' % (h, i + 1) for i, h in enumerate(hosts)},
               # the order zkfake's get_children lists the placements in (a fixed scramble)
               iorder=sorted(insts, key=lambda a: hashlib.md5(app[a].encode('utf8')).digest()),
               fin={a: '/finished/' + app[a] for a in insts},
               plcp={h: {a: '/placement/%s/%s' % (h, app[a]) for a in insts} for h in hosts})
    return dict(name=name, hosts=list(hosts), conts=[c for c, _ in conts],
                inst={c: a for c, a in conts}, paths=paths, data=data,
                app=app, rid=rid, port=port, endpoints=list(endpoints), identity=identity,
                identity_of={a: i for i, a in enumerate(insts)}, ext=ext, cpaths=cpaths,
                ident_c=ident_c)


SCENARIOS = {
    # model-checked configurations
    'a2': make_scn('a2', [('c1', 'a'), ('c2', 'a')]),
    'a2b1': make_scn('a2b1', [('c1', 'a'), ('c2', 'a'), ('c3', 'b')]),
    'a3': make_scn('a3', [('c1', 'a'), ('c2', 'a'), ('c3', 'a')]),
    'k2': make_scn('k2', [('c1', 'a'), ('c2', 'a')], endpoints=()),       # extension, quick tier
    # names that share a prefix (helpers of presence.py compare DATA with the host name):
    # hosts host1 / host10, two instances of one app (#1 / #10: endpoints of another instance
    # of the same app, identities 0 / 1 of the same group)
    'px': make_scn('px', [('c1', 'a'), ('c2', 'b'), ('c3', 'a')], hosts=('host1', 'host10'),
                   apps={'a': 'foo.app#0000000001', 'b': 'foo.app#0000000010'}),
    # the instance gets another identity when it is scheduled again: c2 (instance a) is
    # assigned identity 1, which c3 of instance b holds
    'i3': make_scn('i3', [('c1', 'a'), ('c2', 'a'), ('c3', 'b')], idents={'c2': 1}),
    'py': make_scn('py', [('c1', 'a'), ('c2', 'a'), ('c3', 'b')], hosts=('node', 'node-b'),
                   apps={'a': 'proid.app#0000000001', 'b': 'proid.app#0000000010'}),
    # beyond the model-checked constants (random schedules only)
    'a3b2e2': make_scn('a3b2e2', [('c1', 'a'), ('c2', 'a'), ('c3', 'b'), ('c4', 'a'), ('c5', 'b')],
                       endpoints=('http', 'ssh')),
    'a2b1h3': make_scn('a2b1h3', [('c1', 'a'), ('c2', 'a'), ('c3', 'b')],
                       hosts=('host1', 'host2', 'host3')),
}


def _retry_count():
    from treadmill import presence
    return int(getattr(presence, '_EPHEMERAL_RETRY_COUNT', 13))


def header(scn, ext=False):
    """What the trace spec needs to know about the scenario (ext: the server
    presence nodes exist, i.e. the trace was recorded by World(ext=True))."""
    return dict(hosts=scn['hosts'], conts=scn['conts'], inst=scn['inst'], paths=scn['paths'],
                data=scn['data'], kidx=list(range(1, 2 + len(scn['endpoints']))),
                allpaths=[p for a in scn['paths'] for p in scn['paths'][a]], cpaths=scn['cpaths'],
                retries=_retry_count(),
                ext=dict(scn['ext'], sp=scn['ext']['sp'] if ext else {}))


# ---------------------------------------------------------------------------
class _Slot:
    def __init__(self, host, kind, cont):
        self.host, self.kind, self.cont = host, kind, cont
        self.state = 'new'          # running | gate | done
        self.go = False
        self.abandoned = False
        self.pending = None
        self.thread = None
        self.exc = None
        self.res = None             # result of the request as the service computed it


class Turnstile:
    """Hand-over between the controller and request threads."""

    def __init__(self):
        self.cv = threading.Condition()
        self.slots = {}

    def gate(self, _session, op, path):
        slot = self.slots.get(threading.get_ident())
        if slot is None:
            return                   # controller / set-up calls are not gated
        with self.cv:
            if slot.abandoned:
                raise Abandoned()
            slot.pending = (op, path)
            slot.state = 'gate'
            self.cv.notify_all()
            while not slot.go and not slot.abandoned:
                if not self.cv.wait(WATCHDOG_S * 2):
                    slot.abandoned = True        # the controller is gone
            if slot.abandoned:
                raise Abandoned()
            slot.go = False
            slot.state = 'running'

    def start(self, slot, fn):
        def body():
            ident = threading.get_ident()
            self.slots[ident] = slot
            try:
                # the service handles requests on its process's main thread, where
                # treadmill.logcontext initialised its thread-local stack
                from treadmill import logcontext
                logcontext.LOCAL_.ctx = []
                fn()
            except Abandoned:
                slot.exc = 'Abandoned'
            except BaseException as e:  # pylint: disable=broad-except
                slot.exc = e
            finally:
                self.slots.pop(ident, None)
                with self.cv:
                    slot.state = 'done'
                    self.cv.notify_all()
        slot.state = 'running'
        slot.thread = threading.Thread(target=body, name='req-%s-%s' % (slot.host, slot.cont),
                                       daemon=True)
        slot.thread.start()
        self._wait(slot)

    def _wait(self, slot):
        with self.cv:
            ok = self.cv.wait_for(lambda: slot.state in ('gate', 'done'), WATCHDOG_S)
        if not ok:
            raise tlc.MachineryError('turnstile: request %s/%s on %s neither reached a ZooKeeper '
                                     'call nor finished within %ds'
                                     % (slot.kind, slot.cont, slot.host, WATCHDOG_S))

    def step(self, slot):
        with self.cv:
            if slot.state != 'gate':
                raise tlc.MachineryError('turnstile: step on a thread that is not at the gate')
            slot.go = True
            slot.state = 'running'
            self.cv.notify_all()
        self._wait(slot)

    def abandon(self, slot):
        with self.cv:
            slot.abandoned = True
            self.cv.notify_all()
        if slot.thread is not None:
            slot.thread.join(WATCHDOG_S)
            if slot.thread.is_alive():
                raise tlc.MachineryError('turnstile: abandoned request thread did not end')


class GatedClient(zkfake.ZkFakeClient):
    """zkfake client that reports every call (after it passed the gate) with its
    result and the store's write-log entries.  DataWatch registration counts as
    one ZooKeeper call ('watch'), as in kazoo where it is a get/exists with a
    watcher."""

    def __init__(self, store, world):
        super().__init__(store)
        self.world = world
        self.cur = None

    def _enter(self, op, path):
        super()._enter(op, path)
        self.cur = dict(op=op, path=path, res='ok', seen=-1, n0=len(self.store.log), w=[])
        self.world.calls.append((self, self.cur))

    def _run(self, fn):
        self.cur = None
        try:
            return fn()
        except zkfake.NoNodeError:
            self._res('NoNode')
            raise
        except zkfake.NodeExistsError:
            self._res('NodeExists')
            raise
        except zkfake.SessionExpiredError:
            self._res('SessionExpired')
            raise
        except Exception as e:  # pylint: disable=broad-except
            self._res('exc:' + type(e).__name__)
            raise
        finally:
            if self.cur is not None:
                self.cur['w'] = list(self.store.log[self.cur['n0']:])

    def _res(self, r):
        if self.cur is not None:
            self.cur['res'] = r

    def create(self, *a, **k):
        return self._run(lambda: zkfake.ZkFakeClient.create(self, *a, **k))

    def get(self, *a, **k):
        def fn():
            r = zkfake.ZkFakeClient.get(self, *a, **k)
            self.cur['seen'] = r[1].ephemeralOwner
            self.cur['gd'] = r[0].decode('utf-8', 'replace') if isinstance(r[0], bytes) else ''
            return r
        return self._run(fn)

    def set(self, *a, **k):
        return self._run(lambda: zkfake.ZkFakeClient.set(self, *a, **k))

    def delete(self, *a, **k):
        return self._run(lambda: zkfake.ZkFakeClient.delete(self, *a, **k))

    def get_children(self, *a, **k):
        return self._run(lambda: zkfake.ZkFakeClient.get_children(self, *a, **k))

    def exists(self, *a, **k):
        def fn():
            r = zkfake.ZkFakeClient.exists(self, *a, **k)
            self.cur['found'] = r is not None
            return r
        return self._run(fn)

    def set_acls(self, *a, **k):
        return self._run(lambda: zkfake.ZkFakeClient.set_acls(self, *a, **k))

    def ensure_path(self, *a, **k):
        return self._run(lambda: zkfake.ZkFakeClient.ensure_path(self, *a, **k))

    def DataWatch(self, path, func=None):  # pylint: disable=invalid-name
        def register(fn):
            def go():
                self._enter('watch', zkfake._norm(path))  # pylint: disable=protected-access
                return zkfake.ZkFakeClient.DataWatch(self, path, fn)
            return self._run(go)
        if func is not None:
            return register(func)
        return register


class _Host:
    def __init__(self, name):
        self.name = name
        self.client = None
        self.impl = None
        self.rs = None
        self.queue = []             # [(kind, cont)]
        self.slot = None            # request in flight
        self.up = True


_CURRENT = [None]


class World:
    """The two hosts, the shared store and the recorded trace."""

    def __init__(self, scn, root, max_expire=2, ext=False, max_help=1):
        from treadmill import services, sysinfo, utils
        from treadmill.services import presence_service, _base_service
        if _CURRENT[0] is not None:
            raise tlc.MachineryError('presence_driver: one World at a time')
        logging.getLogger('treadmill').setLevel(logging.CRITICAL + 1)
        logging.getLogger('kazoo').setLevel(logging.CRITICAL + 1)
        self.scn = scn
        self.root = root
        self.max_expire = max_expire
        self.ext = ext
        self.max_help = max_help
        self.nhelp = 0
        self.admin = None
        self.aslot = None           # helper run in flight
        self.pslot = None           # publication in flight
        self.rslot = None           # EndpointPresence registration run in flight
        self.rclient = None
        self.nreg = 0
        self.pubs = {}              # host -> publisher client
        self.npub = 0
        self.nsch = 0
        self.sub_placed = set()     # (host, instance) placement nodes made by submit()
        self.services = services
        self.base = _base_service
        self.cls = presence_service.PresenceResourceService
        self.turn = Turnstile()
        self.store = zkfake.ZkStore()
        self.store.gate = self.turn.gate
        self.calls = []             # (client, call record) since the last drain
        self.retries = []           # (impl, rsrc_id) since the last drain
        self.sys_exit = []
        self.sid = {}               # fake session -> 1, 2, ...
        self.nsess = 0
        self.clients = {}           # id(impl) -> client
        self.impls = []             # keep every impl alive (ids stay unique)
        self.cname = {r: c for c, r in scn['rid'].items()}
        self.submitted = []
        self.where = {}
        self.nexp = 0
        self.linger = []            # fake sessions of crashed services, still alive
        self.lines = []
        self.schedule = []          # the actions as executed (resolved arguments)
        self.skipped = 0
        self._hostname = [None]
        self._glob_order = [None]

        world = self
        cls = self.cls
        orig_create = cls.on_create_request
        orig_delete = cls.on_delete_request
        self._orig_retry = cls.retry_request

        def zkclient(impl):
            return world.clients[id(impl)]

        def retry_request(impl, rsrc_id):
            world.retries.append((impl, rsrc_id))

        def on_create_request(impl, rsrc_id, rsrc_data):
            slot = world.turn.slots.get(threading.get_ident())
            try:
                res = orig_create(impl, rsrc_id, rsrc_data)
            except Exception as e:
                if slot is not None:
                    slot.res = 'error:' + type(e).__name__
                raise
            if slot is not None:
                slot.res = 'wait' if res is None else 'ok'
            return res

        def on_delete_request(impl, rsrc_id):
            slot = world.turn.slots.get(threading.get_ident())
            try:
                res = orig_delete(impl, rsrc_id)
            except Exception as e:
                if slot is not None:
                    slot.res = 'error:' + type(e).__name__
                raise
            if slot is not None:
                slot.res = 'ok'
            return res

        def sys_exit(code):
            world.sys_exit.append(code)
            raise Abandoned()

        import time as _time
        real_sleep = _time.sleep

        def fake_sleep(secs):
            # the retry loop of presence._create_ephemeral_with_retry waits on the turnstile
            if threading.get_ident() in world.turn.slots:
                world.turn.gate(None, 'sleep', '')
            else:
                real_sleep(secs)

        def fake_glob(pattern, *a, **k):
            order = world._glob_order[0]
            real = _REAL_GLOB(pattern, *a, **k)
            if order is None:
                return sorted(real)
            want = [p for p in order if p in real]
            return want + sorted(p for p in real if p not in want)

        self._patches = [
            mock.patch.object(cls, 'zkclient', property(zkclient)),
            mock.patch.object(cls, 'retry_request', retry_request),
            mock.patch.object(cls, 'on_create_request', on_create_request),
            mock.patch.object(cls, 'on_delete_request', on_delete_request),
            mock.patch.object(sysinfo, 'hostname', lambda: world._hostname[0]),
            mock.patch.object(utils, 'sys_exit', sys_exit),
            mock.patch.object(_base_service.glob, 'glob', fake_glob),
        ]
        if ext:
            from treadmill import presence as _presence
            self._patches.append(mock.patch.object(_presence.time, 'sleep', fake_sleep))
        for p in self._patches:
            p.start()
        _CURRENT[0] = self
        try:
            setup = zkfake.ZkFakeClient(self.store)
            for a in scn['paths']:
                for p in scn['paths'][a]:
                    setup.ensure_path(p.rsplit('/', 1)[0])
            if ext:
                self._setup_ext(setup)
            self.static = set(self.store.nodes)
            if ext:
                # server presence nodes: ephemeral nodes of the node's own init process
                for i, h in enumerate(scn['hosts']):
                    node = zkfake.ZkFakeClient(self.store)
                    self.sid[node.session] = ADMIN_SESSION + 1 + i
                    node.create(scn['ext']['sp'][h], b'', ephemeral=True)
                self.admin = GatedClient(self.store, self)
                self.sid[self.admin.session] = ADMIN_SESSION
                for i, h in enumerate(scn['hosts']):
                    self.pubs[h] = GatedClient(self.store, self)
                    self.sid[self.pubs[h].session] = PUB_SESSION + 1 + i
            self.hosts = {}
            for h in scn['hosts']:
                self.hosts[h] = _Host(h)
                self._boot(self.hosts[h])
            self._log(dict(ev='init'))
        except BaseException:
            self.close()
            raise

    def _setup_ext(self, setup):
        """What presence.kill_node reads: /servers/<h>, /placement/<h>,
        /scheduled/<app> (the manifest), /server.presence."""
        import json
        scn = self.scn
        for h in scn['hosts']:
            setup.ensure_path('/servers')
            setup.create(scn['ext']['srv'][h], b'{}')
            setup.ensure_path(scn['ext']['plc'][h])
        setup.ensure_path(scn['ext']['sproot'])
        setup.ensure_path('/scheduled')
        for a in scn['paths']:
            setup.create(scn['ext']['sch'][a], json.dumps(self._manifest(a)).encode())
        self._setup = setup

    def _manifest(self, a):
        scn = self.scn
        m = dict(name=scn['app'][a],
                 endpoints=[dict(name=e, port=8000 + i, proto='tcp')
                            for i, e in enumerate(scn['endpoints'])])
        if scn['identity']:
            m['identity_group'] = 'grp'
            m['identity'] = scn['identity_of'][a]
        return m

    # -- life cycle ----------------------------------------------------------
    def _boot(self, host):
        """Start the presence service of a host: new session, new objects."""
        host.client = GatedClient(self.store, self)
        self.nsess += 1                  # sessions of presence services: 1, 2, 3, ...
        self.sid[host.client.session] = self.nsess
        svc_dir = os.path.join(self.root, host.name, 'presence_svc')
        host.rs = self.services.ResourceService(service_dir=svc_dir, impl=self.cls)
        self._hostname[0] = host.name
        impl = host.rs._load_impl()()                    # pylint: disable=protected-access
        self.impls.append(impl)
        self.clients[id(impl)] = host.client
        impl.initialize(host.rs._dir)                    # pylint: disable=protected-access
        host.impl = impl
        host.up = True
        host.slot = None

    def close(self):
        try:
            for host in getattr(self, 'hosts', {}).values():
                if host.slot is not None and host.slot.state != 'done':
                    self.turn.abandon(host.slot)
            if self.aslot is not None and self.aslot.state != 'done':
                self.turn.abandon(self.aslot)
            if self.pslot is not None and self.pslot.state != 'done':
                self.turn.abandon(self.pslot)
            if self.rslot is not None and self.rslot.state != 'done':
                self.turn.abandon(self.rslot)
        finally:
            for p in reversed(self._patches):
                try:
                    p.stop()
                except RuntimeError:
                    pass
            self.store.gate = None
            _CURRENT[0] = None
            shutil.rmtree(self.root, ignore_errors=True)

    # -- projection ----------------------------------------------------------
    def _sess(self, fake):
        if not fake:
            return 0
        if fake not in self.sid:
            return 1000 + fake
        return self.sid[fake]

    def post(self):
        nodes = {}
        for p, n in sorted(self.store.nodes.items()):
            if p in self.static or p.startswith(('/trace', '/finished', '/placement', '/scheduled')):
                continue                 # not presence nodes; /scheduled, /placement: see sch, plc
            d = n.data
            nodes[p] = dict(d=d.decode('utf-8', 'replace') if isinstance(d, bytes) else str(d),
                            o=self._sess(n.owner))
        pres, queue, active, sess, nxt = {}, {}, {}, {}, {}
        for h, host in self.hosts.items():
            m = {}
            if host.up:
                for _app, reg in host.impl.presence.items():
                    for path, rid in reg.items():
                        m[path] = self.cname.get(rid, str(rid))
            pres[h] = m
            queue[h] = [[k, c] for k, c in host.queue]
            active[h] = sorted(c for c in self.submitted if self.where[c] == h and self._live(h, c))
            sess[h] = self._sess(host.client.session) if host.up else 0
            slot = host.slot
            nxt[h] = list(slot.pending) if slot is not None and slot.state == 'gate' else []
        aslot, pslot, rslot = self.aslot, self.pslot, self.rslot
        ext = self.scn['ext']
        have = self.store.nodes
        plc = {a: [h for h in self.scn['hosts']
                   if ext['plcp'][h][a] in have and (h, a) not in self.sub_placed]
               for a in self.scn['paths']}
        pnext = []
        if pslot is not None and pslot.state == 'gate':
            pnext = [pslot.pending[0], self._pkind(pslot.pending[1])]
        return dict(nodes=nodes, pres=pres, queue=queue, active=active, sess=sess, next=nxt,
                    linger=sorted(self._sess(x) for x in self.linger),
                    anext=list(aslot.pending) if aslot is not None and aslot.state == 'gate' else [],
                    sch={a: ext['sch'][a] in have for a in self.scn['paths']}, plc=plc,
                    proot='/placement' in have,
                    fin={a: ext['fin'][a] in have for a in self.scn['paths']}, pnext=pnext,
                    rnext=list(rslot.pending) if rslot is not None and rslot.state == 'gate' else [])

    def _pkind(self, path):
        for kind, pre in (('trace', '/trace/'), ('finished', '/finished/'),
                          ('placement', '/placement/'), ('scheduled', '/scheduled/')):
            if path.startswith(pre):
                return kind
        return 'other'

    def _log(self, line):
        line['post'] = self.post()
        self.lines.append(line)

    def _link(self, h, c):
        return os.path.join(self.hosts[h].rs._rsrc_dir, self.scn['rid'][c])  # pylint: disable=protected-access

    def _live(self, h, c):
        """The request exists: its link is there.  (A reply written for a request
        that was removed meanwhile leaves a plain directory of that name behind,
        fs.write_safe makedirs it; the service discards it as an invalid request
        without any ZooKeeper call.  That is not a request.)"""
        return os.path.islink(self._link(h, c))

    # -- retries (watch callbacks and 'gone meanwhile') ------------------------
    def _drain_retries(self, order):
        """Apply the retry_request calls collected during the step, in the order
        the schedule asks for if it names exactly those, else as they came."""
        got = []
        for impl, rid in self.retries:
            for h, host in self.hosts.items():
                if host.up and host.impl is impl:
                    got.append((h, self.cname.get(rid, str(rid)), impl, rid))
        self.retries = []
        if callable(order):
            order = order([(h, c) for h, c, _, _ in got])
        elif order is not None:
            # schedules name the retried requests by container (TLC labels) or by
            # [host, container] (recorded schedules)
            order = [(self.where.get(x), x) if isinstance(x, str) else tuple(x) for x in order]
        if order is not None and sorted((h, c) for h, c, _, _ in got) == sorted(map(tuple, order)):
            todo = list(got)
            got = []
            for h, c in map(tuple, order):
                k = next(i for i, g in enumerate(todo) if (g[0], g[1]) == (h, c))
                got.append(todo.pop(k))
        fired = []
        for h, c, impl, rid in got:
            self._orig_retry(impl, rid)          # the real touch of the request link
            if c in self.scn['rid'] and self._live(h, c):
                self.hosts[h].queue.append(('create', c))
            fired.append([h, c])
        if self.sys_exit:
            raise tlc.MachineryError('code under test called utils.sys_exit(%r)' % self.sys_exit)
        return fired

    # -- the environment -------------------------------------------------------
    def can_submit(self, h, c):
        if c in self.submitted or not self.hosts[h].up:
            return False
        older = [x for x in self.scn['conts'][:self.scn['conts'].index(c)]
                 if self.scn['inst'][x] == self.scn['inst'][c]]
        return all(x in self.submitted for x in older)

    def submit(self, h, c):
        if not self.can_submit(h, c):
            return False
        scn = self.scn
        a = scn['inst'][c]
        host = self.hosts[h]
        req = dict(endpoints=[dict(name=e, port=8000 + i, real_port=scn['port'][c] + i, proto='tcp')
                              for i, e in enumerate(scn['endpoints'])],
                   vip=dict(ip0='192.168.0.1', ip1='192.168.0.2'))
        if scn['identity']:
            req['identity_group'] = 'grp'
            req['identity'] = scn['ident_c'].get(c, scn['identity_of'][a])
        cdir = os.path.join(self.root, h, 'apps', scn['rid'][c], 'resources', 'presence')
        client = host.rs.make_client(cdir)
        client.put(scn['rid'][c], req)                   # the real producer (runtime/linux/_run.py)
        self.submitted.append(c)
        self.where[c] = h
        if self.ext:                     # the scheduler's placement, read by kill_node
            pl = '%s/%s' % (scn['ext']['plc'][h], scn['app'][a])
            if pl not in self.store.nodes:
                self._setup.create(pl, b'', makepath=True)
                self.sub_placed.add((h, a))
        stamp = (1000000 + len(self.submitted)) * 10 ** 9
        os.utime(self._link(h, c), ns=(stamp, stamp), follow_symlinks=False)
        host.queue.append(('create', c))
        self.schedule.append(('Submit', [h, c]))
        self._log(dict(ev='submit', h=h, c=c))
        return True

    def can_finish(self, h, c):
        return self.hosts[h].up and self.where.get(c) == h and self._live(h, c)

    def finish(self, h, c):
        if not self.can_finish(h, c):
            return False
        host = self.hosts[h]
        cdir = os.path.join(self.root, h, 'apps', self.scn['rid'][c], 'resources', 'presence')
        host.rs.make_client(cdir).delete(self.scn['rid'][c])   # runtime/linux/_finish.py
        host.queue.append(('delete', c))
        self.schedule.append(('Finish', [h, c]))
        self._log(dict(ev='finish', h=h, c=c))
        return True

    # -- the service's main loop, one event at a time --------------------------
    def can_begin(self, h):
        host = self.hosts[h]
        return host.up and host.slot is None and bool(host.queue)

    def begin(self, h):
        if not self.can_begin(h):
            return False
        host = self.hosts[h]
        kind, c = host.queue.pop(0)
        slot = _Slot(h, kind, c)
        path = self._link(h, c)
        rs, impl = host.rs, host.impl
        if kind == 'create':
            def fn():
                slot.res = 'gone'            # stays if the request link is gone
                rs._on_created(impl, path)   # pylint: disable=protected-access
        else:
            def fn():
                r = rs._on_deleted(impl, path)   # pylint: disable=protected-access
                if isinstance(r, dict) and '_error' in r:
                    slot.res = 'error'
        host.slot = slot
        self.turn.start(slot, fn)
        self.schedule.append(('Begin', [h]))
        fired = self._drain_retries(None)
        line = dict(ev='begin', h=h, k=kind, c=c)
        if fired:
            line['fired'] = fired
        self._log(line)
        return True

    def can_call(self, h):
        host = self.hosts[h]
        return host.up and host.slot is not None and host.slot.state == 'gate'

    def call(self, h, order=None):
        if not self.can_call(h):
            return False
        host = self.hosts[h]
        slot = host.slot
        self.calls = []
        self.turn.step(slot)
        mine = [rec for cl, rec in self.calls if cl is host.client]
        if len(mine) != 1 or len(self.calls) != 1:
            raise tlc.MachineryError('turnstile: %d ZooKeeper calls in one step' % len(self.calls))
        rec = mine[0]
        fired = self._drain_retries(order)
        self.schedule.append(('Call', [h, [list(f) for f in fired]]))
        self._log(dict(
            ev='call', h=h, s=self._sess(host.client.session), op=rec['op'], path=rec['path'],
            res=rec['res'], seen=self._sess(rec['seen']) if rec['seen'] > 0 else int(rec['seen']),
            rk=slot.kind, rc=slot.cont,
            w=[dict(op=op, path=p, o=-1 if o is None else self._sess(o), a=bool(a))
               for op, p, _s, o, a in rec['w']],
            fired=fired))
        return True

    def can_end(self, h):
        host = self.hosts[h]
        return host.up and host.slot is not None and host.slot.state == 'done'

    def end(self, h):
        if not self.can_end(h):
            return False
        host = self.hosts[h]
        slot = host.slot
        slot.thread.join(WATCHDOG_S)
        host.slot = None
        res = slot.res or 'ok'
        if slot.exc is not None:
            res = 'exc:' + (slot.exc if isinstance(slot.exc, str) else type(slot.exc).__name__)
        self.schedule.append(('End', [h]))
        self._log(dict(ev='end', h=h, k=slot.kind, c=slot.cont, res=res))
        return True

    # -- session expiry, exit, restart -------------------------------------------
    def can_expire(self, h):
        return self.hosts[h].up and self.nexp < self.max_expire

    def expire(self, h, order=None):
        if not self.can_expire(h):
            return False
        host = self.hosts[h]
        old = host.client.session
        host.up = False                      # its watch callbacks no longer count
        self.store.expire(old)               # ephemerals vanish, watches fire
        if host.slot is not None:
            self.turn.abandon(host.slot)     # the process is gone
            host.slot = None
        host.queue = []
        self.nexp += 1
        fired = self._drain_retries(order)
        self.schedule.append(('Expire', [h, [list(f) for f in fired]]))
        self._log(dict(ev='expire', h=h, s=self._sess(old), fired=fired))
        return True

    def can_crash(self, h):
        return self.can_expire(h)

    def crash(self, h):
        """The service process dies without closing its session: the session and
        its ephemeral nodes linger until reap()."""
        if not self.can_crash(h):
            return False
        host = self.hosts[h]
        old = host.client.session
        host.up = False
        if host.slot is not None:
            self.turn.abandon(host.slot)
            host.slot = None
        host.queue = []
        self.linger.append(old)
        self.nexp += 1
        self.retries = []
        self.schedule.append(('Crash', [h]))
        self._log(dict(ev='crash', h=h, s=self._sess(old)))
        return True

    def can_reap(self, s):
        return any(self._sess(x) == s for x in self.linger)

    def reap(self, s, order=None):
        """The session of a crashed service times out."""
        if not self.can_reap(s):
            return False
        fake = next(x for x in self.linger if self._sess(x) == s)
        self.linger.remove(fake)
        self.store.expire(fake)
        fired = self._drain_retries(order)
        self.schedule.append(('Reap', [s, [list(f) for f in fired]]))
        self._log(dict(ev='reap', s=s, fired=fired))
        return True

    def can_restart(self, h):
        return not self.hosts[h].up

    def restart(self, h, order=None):
        if not self.can_restart(h):
            return False
        host = self.hosts[h]
        self._boot(host)
        rdir = host.rs._rsrc_dir                         # pylint: disable=protected-access
        if order is not None:
            self._glob_order[0] = [os.path.join(rdir, self.scn['rid'][c]) for c in order
                                   if c in self.scn['rid']]
        try:
            found = list(host.rs._check_requests())      # pylint: disable=protected-access
        finally:
            self._glob_order[0] = None
        for p in [p for p in found if not os.path.islink(p)]:
            host.rs._on_created(host.impl, p)            # pylint: disable=protected-access
            found.remove(p)                              # invalid request: discarded, no ZK call
        rord = [self.cname.get(os.path.basename(p), os.path.basename(p)) for p in found]
        host.queue = [('create', c) for c in rord]
        self.schedule.append(('Restart', [h, rord]))
        self._log(dict(ev='restart', h=h, s=self._sess(host.client.session), rord=rord))
        return True

    # -- extension: the helpers of treadmill/presence.py -----------------------------
    def can_abegin(self):
        busy = any(self.hosts[x].queue or self.hosts[x].slot for x in self.scn['hosts']) or \
            any(self._live(self.where[c], c) for c in self.submitted) or \
            len(self.submitted) < len(self.scn['conts'])
        return self.ext and self.aslot is None and self.nhelp < self.max_help and busy

    def abegin(self, kind, h, a=None):
        """An administrator starts presence.kill_node(h), or a node-side tool the
        EndpointPresence.unregister_* of instance a on behalf of host h, from a
        session of its own; the run stops at its first ZooKeeper call."""
        if not self.can_abegin() or h not in self.hosts or (kind == 'unreg' and a not in self.scn['paths']):
            return False
        from treadmill import presence
        admin = self.admin
        slot = _Slot(h, kind, a or '')
        if kind == 'kill':
            def fn():
                presence.kill_node(admin, h)
        else:
            manifest = self._manifest(a)

            def fn():
                ep = presence.EndpointPresence(admin, manifest, hostname=h, appname=manifest['name'])
                ep.unregister_running()
                ep.unregister_endpoints()
                ep.unregister_identity()
        self.aslot = slot
        self.nhelp += 1
        self.turn.start(slot, fn)
        self.schedule.append(('KillBegin', [h]) if kind == 'kill' else ('UnregBegin', [h, a]))
        self._log(dict(ev='abegin', kind=kind, h=h, a=a or ''))
        return True

    def can_acall(self):
        return self.aslot is not None and self.aslot.state == 'gate'

    def acall(self, order=None):
        if not self.can_acall():
            return False
        slot = self.aslot
        self.calls = []
        self.turn.step(slot)
        if len(self.calls) != 1 or self.calls[0][0] is not self.admin:
            raise tlc.MachineryError('turnstile: %d ZooKeeper calls in one helper step' % len(self.calls))
        rec = self.calls[0][1]
        fired = self._drain_retries(order)
        self.schedule.append(('ACall', [[list(f) for f in fired]]))
        self._log(dict(
            ev='acall', s=ADMIN_SESSION, rk=slot.kind, rh=slot.host, ra=slot.cont,
            op=rec['op'], path=rec['path'], res=rec['res'], gd=rec.get('gd', ''),
            w=[dict(op=op, path=p, o=-1 if o is None else self._sess(o), a=bool(a))
               for op, p, _s, o, a in rec['w']],
            fired=fired))
        return True

    def can_aend(self):
        return self.aslot is not None and self.aslot.state == 'done'

    def aend(self):
        if not self.can_aend():
            return False
        slot = self.aslot
        slot.thread.join(WATCHDOG_S)
        self.aslot = None
        res = 'ok'
        if slot.exc is not None:
            res = 'exc:' + (slot.exc if isinstance(slot.exc, str) else type(slot.exc).__name__)
        self.schedule.append(('AEnd', [1]))
        self._log(dict(ev='aend', res=res))
        return True

    # -- trace/app/zk.py: the scheduler's placement, publish() and _unschedule() ------
    def place(self, a, h):
        """The scheduler places instance a on server h."""
        ext = self.scn['ext']
        if not self.ext or a not in self.scn['paths'] or h not in self.hosts or \
                ext['plcp'][h][a] in self.store.nodes:
            return False
        self._setup.create(ext['plcp'][h][a], b'', makepath=True)
        self.nsch += 1
        self.schedule.append(('Place', [a, h]))
        self._log(dict(ev='place', a=a, h=h))
        return True

    def withdraw(self, a, h):
        """The scheduler takes instance a off server h (placed nowhere until re-placed)."""
        ext = self.scn['ext']
        if not self.ext or a not in self.scn['paths'] or h not in self.hosts or \
                ext['plcp'][h][a] not in self.store.nodes or (h, a) in self.sub_placed:
            return False
        self._setup.delete(ext['plcp'][h][a])
        self.nsch += 1
        self.schedule.append(('Withdraw', [a, h]))
        self._log(dict(ev='withdraw', a=a, h=h))
        return True

    def rmroot(self):
        """/placement does not exist (cell being set up / cleaned)."""
        if not self.ext or '/placement' not in self.store.nodes or \
                any(p.count('/') > 2 for p in self.store.nodes if p.startswith('/placement/')):
            return False
        self._setup.delete('/placement', recursive=True)
        self.nsch += 1
        self.schedule.append(('RmRoot', [1]))
        self._log(dict(ev='rmroot'))
        return True

    def can_pbegin(self):
        return self.ext and self.pslot is None

    def pbegin(self, h, a, ty):
        """Host h publishes a trace event of instance a (treadmill.trace.app.zk.publish,
        as its appevents process does): for a terminal event this ends in _unschedule."""
        if not self.can_pbegin() or h not in self.hosts or a not in self.scn['paths']:
            return False
        from treadmill.trace.app import zk as tzk
        client = self.pubs[h]
        self.npub += 1
        when = '%d.0' % (1500000000 + self.npub)
        data = {'finished': '0.0', 'killed': 'oom', 'aborted': 'presence'}.get(ty, '')
        app = self.scn['app'][a]
        slot = _Slot(h, ty, a)

        def fn():
            tzk._HOSTNAME = h            # pylint: disable=protected-access
            tzk.publish(client, when, app, ty, data, None)
        self.pslot = slot
        self.turn.start(slot, fn)
        self.schedule.append(('PubBegin', [h, a, ty]))
        self._log(dict(ev='pbegin', h=h, a=a, ty=ty))
        return True

    def can_pcall(self):
        return self.pslot is not None and self.pslot.state == 'gate'

    def pcall(self):
        if not self.can_pcall():
            return False
        slot = self.pslot
        client = self.pubs[slot.host]
        self.calls = []
        self.turn.step(slot)
        if len(self.calls) != 1 or self.calls[0][0] is not client:
            raise tlc.MachineryError('turnstile: %d ZooKeeper calls in one publication step' % len(self.calls))
        rec = self.calls[0][1]
        self.retries = []
        self.schedule.append(('PCall', [1]))
        self._log(dict(
            ev='pcall', s=self._sess(client.session), rh=slot.host, ra=slot.cont, ty=slot.kind,
            op=rec['op'], pk=self._pkind(rec['path']), path=rec['path'], res=rec['res'],
            found=bool(rec.get('found', False)),
            w=[dict(op=op, path=p, o=-1 if o is None else self._sess(o), a=bool(a))
               for op, p, _s, o, a in rec['w']]))
        return True

    def can_pend(self):
        return self.pslot is not None and self.pslot.state == 'done'

    def pend(self):
        if not self.can_pend():
            return False
        slot = self.pslot
        slot.thread.join(WATCHDOG_S)
        self.pslot = None
        res = 'ok'
        if slot.exc is not None:
            res = 'exc:' + (slot.exc if isinstance(slot.exc, str) else type(slot.exc).__name__)
        self.schedule.append(('PEnd', [1]))
        self._log(dict(ev='pend', res=res))
        return True

    # -- presence.py: EndpointPresence.register_* ----------------------------------
    def can_rbegin(self):
        return self.ext and self.rslot is None

    def rbegin(self, h, c, kind='all'):
        """Container c is registered on host h through EndpointPresence (the docker
        runtime's way), from a NEW ZooKeeper session."""
        if not self.can_rbegin() or h not in self.hosts or c not in self.scn['rid'] or \
                kind not in ('all', 'identity', 'running', 'endpoints'):
            return False
        from treadmill import presence
        from treadmill import exc as tm_exc
        scn = self.scn
        a = scn['inst'][c]
        client = GatedClient(self.store, self)
        self.nreg += 1
        self.sid[client.session] = REG_SESSION + self.nreg
        manifest = dict(name=scn['app'][a],
                        endpoints=[dict(name=e, port=8000 + i, real_port=scn['port'][c] + i, proto='tcp')
                                   for i, e in enumerate(scn['endpoints'])])
        if scn['identity']:
            manifest['identity_group'] = 'grp'
            manifest['identity'] = scn['ident_c'].get(c, scn['identity_of'][a])
        slot = _Slot(h, kind, c)

        def fn():
            ep = presence.EndpointPresence(client, manifest, hostname=h, appname=manifest['name'])
            try:
                if kind == 'all':
                    ep.register()
                else:
                    getattr(ep, 'register_' + kind)()
                slot.res = 'ok'
            except tm_exc.ContainerSetupError:
                slot.res = 'abort'
        self.rslot, self.rclient = slot, client
        self.turn.start(slot, fn)
        self.schedule.append(('RegBegin', [h, c, kind]))
        self._log(dict(ev='rbegin', h=h, c=c, kind=kind, s=self._sess(client.session)))
        return True

    def can_rcall(self):
        return self.rslot is not None and self.rslot.state == 'gate'

    def rcall(self):
        if not self.can_rcall():
            return False
        slot, client = self.rslot, self.rclient
        op0 = slot.pending[0]
        self.calls = []
        self.turn.step(slot)
        if op0 == 'sleep':
            if self.calls:
                raise tlc.MachineryError('turnstile: a ZooKeeper call inside time.sleep')
            rec = dict(op='sleep', path='', res='ok', w=[])
        else:
            if len(self.calls) != 1 or self.calls[0][0] is not client:
                raise tlc.MachineryError('turnstile: %d ZooKeeper calls in one registration step'
                                         % len(self.calls))
            rec = self.calls[0][1]
        self.retries = []
        self.schedule.append(('RCall', [1]))
        self._log(dict(
            ev='rcall', s=self._sess(client.session), rh=slot.host, rc=slot.cont,
            op=rec['op'], path=rec['path'], res=rec['res'],
            w=[dict(op=op, path=p, o=-1 if o is None else self._sess(o), a=bool(a))
               for op, p, _s, o, a in rec['w']]))
        return True

    def can_rend(self):
        return self.rslot is not None and self.rslot.state == 'done'

    def rend(self):
        if not self.can_rend():
            return False
        slot = self.rslot
        slot.thread.join(WATCHDOG_S)
        res = slot.res or 'ok'
        if slot.exc is not None:
            res = 'exc:' + (slot.exc if isinstance(slot.exc, str) else type(slot.exc).__name__)
        self.linger.append(self.rclient.session)     # the session lives on until it is reaped
        self.rslot = None
        self.schedule.append(('REnd', [1]))
        self._log(dict(ev='rend', res=res))
        return True

    # -- schedules -----------------------------------------------------------------
    def apply(self, act, args):
        """One action of a schedule; False if it does not apply to the state the
        real system is in (model and code diverged earlier: judged by the trace
        spec as drift, the rest of the schedule is applied as far as it goes)."""
        if act == 'Submit':
            return self.submit(args[0], args[1])
        if act == 'Finish':
            return self.finish(args[0], args[1])
        if act == 'Begin':
            return self.begin(args[0])
        if act == 'Call':
            return self.call(args[0], args[1] if len(args) > 1 else None)
        if act == 'End':
            return self.end(args[0])
        if act == 'Expire':
            return self.expire(args[0], args[1] if len(args) > 1 else None)
        if act == 'Restart':
            return self.restart(args[0], args[1] if len(args) > 1 else None)
        if act == 'Crash':
            return self.crash(args[0])
        if act == 'Reap':
            return self.reap(args[0], args[1] if len(args) > 1 else None)
        if act == 'KillBegin':
            return self.abegin('kill', args[0])
        if act == 'UnregBegin':
            return self.abegin('unreg', args[0], args[1])
        if act == 'ACall':
            return self.acall(args[0] if args else None)
        if act == 'AEnd':
            return self.aend()
        if act == 'Place':
            return self.place(args[0], args[1])
        if act == 'Withdraw':
            return self.withdraw(args[0], args[1])
        if act == 'RmRoot':
            return self.rmroot()
        if act == 'PubBegin':
            return self.pbegin(args[0], args[1], args[2])
        if act == 'PCall':
            return self.pcall()
        if act == 'PEnd':
            return self.pend()
        if act == 'RegBegin':
            return self.rbegin(args[0], args[1], args[2] if len(args) > 2 else 'all')
        if act == 'RCall':
            return self.rcall()
        if act == 'REnd':
            return self.rend()
        if act == 'RRun':                # hand-written: the run, at most args[3] steps (all if absent)
            if len(args) >= 3 and args[2] != 'cont':
                if not self.rbegin(args[0], args[1], args[2]):
                    return False
            n = 0
            limit = args[3] if len(args) > 3 else 10 ** 6
            while self.can_rcall() and n < limit:
                self.rcall()
                n += 1
            return self.rend() if self.can_rend() else True
        if act == 'PRun':                # hand-written schedules: a whole publication
            if not self.pbegin(args[0], args[1], args[2]):
                return False
            while self.can_pcall():
                self.pcall()
            return self.pend()
        if act == 'ARun':                # hand-written schedules: the helper run to its end
            while self.can_acall():
                self.acall()
            return self.aend()
        if act == 'Pad':
            return True
        if act == 'Until':               # hand-written: step h's request until it is stopped at op
            n = 0
            while self.can_call(args[0]) and self.hosts[args[0]].slot.pending[0] != args[1] and n < 200:
                self.call(args[0])
                n += 1
            return self.can_call(args[0])
        if act == 'UntilRewrite':        # hand-written: step h's request until it has just read a
            n = 0                        # node as its own and is about to touch the same path again
            while self.can_call(args[0]) and n < 200:
                self.call(args[0])
                n += 1
                last = self.lines[-1]
                slot = self.hosts[args[0]].slot
                if last.get('op') == 'get' and last.get('res') == 'ok' and last.get('seen') == last.get('s') \
                        and slot is not None and slot.state == 'gate' and slot.pending[1] == last.get('path'):
                    return True
            return False
        if act == 'Cont':                # hand-written: the request in flight to its end
            while self.can_call(args[0]):
                self.call(args[0])
            return self.end(args[0])
        if act == 'Run':                 # hand-written schedules: a whole request
            if not self.begin(args[0]):
                return False
            while self.can_call(args[0]):
                self.call(args[0])
            return self.end(args[0])
        raise tlc.MachineryError('unknown schedule action %r' % (act,))

    def enabled(self):
        """Actions the real system can take now (for random schedules)."""
        out = []
        scn = self.scn
        for h in scn['hosts']:
            for c in scn['conts']:
                if self.can_submit(h, c):
                    out.append(('Submit', [h, c]))
                if self.can_finish(h, c):
                    out.append(('Finish', [h, c]))
            if self.can_begin(h):
                out.append(('Begin', [h]))
            if self.can_call(h):
                out.append(('Call', [h]))
            if self.can_end(h):
                out.append(('End', [h]))
            if self.can_restart(h):
                out.append(('Restart', [h]))
            busy = any(self.hosts[x].queue or self.hosts[x].slot for x in scn['hosts']) or \
                any(self._live(self.where[c], c) for c in self.submitted) or \
                len(self.submitted) < len(scn['conts'])
            if self.can_expire(h) and busy:
                out.append(('Expire', [h]))
                out.append(('Crash', [h]))
        for x in self.linger:
            out.append(('Reap', [self._sess(x)]))
        if self.can_abegin():
            for h in scn['hosts']:
                out.append(('KillBegin', [h]))
                for a in scn['paths']:
                    out.append(('UnregBegin', [h, a]))
        if self.can_acall():
            out.append(('ACall', []))
        if self.can_aend():
            out.append(('AEnd', [1]))
        return out

    def drain(self):
        """Bring requests in flight to their end (fixed order), so that every
        thread is joined and the trace ends between requests."""
        for h in self.scn['hosts']:
            n = 0
            while self.can_call(h):
                self.call(h)
                n += 1
                if n > 200:
                    raise tlc.MachineryError('request on %s does not terminate' % h)
            self.end(h)
        n = 0
        while self.can_acall():
            self.acall()
            n += 1
            if n > 200:
                raise tlc.MachineryError('helper run does not terminate')
        self.aend()
        n = 0
        while self.can_rcall():
            self.rcall()
            n += 1
            if n > 400:
                raise tlc.MachineryError('registration run does not terminate')
        self.rend()
        n = 0
        while self.can_pcall():
            self.pcall()
            n += 1
            if n > 200:
                raise tlc.MachineryError('publication does not terminate')
        self.pend()


def run_schedule(scn, schedule, max_expire=2, ext=False):
    """Replay a schedule (list of (action, args)) on the real services.  Returns
    (lines, executed schedule, number of actions that did not apply)."""
    root = tlc.scratch('verif-c17-')
    world = World(scn, root, max_expire=max_expire, ext=ext)
    try:
        for act, args in schedule:
            if not world.apply(act, list(args)):
                world.skipped += 1
        world.drain()
        return world.lines, world.schedule, world.skipped
    finally:
        world.close()


def run_random(scn, rng, steps, max_expire=2, p_expire=0.04, ext=False):
    """A seeded random schedule chosen on line against the real system."""
    root = tlc.scratch('verif-c17-')
    world = World(scn, root, max_expire=max_expire, ext=ext)
    try:
        for _ in range(steps):
            acts = world.enabled()
            if not acts:
                break
            calls = [a for a in acts if a[0] in ('Call', 'Begin', 'End', 'Restart', 'ACall', 'AEnd')]
            helpers = [a for a in acts if a[0] in ('KillBegin', 'UnregBegin')]
            env = [a for a in acts if a[0] in ('Submit', 'Finish')]
            exp = [a for a in acts if a[0] in ('Expire', 'Crash')]
            reap = [a for a in acts if a[0] == 'Reap']
            r = rng.random()
            last = world.lines[-1]
            at_set = [h for h in scn['hosts'] if helpers and world.can_call(h) and
                      last.get('h') == h and last.get('op') == 'get' and last.get('seen') == last.get('s')
                      and world.hosts[h].slot.pending[1] == last.get('path')]
            if at_set and rng.random() < 0.5:
                # between the read and the rewrite of the service's own node
                hh = rng.choice(at_set)
                act, args = rng.choice([a for a in helpers if a[1][0] == hh])
            elif helpers and rng.random() < 0.08:
                act, args = rng.choice(helpers)
            elif exp and r < p_expire:
                act, args = rng.choice(exp)
            elif reap and (r < p_expire + 0.06 or len(acts) == len(reap)):
                act, args = rng.choice(reap)
            elif env and (not calls or r < 0.25):
                act, args = rng.choice(env)
            elif calls:
                act, args = rng.choice(calls)
            else:
                act, args = rng.choice(acts)
            if act in ('Call', 'Expire', 'Reap', 'ACall'):
                # the order in which simultaneous retries arrive is random too
                def shuffled(got):
                    got = list(got)
                    rng.shuffle(got)
                    return got
                world.apply(act, [shuffled] if act == 'ACall' else [args[0], shuffled])
            elif act == 'Restart':
                h = args[0]
                live = [c for c in world.submitted if world.where[c] == h and world._live(h, c)]  # pylint: disable=protected-access
                rng.shuffle(live)
                world.apply(act, [h, live])
            else:
                world.apply(act, args)
        world.drain()
        return world.lines, world.schedule, world.skipped
    finally:
        world.close()


def run_random_unsched(scn, rng, steps, max_pub=3, max_sched=5):
    """A seeded random schedule of the scheduler's placement changes and the hosts'
    trace-event publications (trace/app/zk.py), chosen on line."""
    root = tlc.scratch('verif-c17-')
    world = World(scn, root, max_expire=0, ext=True)
    try:
        types = ['finished', 'killed', 'aborted', 'configured']
        for _ in range(steps):
            acts = []
            if world.can_pcall():
                acts += [('PCall', [1])] * 3
            if world.can_pend():
                acts += [('PEnd', [1])] * 3
            if world.can_pbegin() and world.npub < max_pub:
                for h in scn['hosts']:
                    for a in scn['paths']:
                        acts.append(('PubBegin', [h, a, rng.choice(types)]))
            if world.nsch < max_sched:
                for h in scn['hosts']:
                    for a in scn['paths']:
                        acts.append(('Place', [a, h]))
                        acts.append(('Withdraw', [a, h]))
                acts.append(('RmRoot', [1]))
            if not acts:
                break
            act, args = rng.choice(acts)
            world.apply(act, args)
        world.drain()
        return world.lines, world.schedule, world.skipped
    finally:
        world.close()
