"""C15 driver: feeds the domains specs/cell/Codec.tla enumerates to the REAL
encoders and decoders and records (value, encoding, decoded) triples.

  rule   firewall.DNATRule/SNATRule/PassThroughRule -> rulefile.RuleMgr.create_rule
         (a real symlink in a scratch directory; the encoding is the directory
         entry's name) -> RuleMgr.get_rules()
  uniq   appcfg.manifest_unique_name -> appcfg.app_name / app_unique_id
  uid    appcfg.gen_uniqueid on a stat that yields the 77-bit seed
         -> utils.from_base_n
  event  trace.post_zk (real trace.app.zk.publish / trace.server.zk.publish on
         harness/zkfake; the encoding is the created node's name)
         -> the real TraceLoop._process_events -> from_data
  evdict to_dict -> from_dict of the same events
  zk     zkutils.put -> zkutils.get_with_metadata on harness/zkfake
  ldap   admin._ldap.{Partition,CellAllocation,Application}.to_entry (+ the
         _remove_empty that LdapObject.create applies: LDAP stores no empty
         attribute) -> from_entry; recorded: N(x), N(N(x)) and the entry of N(x)

  dn     identifier <-> distinguished name: the real LdapObject.create of
         CellAllocation / Partition / Application (on the real _ldap.Admin.dn,
         no connection; the add is captured) builds the DN and the entity
         attribute; from_entry(entry, dn) decodes (_dn2cellalloc_id,
         _dn2partition_id, the entity attribute)
  ldapupd pairs (v1, v2) of one schema: the directory holds the entry
         LdapObject.create makes of v1; LdapObject.update's entry of v2 goes
         through the REAL Admin.update (fetch the mentioned attributes, real
         _diff_entries, MODIFY_ADD/REPLACE/DELETE triples) onto an exact
         in-memory entry (attribute -> list of values, modifications applied
         the way ldap3/LDAP define them); read back with from_entry.  Recorded
         next to it: what the set-wise specification of update gives (every
         attribute family the new entry mentions ends up with the new entry's
         non-empty values, the rest is untouched), decoded.

Abstract values are the ones Codec.tla exports: strings, integers, booleans,
tuples, records; free-form objects are tagged trees (["s",..] ["i",..] ["b",..]
["n",0] ["f",repr] ["l",[..]] ["d",[[key,value],..]] keys ascending).
A decoder that raises or returns nothing is recorded as ok = false with the
reason in err (d is then a copy of v, never compared).
"""
import copy
import json
import logging
import os
import shutil
import types
from unittest import mock

from . import core, tlc, zkfake

core.ensure_repo_on_path()

from treadmill import appcfg  # noqa: E402
from treadmill import firewall  # noqa: E402
from treadmill import rulefile  # noqa: E402
from treadmill import trace as tm_trace  # noqa: E402
from treadmill import utils  # noqa: E402
from treadmill import zkutils  # noqa: E402
from treadmill.admin import _ldap  # noqa: E402
from treadmill.trace.app import events as app_events  # noqa: E402
from treadmill.trace.app import zk as app_zk  # noqa: E402
from treadmill.trace.server import events as server_events  # noqa: E402
from treadmill.trace.server import zk as server_zk  # noqa: E402

# bool-as-text / unparseable-rule warnings of the code under test are expected here
logging.getLogger('treadmill.admin._ldap').setLevel(logging.CRITICAL + 1)
logging.getLogger('treadmill.rulefile').setLevel(logging.ERROR)

NUMERALS = '0123456789abcdefghijklmnopqrstuvwxyzABCDEFGHIJKLMNOPQRSTUVWXYZ'


def err(what):
    return ['error', str(what)]


# ---------------------------------------------------------------------------
# tagged trees
def to_py(t):
    tag, x = t
    if tag == 'd':
        return {k: to_py(v) for k, v in x}
    if tag == 'l':
        return [to_py(v) for v in x]
    if tag == 'n':
        return None
    if tag == 'f':
        return float(x)
    if tag in ('s', 'i', 'b'):
        return x
    raise tlc.MachineryError('unknown tag %r' % (tag,))


def to_abs(x):
    if x is None:
        return ['n', 0]
    if isinstance(x, bool):
        return ['b', x]
    if isinstance(x, int):
        if abs(x) >= 2 ** 31:
            return ['s', 'int:%d' % x]
        return ['i', x]
    if isinstance(x, float):
        return ['f', repr(x)]
    if isinstance(x, str):
        return ['s', x]
    if isinstance(x, bytes):
        return ['s', 'bytes:' + x.decode('utf-8', 'replace')]
    if isinstance(x, (list, tuple)):
        return ['l', [to_abs(v) for v in x]]
    if isinstance(x, dict):
        return ['d', [[str(k), to_abs(x[k])] for k in sorted(x, key=str)]]
    return ['s', 'repr:%r' % (x,)]


# ---------------------------------------------------------------------------
class Codecs:
    """Holds the scratch directory / fake ZooKeeper the real code works on."""

    def __init__(self):
        self.tmp = tlc.scratch('verif-codec-')
        self.rules_dir = os.path.join(self.tmp, 'rules')
        self.owners_dir = os.path.join(self.tmp, 'owners')
        os.mkdir(self.rules_dir)
        os.mkdir(self.owners_dir)
        self.rulemgr = rulefile.RuleMgr(self.rules_dir, self.owners_dir)
        self.ldap = {'partition': _ldap.Partition(None), 'cellalloc': _ldap.CellAllocation(None),
                     'app': _ldap.Application(None), 'server': _ldap.Server(None),
                     'cell': _ldap.Cell(None)}
        self.zk_n = 0

    def close(self):
        shutil.rmtree(self.tmp, ignore_errors=True)

    # -- rule
    @staticmethod
    def _rule_obj(v):
        def ip(x):
            return None if x == '*' else x
        if v['kind'] == 'passthrough':
            return firewall.PassThroughRule(src_ip=v['sip'], dst_ip=v['dip'])
        cls = {'dnat': firewall.DNATRule, 'snat': firewall.SNATRule}[v['kind']]
        return cls(proto=v['proto'], new_ip=v['nip'], new_port=v['nport'],
                   src_ip=ip(v['sip']), src_port=v['sport'],
                   dst_ip=ip(v['dip']), dst_port=v['dport'])

    @staticmethod
    def _rule_abs(chain, rule):
        def ip(x):
            return '*' if x == firewall.ANY_IP else x
        if isinstance(rule, firewall.PassThroughRule):
            return dict(kind='passthrough', chain=chain, proto='', sip=rule.src_ip, sport=0,
                        dip=rule.dst_ip, dport=0, nip='', nport=0)
        kind = 'dnat' if isinstance(rule, firewall.DNATRule) else 'snat'
        return dict(kind=kind, chain=chain, proto=rule.proto, sip=ip(rule.src_ip),
                    sport=rule.src_port, dip=ip(rule.dst_ip), dport=rule.dst_port,
                    nip=rule.new_ip, nport=rule.new_port)

    def rule(self, v):
        rule = self._rule_obj(v)
        self.rulemgr.create_rule(v['chain'], rule, 'owner-0000000000001')
        names = os.listdir(self.rules_dir)
        if len(names) != 1:
            raise tlc.MachineryError('rule directory holds %r' % (names,))
        enc = names[0]
        got = self.rulemgr.get_rules()
        if len(got) != 1:
            dec = err('get_rules returned %d rules' % len(got))
        else:
            chain, back = next(iter(got))
            dec = self._rule_abs(chain, back)
            if back != rule and dec == v:
                dec = err('decoded rule compares unequal to the one written')
        self.rulemgr.unlink_rule(v['chain'], rule, 'owner-0000000000001')
        if os.listdir(self.rules_dir):
            # unlink uses the same encoder; clean up by hand and report
            for n in os.listdir(self.rules_dir):
                os.unlink(os.path.join(self.rules_dir, n))
            dec = err('unlink_rule did not find the file create_rule made')
        return enc, dec

    # -- uniq
    @staticmethod
    def uniq(v):
        name = '%s#%s' % (v['app'], v['inst'])
        uid = ''.join(NUMERALS[d] for d in v['uid'])
        enc = appcfg.manifest_unique_name({'name': name, 'uniqueid': uid})
        name2 = appcfg.app_name(enc)
        uid2 = appcfg.app_unique_id(enc)
        if name2.count('#') != 1 or any(c not in NUMERALS for c in uid2):
            return enc, err('decoded %r / %r' % (name2, uid2))
        app2, inst2 = name2.split('#')
        return enc, dict(app=app2, inst=inst2, uid=[NUMERALS.index(c) for c in uid2])

    # -- uid
    def uid(self, v):
        seed = 0
        for d in v['uid']:
            seed = seed * 62 + d
        if seed >= 2 ** 77:
            raise tlc.MachineryError('uid domain holds a seed beyond 77 bits')
        mask = 2 ** 64 - 1
        instance = int(v['inst'])
        ino = (seed & mask) ^ ((instance << 31) & mask)
        ctime = ((seed >> 64) + 0.5) / 10 ** 6
        path = os.path.join(self.tmp, 'proid.app#%s' % v['inst'])
        fake = types.SimpleNamespace(st_ctime=ctime, st_ino=ino)
        with mock.patch.object(appcfg.os, 'stat', lambda _p: fake):
            enc = appcfg.gen_uniqueid(path)
        try:
            num = utils.from_base_n(enc, base=62, alphabet=NUMERALS)
        except ValueError as e:
            return enc, err(e)
        digits = []
        for _ in range(max(13, len(enc))):
            digits.append(num % 62)
            num //= 62
        digits.reverse()
        return enc, dict(inst=v['inst'], uid=digits)

    # -- event
    @staticmethod
    def _event_obj(v):
        a = v['args']
        env = dict(timestamp=float(v['ts']), source=v['src'], payload=None)
        t = v['type']
        if v['cls'] == 'server':
            env['servername'] = v['obj']
            if t == 'server_state':
                return server_events.ServerStateTraceEvent(state=a[0], **env)
            if t == 'server_blackout':
                return server_events.ServerBlackoutTraceEvent(**env)
            return server_events.ServerBlackoutClearedTraceEvent(**env)
        env['instanceid'] = v['obj']
        if t == 'scheduled':
            return app_events.ScheduledTraceEvent(where=a[0], why=(a[1][0] if a[1] else None), **env)
        if t == 'pending':
            return app_events.PendingTraceEvent(why=a[0], **env)
        if t == 'pending_delete':
            return app_events.PendingDeleteTraceEvent(why=a[0], **env)
        if t == 'aborted':
            return app_events.AbortedTraceEvent(why=a[0], **env)
        if t == 'configured':
            return app_events.ConfiguredTraceEvent(uniqueid=a[0], **env)
        if t == 'deleted':
            return app_events.DeletedTraceEvent(**env)
        if t == 'finished':
            return app_events.FinishedTraceEvent(rc=a[0], signal=a[1], **env)
        if t == 'killed':
            return app_events.KilledTraceEvent(is_oom=a[0], **env)
        if t == 'service_running':
            return app_events.ServiceRunningTraceEvent(uniqueid=a[0], service=a[1], **env)
        if t == 'service_exited':
            return app_events.ServiceExitedTraceEvent(uniqueid=a[0], service=a[1], rc=a[2],
                                                      signal=a[3], **env)
        raise tlc.MachineryError('unknown event type %r' % (t,))

    @staticmethod
    def _event_abs(ev):
        if ev is None:
            return err('decoder returned None')
        d = ev.to_dict()
        t = d['event_type']

        def opt(x):
            return [] if x is None else [x]
        if isinstance(ev, server_events.ServerTraceEvent):
            cls, obj = 'server', d['servername']
            args = [d['state']] if t == 'server_state' else []
        else:
            cls, obj = 'app', d['instanceid']
            args = {
                'scheduled': lambda: [d['where'], opt(d['why'])],
                'pending': lambda: [d['why']],
                'pending_delete': lambda: [d['why']],
                'aborted': lambda: [d['why']],
                'configured': lambda: [d['uniqueid']],
                'deleted': lambda: [],
                'finished': lambda: [d['rc'], d['signal']],
                'killed': lambda: [d['is_oom']],
                'service_running': lambda: [d['uniqueid'], d['service']],
                'service_exited': lambda: [d['uniqueid'], d['service'], d['rc'], d['signal']],
            }[t]()
        for x in args:
            if x is None:
                return err('decoded field is None: %r' % (d,))
        if d.get('payload') is not None:
            return err('payload appeared: %r' % (d['payload'],))
        return dict(cls=cls, type=t, obj=obj, ts=repr(d['timestamp']), src=d['source'], args=args)

    def event(self, v):
        ev = self._event_obj(v)
        store = zkfake.ZkStore()
        zk = zkfake.ZkFakeClient(store)
        mod = server_zk if v['cls'] == 'server' else app_zk
        with mock.patch.object(mod, '_HOSTNAME', v['src']), \
                mock.patch.object(tm_trace.time, 'time', lambda: ev.timestamp):
            tm_trace.post_zk(zk, ev)
        root = '/server-trace' if v['cls'] == 'server' else '/trace'
        names = [p.rsplit('/', 1)[1] for p in store.dump(root) if p.count('/') == 3]
        if len(names) != 1:
            raise tlc.MachineryError('post_zk created %r' % (names,))
        enc = names[0]
        seen = []
        handler = types.SimpleNamespace(process=lambda event, ctx: seen.append(event))
        loop_cls = server_zk.ServerTraceLoop if v['cls'] == 'server' else app_zk.AppTraceLoop
        loop = loop_cls(zk, v['obj'], handler)
        try:
            loop._process_events([enc], None)     # pylint: disable=protected-access
        except Exception as e:  # pylint: disable=broad-except
            return enc, err('%s: %s' % (type(e).__name__, e))
        if len(seen) != 1:
            return enc, err('decoder produced %d events' % len(seen))
        dec = self._event_abs(seen[0])
        if dec == v and seen[0] != ev:
            dec = err('decoded event compares unequal to the one written')
        return enc, dec

    def evdict(self, v):
        ev = self._event_obj(v)
        d = ev.to_dict()
        enc = json.dumps(d, sort_keys=True)
        base = server_events.ServerTraceEvent if v['cls'] == 'server' else app_events.AppTraceEvent
        back = base.from_dict(dict(d))
        dec = self._event_abs(back)
        if dec == v and back != ev:
            dec = err('decoded event compares unequal to the one written')
        return enc, dec

    # -- zk
    def zk(self, v):
        obj = to_py(v)
        store = zkfake.ZkStore()
        zk = zkfake.ZkFakeClient(store)
        self.zk_n += 1
        path = '/verif/n%d' % self.zk_n
        zkutils.put(zk, path, copy.deepcopy(obj))
        raw, _stat = zk.get(path)
        try:
            back, _meta = zkutils.get_with_metadata(zk, path)
        except Exception as e:  # pylint: disable=broad-except
            return raw.decode('utf-8', 'replace'), err('%s: %s' % (type(e).__name__, e))
        return raw.decode('utf-8', 'replace'), to_abs(back)

    # -- ldap
    def ldap_item(self, v):
        cls = self.ldap[v['schema']]
        x = to_py(v['obj'])

        def normal(o):
            entry = _ldap._remove_empty(cls.to_entry(copy.deepcopy(o)))   # pylint: disable=protected-access
            return entry, cls.from_entry(entry)
        try:
            _e0, n1 = normal(x)
            e1, n2 = normal(n1)
        except Exception as e:  # pylint: disable=broad-except
            return dict(v=v, enc='', ok=False, err='%s: %s' % (type(e).__name__, e), n=v, d=v)
        return dict(v=v, enc='%s:%s' % (v['schema'], json.dumps(e1, sort_keys=True, default=str)),
                    ok=True, err='',
                    n=dict(schema=v['schema'], obj=to_abs(n1)),
                    d=dict(schema=v['schema'], obj=to_abs(n2)))

    # -- dn
    def dn(self, v):
        made = []

        class _Conn(_ldap.Admin):
            def add(self, dn, object_class=None, attributes=None):    # pylint: disable=arguments-differ
                made.append((dn, dict(attributes or {})))

        conn = _Conn(None, 'dc=verif')
        kind = v['kind']
        if kind == 'cellalloc':
            obj = _ldap.CellAllocation(conn)
            obj.create([v['c'], '%s/%s' % (':'.join(v['a']), v['b'])], {'cpu': '0%'})
        elif kind == 'partition':
            obj = _ldap.Partition(conn)
            obj.create([v['b'], v['c']], {'cpu': '0%'})
        elif kind == 'app':
            obj = _ldap.Application(conn)
            obj.create(v['b'], {'cpu': '10%'})
        else:
            raise tlc.MachineryError('unknown dn kind %r' % (kind,))
        if len(made) != 1:
            raise tlc.MachineryError('create issued %d adds' % len(made))
        dn, entry = made[0]
        try:
            back = obj.from_entry(entry, dn)
        except Exception as e:  # pylint: disable=broad-except
            return dn, err('%s: %s' % (type(e).__name__, e))
        if kind == 'cellalloc':
            ident = back.get('_id')
            if not isinstance(ident, str) or ident.count('/') != 2:
                return dn, err('decoded _id %r' % (ident,))
            tenants, alloc, cell = ident.split('/')
            return dn, dict(kind=kind, a=tenants.split(':'), b=alloc, c=cell)
        if kind == 'partition':
            if back.get('_id') != back.get('partition'):
                return dn, err('_id %r but partition %r' % (back.get('_id'), back.get('partition')))
            return dn, dict(kind=kind, a=[], b=back.get('partition'), c=back.get('cell'))
        return dn, dict(kind=kind, a=[], b=back.get('_id'), c='')

    # -- ldap update
    @staticmethod
    def _family(attr):
        return attr.split(';', 1)[0].lower()

    def ldapupd(self, u):
        import ldap3
        cls = self.ldap[u['schema']]
        x1, x2 = to_py(u['v1']), to_py(u['v2'])
        try:
            stored = _ldap._remove_empty(cls.to_entry(copy.deepcopy(x1)))    # LdapObject.create
            before = copy.deepcopy(stored)
            new_entry = cls.to_entry(copy.deepcopy(x2))                      # LdapObject.update
            mentioned = {self._family(k) for k in new_entry}

            def get(_dn, _query, attrs, dirty=False):    # pylint: disable=unused-argument
                want = {a.lower() for a in attrs}
                return {k: list(v) for k, v in stored.items() if self._family(k) in want}

            def modify(_dn, changes):
                for attr, ops in (changes or {}).items():
                    key = next((k for k in stored if k.lower() == attr.lower()), attr)
                    for op, values in ops:
                        if op == ldap3.MODIFY_ADD:
                            stored[key] = list(stored.get(key, [])) + list(values)
                        elif op == ldap3.MODIFY_REPLACE:
                            if values:
                                stored[key] = list(values)
                            else:
                                stored.pop(key, None)
                        elif op == ldap3.MODIFY_DELETE:
                            if values:
                                stored[key] = [x for x in stored.get(key, []) if x not in values]
                                if not stored[key]:
                                    del stored[key]
                            else:
                                stored.pop(key, None)
                        else:
                            raise tlc.MachineryError('unknown modification %r' % (op,))

            fake = types.SimpleNamespace(get=get, modify=modify)
            # the set-wise specification of the update
            spec = {k: v for k, v in before.items() if self._family(k) not in mentioned}
            spec.update({k: list(v) for k, v in new_entry.items() if v})
            try:
                want = cls.from_entry(copy.deepcopy(spec))
            except Exception as e:  # pylint: disable=broad-except
                # the entry the specification itself prescribes cannot be decoded (an
                # option-indexed object lost a sub-attribute family the new entry does
                # not mention): not judged, counted
                return dict(v=u, enc='', ok=True, err='%s: %s' % (type(e).__name__, e), d=['n', 0],
                            want=['n', 0], alt=['n', 0], seteq=False, full=False, undecodable=True)
            _ldap.Admin.update(fake, 'dn=verif', new_entry)                  # the real update
            got = cls.from_entry(copy.deepcopy(stored))
            # attributes whose old and new values are the same SET of the same size: the
            # diff calls them equal and the old list stays
            alt_entry = dict(spec)
            for k, v in new_entry.items():
                old = before.get(k)
                if v and old and old != list(v) and len(old) == len(v) and \
                        set(map(repr, old)) == set(map(repr, v)):
                    alt_entry[k] = list(old)
            alt = cls.from_entry(copy.deepcopy(alt_entry))
            n2 = cls.from_entry(_ldap._remove_empty(cls.to_entry(copy.deepcopy(x2))))
        except tlc.MachineryError:
            raise
        except Exception as e:  # pylint: disable=broad-except
            return dict(v=u, enc='', ok=False, err='%s: %s' % (type(e).__name__, e), d=['n', 0],
                        want=['n', 0], alt=['n', 0], seteq=False, full=False, undecodable=False)
        return dict(v=u, enc='%s:%s' % (u['schema'], json.dumps(stored, sort_keys=True, default=str)),
                    ok=True, err='', d=to_abs(got), want=to_abs(want), alt=to_abs(alt),
                    seteq=(alt_entry != spec), full=(to_abs(want) == to_abs(n2)), undecodable=False)

    def run(self, fmt, v):
        """-> one recorded item {v, enc, ok, err, d[, n]}."""
        if fmt == 'ldap':
            return self.ldap_item(v)
        if fmt == 'ldapupd':
            return self.ldapupd(v)
        enc, dec = getattr(self, fmt)(v)
        if isinstance(dec, list) and dec and dec[0] == 'error' and fmt != 'zk':
            return dict(v=v, enc=enc, ok=False, err=dec[1], d=v)
        if fmt == 'zk' and dec[0] == 'error':
            return dict(v=v, enc=enc, ok=False, err=dec[1], d=v)
        return dict(v=v, enc=enc, ok=True, err='', d=dec)


def record(domain, formats=None):
    """domain: {format: [values]} as exported by CodecExport.tla.
    -> [ {fmt, items:[{v, enc, d[, n]}]} ]"""
    c = Codecs()
    try:
        out = []
        for fmt in formats or ['rule', 'uniq', 'uid', 'event', 'evdict', 'dn', 'zk', 'ldap', 'ldapupd']:
            values = domain['event' if fmt == 'evdict' else fmt]
            out.append(dict(fmt=fmt, items=[c.run(fmt, v) for v in values]))
        return out
    finally:
        c.close()
