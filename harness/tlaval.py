"""Minimal parser for TLA+ values as TLC prints them (action-label arguments,
state dumps): ints, strings, TRUE/FALSE, <<tuples>>, {sets}, [records],
(functions  a :> b @@ c :> d), model values (bare identifiers -> str).
"""


class ParseError(Exception):
    pass


def parse(text):
    val, pos = _value(text, _ws(text, 0))
    pos = _ws(text, pos)
    if pos != len(text):
        raise ParseError('trailing text at %d: %r' % (pos, text[pos:pos + 30]))
    return val


def split_args(text):
    """Split 'a, <<1,2>>, "x,y"' at top-level commas and parse each."""
    out = []
    pos = _ws(text, 0)
    if pos == len(text):
        return out
    while True:
        val, pos = _value(text, pos)
        out.append(val)
        pos = _ws(text, pos)
        if pos == len(text):
            return out
        if text[pos] != ',':
            raise ParseError('expected , at %d in %r' % (pos, text))
        pos = _ws(text, pos + 1)


def _ws(t, p):
    while p < len(t) and t[p] in ' \t\r\n':
        p += 1
    return p


def _value(t, p):
    if p >= len(t):
        raise ParseError('unexpected end')
    c = t[p]
    if c == '"':
        q = p + 1
        buf = []
        while t[q] != '"':
            if t[q] == '\\':
                q += 1
                buf.append({'n': '\n', 't': '\t'}.get(t[q], t[q]))
            else:
                buf.append(t[q])
            q += 1
        return ''.join(buf), q + 1
    if t.startswith('<<', p):
        return _seq(t, p + 2, '>>', tuple)
    if c == '{':
        items, q = _seq(t, p + 1, '}', list)
        try:
            return frozenset(items), q
        except TypeError:
            return tuple(items), q
    if c == '[':
        return _record(t, p + 1)
    if c == '(':
        return _func(t, p + 1)
    if c == '-' or c.isdigit():
        q = p + 1
        while q < len(t) and t[q].isdigit():
            q += 1
        return int(t[p:q]), q
    if c.isalpha() or c == '_':
        q = p
        while q < len(t) and (t[q].isalnum() or t[q] == '_'):
            q += 1
        word = t[p:q]
        if word == 'TRUE':
            return True, q
        if word == 'FALSE':
            return False, q
        return word, q
    raise ParseError('cannot parse at %d: %r' % (p, t[p:p + 30]))


def _seq(t, p, close, ctor):
    items = []
    p = _ws(t, p)
    if t.startswith(close, p):
        return ctor(items), p + len(close)
    while True:
        v, p = _value(t, p)
        items.append(v)
        p = _ws(t, p)
        if t.startswith(close, p):
            return ctor(items), p + len(close)
        if t[p] != ',':
            raise ParseError('expected , or %s at %d' % (close, p))
        p = _ws(t, p + 1)


def _record(t, p):
    rec = {}
    p = _ws(t, p)
    if t[p] == ']':
        return rec, p + 1
    while True:
        q = p
        while t[q].isalnum() or t[q] == '_':
            q += 1
        key = t[p:q]
        p = _ws(t, q)
        if not t.startswith('|->', p):
            raise ParseError('expected |-> at %d' % p)
        v, p = _value(t, _ws(t, p + 3))
        rec[key] = v
        p = _ws(t, p)
        if t[p] == ']':
            return rec, p + 1
        if t[p] != ',':
            raise ParseError('expected , or ] at %d' % p)
        p = _ws(t, p + 1)


def _func(t, p):
    fun = {}
    while True:
        k, p = _value(t, _ws(t, p))
        p = _ws(t, p)
        if not t.startswith(':>', p):
            raise ParseError('expected :> at %d' % p)
        v, p = _value(t, _ws(t, p + 2))
        fun[k] = v
        p = _ws(t, p)
        if t[p] == ')':
            return fun, p + 1
        if not t.startswith('@@', p):
            raise ParseError('expected @@ or ) at %d' % p)
        p += 2
