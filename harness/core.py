"""Shared pipeline pieces: context, verdict bookkeeping, known findings,
evidence writer, exit protocol.  See DESIGN.md section 2."""
import hashlib
import json
import os
import sys
import time

VERIF = os.path.dirname(os.path.dirname(os.path.abspath(__file__)))
REPO = os.environ.get('VERIF_REPO', '/repo')
SPECS = os.path.join(VERIF, 'specs')
EVIDENCE = os.path.join(VERIF, 'evidence')
FOUND = os.path.join(VERIF, 'replays', 'found')
KNOWN = os.path.join(VERIF, 'KNOWN_FINDINGS.json')


class Ctx:
    def __init__(self, prop, tier, seed):
        self.prop = prop
        self.tier = tier
        self.seed = seed
        self.t0 = time.time()
        self.mc = []            # model-checking results (dicts from tlc.mc)
        self.cmds = []
        self.notes = []
        self.drift = 0
        self.skipped = 0

    @property
    def quick(self):
        return self.tier == 'quick'

    def log(self, *a):
        print('[%s %6.1fs]' % (self.prop, time.time() - self.t0), *a, flush=True)

    def add_mc(self, name, res, need_actions=()):
        """Record a model-checking run; vacuity control on named actions."""
        from . import tlc
        self.cmds.append(res['cmd'])
        self.mc.append(dict(name=name, generated=res['generated'], distinct=res['distinct'],
                            depth=res['depth'], wall_s=res['wall_s'], complete=res['ok'],
                            timed_out=res['timed_out'],
                            coverage={k: v[1] for k, v in res['coverage'].items()}))
        self.log('MC %s: %d generated, %d distinct, depth %d, %.1fs%s' % (
            name, res['generated'], res['distinct'], res['depth'], res['wall_s'],
            ' (TIMEOUT: partial)' if res['timed_out'] else ''))
        if res['coverage']:
            for a in need_actions:
                if res['coverage'].get(a, [0, 0])[1] == 0:
                    raise tlc.MachineryError('vacuity: action %s never taken in %s' % (a, name))
        return res


def load_known():
    if not os.path.exists(KNOWN):
        return {'findings': [], 'fixed': []}
    return json.load(open(KNOWN))


def hist_hash(obj):
    return hashlib.sha1(json.dumps(obj, sort_keys=True, default=str).encode()).hexdigest()[:12]


def write_replay(prop, payload):
    os.makedirs(FOUND, exist_ok=True)
    path = os.path.join(FOUND, '%s-%s.json' % (prop, hist_hash(payload)))
    with open(path, 'w') as f:
        json.dump(payload, f, indent=1, sort_keys=True, default=str)
    return path


def conclude(ctx, *, level, violations, evaluations, distinct_nontrivial, rule, samples,
             traces_validated, assumptions, extra=None, exhaustive=False):
    """violations: list of dict(clause, signature, what, replay_payload).
    Applies KNOWN_FINDINGS, writes evidence, prints protocol lines, returns exit code."""
    known = [k for k in load_known().get('findings', []) if k['property'] == ctx.prop]
    reported, known_hit = [], {}
    for v in violations:
        hit = None
        for k in known:
            if k['signature'] == v.get('signature'):
                hit = k
                break
        if hit:
            known_hit.setdefault(hit['signature'], [hit, 0])
            known_hit[hit['signature']][1] += 1
        else:
            reported.append(v)
    for k in known:
        n = known_hit.get(k['signature'], [k, 0])[1]
        print('KNOWN-FINDING: property=%s %s (signature=%s, reproduced %d times in this run)'
              % (ctx.prop, k['what'], k['signature'], n))
    seen = set()
    for v in reported:
        key = (v.get('clause'), v.get('signature'))
        if key in seen and len(seen) >= 1:
            continue
        seen.add(key)
        path = write_replay(ctx.prop, v.get('replay_payload', v))
        print('VIOLATION property=%s replay=%s' % (ctx.prop, path))
        print('  clause=%s signature=%s %s' % (v.get('clause'), v.get('signature'), v.get('what', '')))
    states = sum(m['distinct'] for m in ctx.mc)
    trans = sum(m['generated'] for m in ctx.mc)
    cov = dict(evaluations=int(evaluations), distinct_nontrivial=int(distinct_nontrivial),
               rule=rule, samples=samples[:3] if samples else [],
               traces_validated_against_impl=int(traces_validated),
               checker_cmd=' ;; '.join(ctx.cmds[:6]), exhaustive=bool(exhaustive),
               model_runs=ctx.mc, drift_lines=ctx.drift, skipped=ctx.skipped,
               known_findings_reproduced={s: n for s, (k, n) in known_hit.items()})
    if states:
        cov['states'] = int(states)
        cov['transitions'] = int(trans)
    if extra:
        cov.update(extra)
    ev = dict(property_id=ctx.prop, tier=ctx.tier, seed=int(ctx.seed), level=level,
              coverage=cov, assumptions=assumptions, wall_s=round(time.time() - ctx.t0, 2),
              violations=len(reported))
    # (a --replay run is not a coverage run; a run on a scratch copy of the repository -
    # seeded-change evaluation - does not describe /repo)
    if not getattr(ctx, 'no_evidence', False) and REPO == '/repo':
        os.makedirs(EVIDENCE, exist_ok=True)
        tmp = os.path.join(EVIDENCE, '.%s.json.tmp' % ctx.prop)
        with open(tmp, 'w') as f:
            json.dump(ev, f, indent=1, sort_keys=True, default=str)
        os.replace(tmp, os.path.join(EVIDENCE, '%s.json' % ctx.prop))
    ctx.log('done: %d evaluations, %d nontrivial, %d traces, %d violations (%d known), %.1fs' % (
        evaluations, distinct_nontrivial, traces_validated, len(reported),
        sum(n for _, n in known_hit.values()), time.time() - ctx.t0))
    return 1 if reported else 0


def repo_pythonpath():
    return os.path.join(REPO, 'lib', 'python')


def ensure_repo_on_path():
    import logging
    logging.disable(logging.CRITICAL)     # the code under test logs expected conditions
    p = repo_pythonpath()
    if p not in sys.path:
        sys.path.insert(0, p)


def validate_robust(validate_fn, traces, ctx=None, budget=None):
    """Run validate_fn(traces) -> (verdicts, stats).  If TLC cannot EVALUATE the
    batch (MachineryError that is not a parse/semantic error), bisect to isolate
    the traces it chokes on; those are returned as `unjudged` so that the rest
    of the batch is still judged.  At most 14 extra TLC runs."""
    from . import tlc
    budget = budget if budget is not None else [14]
    try:
        v, st = validate_fn(traces)
        return v, st, []
    except tlc.MachineryError as e:
        msg = str(e)
        if ('semantic analysis failed' in msg or 'Parsing' in msg[-600:] or 'rc=-9' in msg
                or 'rc=143' in msg or 'rc=137' in msg):
            raise
        if len(traces) == 1:
            if ctx:
                ctx.log('UNJUDGED trace %s: %s' % (traces[0].get('tid'), msg[-300:].replace('\n', ' ')))
            return [], {'cmd': 'bisect'}, [traces[0]]
        if budget[0] <= 0:
            raise
        budget[0] -= 2
        mid = len(traces) // 2
        v1, s1, u1 = validate_robust(validate_fn, traces[:mid], ctx, budget)
        v2, s2, u2 = validate_robust(validate_fn, traces[mid:], ctx, budget)
        return v1 + v2, s1 if s1.get('cmd') != 'bisect' else s2, u1 + u2
