"""L1 driver: replays a history of environment events on the REAL
treadmill.scheduler.Cell and records one projected abstract state per event.

The projection logs every redundant view separately (app.server and
server.apps; stored free capacity and the demands; stored affinity counters and
the placements) so that their agreement is something TLC checks.

Scenario dict (single source of truth, also rendered into the MC_*.tla module):
  dims, racks {rack:[servers]}, pods {pod:[racks]} (optional),
  sprofiles [ {cap,label,traits,vu} ], server_init {server: profile idx or 0},
  allocs {name:{label,rank,adj,reserved,maxutil,traits}},
  aprofiles [ {demand,prio,aff,limits,alloc,group,lease,retention,once,traits} ],
  groups {name:count}, apps [names]
"""
import time as _realtime
from unittest import mock

import numpy as np

from . import core

core.ensure_repo_on_path()
from treadmill import scheduler  # noqa: E402

T0 = 1600000000.0
TRAIT_BITS = {'t1': 2, 't2': 4, 't3': 8}
ORDER0 = int(T0 * 1000000) - int(scheduler._GLOBAL_ORDER_BASE)


class SkipEvent(Exception):
    """The event's guard does not hold in the current state: not applied, not logged."""


class VClock:
    """Virtual clock: integer model ticks + strictly increasing microseconds."""
    def __init__(self):
        self.clock = 0
        self.micro = 0

    def time(self):
        return T0 + self.clock + self.micro * 1e-6

    def bump(self):
        self.micro += 1


class _TimeShim:
    def __init__(self, vclock):
        self._v = vclock

    def time(self):
        return self._v.time()

    def __getattr__(self, name):
        return getattr(_realtime, name)


def mask(traits):
    m = 0
    for t in traits:
        m |= TRAIT_BITS[t]
    return m


def unmask(m):
    return sorted(t for t, b in TRAIT_BITS.items() if m & b) + (['invalid'] if m & 1 else [])


def rel(t):
    """Absolute float time -> model ticks (None -> -1)."""
    if t is None:
        return -1
    if t == 0:
        return 0
    return int(np.floor(t - T0 + 1e-9)) if t >= T0 - 1 else int(t)


def ivec(v):
    return [int(round(float(x))) for x in v]


class World:
    def __init__(self, scn):
        self.scn = scn
        self.v = VClock()
        self.shim = _TimeShim(self.v)
        self.queues = []
        self._patches = [
            mock.patch.object(scheduler, 'time', self.shim),
            mock.patch.object(scheduler, 'DIMENSION_COUNT', scn['dims']),
        ]
        for p in self._patches:
            p.start()
        world = self
        orig = scheduler.Cell._find_placements

        def _capture(cell, queue, *rest, **kw):
            world.queues.append([[a.name, (-1 if a.final_rank == scheduler._UNPLACED_RANK
                                           else int(a.final_rank)), bool(a.server)]
                                 for a in queue])
            return orig(cell, queue, *rest, **kw)
        p = mock.patch.object(scheduler.Cell, '_find_placements', _capture)
        p.start()
        self._patches.append(p)
        try:
            self._build()
        except Exception:
            self.close()
            raise

    def close(self):
        for p in reversed(self._patches):
            p.stop()
        self._patches = []

    # -- construction -------------------------------------------------------
    def _build(self):
        scn = self.scn
        self.cell = scheduler.Cell('cell')
        self.buckets = {'cell': self.cell}
        self.bparent = {'cell': ''}
        self.blevel = {'cell': 'cell'}
        pods = scn.get('pods') or {}
        rack_parent = {}
        for pod, racks in pods.items():
            b = scheduler.Bucket(pod, level='pod')
            self.buckets[pod] = b
            self.bparent[pod] = 'cell'
            self.blevel[pod] = 'pod'
            self.cell.add_node(b)
            for r in racks:
                rack_parent[r] = pod
        self.sparent = {}
        for rack, servers in scn['racks'].items():
            b = scheduler.Bucket(rack, level='rack')
            self.buckets[rack] = b
            par = rack_parent.get(rack, 'cell')
            self.bparent[rack] = par
            self.blevel[rack] = 'rack'
            self.buckets[par].add_node(b)
            for s in servers:
                self.sparent[s] = rack
        self.allocs = {}
        self.labels = sorted({sp['label'] for sp in scn['sprofiles']} |
                             {a['label'] for a in scn['allocs'].values()})
        for label in self.labels:
            self.cell.partitions[label] = scheduler.Partition(label=label)
        for name, a in scn['allocs'].items():
            # Exactly as loader.load_allocations does it.
            alloc = self.cell.partitions[a['label']].allocation
            for part in name.split('@')[0].split('/'):
                alloc = alloc.get_sub_alloc(part)
            alloc.update([float(x) for x in a['reserved']], a['rank'], a.get('adj', 0),
                         a.get('maxutil'))
            alloc.set_traits(mask(a.get('traits', [])))
            self.allocs[name] = alloc
        for g, count in scn.get('groups', {}).items():
            self.cell.configure_identity_group(g, count)
        self.servers = {}
        for s, idx in scn['server_init'].items():
            if idx:
                self._add_server(s, idx)

    def _add_server(self, s, idx):
        sp = self.scn['sprofiles'][idx - 1]
        srv = scheduler.Server(s, [float(x) for x in sp['cap']],
                               valid_until=(T0 + sp['vu']) if sp.get('vu') else 0,
                               traits=mask(sp.get('traits', [])), label=sp['label'])
        self.buckets[self.sparent[s]].add_node(srv)
        self.servers[s] = srv

    # -- events ----------------------------------------------------------------
    def apply(self, ev, args):
        getattr(self, 'ev_' + ev)(*args)

    def ev_Submit(self, a, p):
        ap = self.scn['aprofiles'][p - 1]
        self.v.bump()
        app = scheduler.Application(
            a, ap['prio'], [float(x) for x in ap['demand']], ap['aff'],
            affinity_limits=dict(ap.get('limits') or {}),
            data_retention_timeout=(None if ap.get('retention', 0) is None or ap.get('retention', 0) < 0
                                    else ap.get('retention', 0)),
            lease=ap.get('lease', 0), identity_group=ap.get('group') or None,
            traits=mask(ap.get('traits', [])), schedule_once=bool(ap.get('once')))
        self.cell.add_app(self.allocs[ap['alloc']], app)

    def ev_RemoveApp(self, a):
        self.cell.remove_app(a)

    def ev_SetPrio(self, a, n):
        self.cell.apps[a].priority = n

    def ev_Move(self, a, alloc):
        self.cell.add_app(self.allocs[alloc], self.cell.apps[a])

    def ev_Down(self, s):
        self.servers[s].state = scheduler.State.down

    def ev_Up(self, s):
        self.servers[s].state = scheduler.State.up

    def ev_Freeze(self, s):
        self.servers[s].state = scheduler.State.frozen

    def ev_MarkUnschedule(self, a):
        # master._freeze_server marks instances it finds ON the server being frozen
        app = self.cell.apps.get(a)
        if app is None or not app.server or app.server not in self.servers:
            raise SkipEvent()
        app.unschedule = True

    def ev_RemoveServer(self, s):
        srv = self.servers.pop(s)
        srv.remove_all()
        srv.parent.remove_node(srv)

    def ev_AddServer(self, s, idx):
        self._add_server(s, idx)

    def ev_SetVu(self, s, vu):
        # what RebootBucket.add does when the partition (re)assigns a reboot date
        self.servers[s].valid_until = T0 + vu

    def ev_Blacklist(self, a):
        self.cell.apps[a].blacklisted = True

    def ev_Unblacklist(self, a):
        self.cell.apps[a].blacklisted = False

    def ev_SetCount(self, g, n):
        self.cell.configure_identity_group(g, n)

    def ev_DelGroup(self, g):
        self.cell.remove_identity_group(g)

    def ev_Renew(self, a):
        # guard of Sched.tla's Renew: nothing but the scheduler itself ever sets the
        # flag in this code base, so it is only set where a cycle can consume it
        app = self.cell.apps.get(a)
        srv = self.servers.get(app.server) if app is not None and app.server else None
        ig = app.identity_group_ref if app is not None else None
        if (app is None or srv is None or srv.parent is None or srv.state is not scheduler.State.up
                or app.renew or app.blacklisted or not app.lease
                or (ig is not None and (app.identity is None or app.identity >= ig.count))
                or app.allocation is None
                or app.allocation.max_utilization != float('inf')):
            raise SkipEvent()
        app.renew = True

    def ev_Tick(self, n):
        self.v.clock += n

    def ev_Cycle(self):
        self.v.bump()
        self.queues = []
        self.placement = self.cell.schedule()

    # -- projection ------------------------------------------------------------
    def project(self):
        return project_cell(self.cell, self.servers, self.buckets, self.blevel, self.bparent,
                            self.allocs, self.v.clock, rel, unmask, ORDER0)


def project_cell(cell, servers_in, buckets_in, blevel, bparent, allocs_in, clock, relf, traitsf,
                 order0, rename=lambda x: x):
    """Abstract state of a scheduler.Cell (DESIGN.md 4.2).  Every redundant view
    is read separately from the real objects."""
    servers = {}
    for s, srv in servers_in.items():
        in_tree = srv.parent is not None
        servers[s] = dict(
            cap=ivec(srv.init_capacity), free=ivec(srv.free_capacity),
            state=srv.state.value, since=relf(srv.get_state()[1]),
            label=sorted(x for x in srv.labels if x is not None)[0] if srv.labels else '',
            traits=traitsf(srv.traits.traits), vu=relf(srv.valid_until),
            parent=srv.parent.name if in_tree else '',
            apps=sorted(rename(x) for x in srv.apps.keys()),
            ctr={k: int(n) for k, n in srv.affinity_counters.items() if n != 0})
    buckets = {}
    for b, bk in buckets_in.items():
        buckets[b] = dict(
            level=blevel[b], parent=bparent[b], free=ivec(bk.free_capacity),
            traits=traitsf(bk.traits.traits), labels=sorted(x for x in bk.labels if x),
            vu=relf(bk.valid_until),
            ctr={k: int(n) for k, n in bk.affinity_counters.items() if n != 0})
    alloc_name = {id(al): n for n, al in allocs_in.items()}
    # arrival stamps are only ever compared: log their dense rank (TLC ints are 32 bit)
    ranks = {g: i + 1 for i, g in enumerate(sorted({int(x.global_order) for x in cell.apps.values()}))}
    apps = {}
    for a, app in cell.apps.items():
        al = app.allocation
        lim = {k: int(v) for k, v in app.affinity.limits.items() if v != float('inf')}
        apps[rename(a)] = dict(
            demand=ivec(app.demand), prio=int(app.priority), aff=app.affinity.name,
            limits=lim, alloc=alloc_name.get(id(al), ''),
            label=(al.label if al is not None and al.label else ''),
            server=app.server or '', identity=-1 if app.identity is None else int(app.identity),
            group=app.identity_group or '', lease=int(app.lease),
            expiry=relf(app.placement_expiry),
            retention=-1 if app.data_retention_timeout is None else int(app.data_retention_timeout),
            once=bool(app.schedule_once), evicted=bool(app.evicted), renew=bool(app.renew),
            unschedule=bool(app.unschedule), blacklisted=bool(app.blacklisted),
            traits=traitsf(app.traits), own=traitsf(app._traits),
            order=ranks[int(app.global_order)])
    groups = {g: dict(count=int(ig.count), available=sorted(int(x) for x in ig.available))
              for g, ig in cell.identity_groups.items()}
    allocs = {}
    for n, al in allocs_in.items():
        mu = al.max_utilization
        allocs[n] = dict(rank=int(al.rank), adj=int(al.rank_adjustment), reserved=ivec(al.reserved),
                         maxutil=(-1 if mu == float('inf') else int(mu)),
                         label=al.label or '')
    nea = cell.next_event_at
    return dict(clock=clock, servers=servers, buckets=buckets, apps=apps,
                groups=groups, allocs=allocs,
                nea=(-1 if nea == float('inf') else relf(float(nea))))


def replay(scn, history):
    """history: list of (event, args).  Returns list of trace lines; line 0 is the
    initial state.  A line carries ev, args, post, h (number of history events
    consumed); Cycle lines add queues, placement; an exception in the code under
    test is recorded as exc.

    Two composite history events (C02): ('Quiesce', []) runs cycles until one
    changes nothing (at most 6; each is an ordinary judged Cycle line) and
    ('Probe', [a, p]) submits instance a and runs the probe cycle (line
    ProbeCycle with fields probe and quiet)."""
    w = World(scn)
    lines = []
    quiet = False

    def step(ev, args, h, shown=None, extra=None):
        line = dict(ev=shown or ev, args=list(args), h=h)
        try:
            w.apply(ev, args)
        except SkipEvent:
            return True
        except Exception as e:  # pylint: disable=broad-except
            line['exc'] = '%s: %s' % (type(e).__name__, e)
            line['post'] = lines[-1]['post']
            lines.append(line)
            return False
        line['post'] = w.project()
        if ev == 'Cycle':
            line['queues'] = w.queues
            line['placement'] = [
                [n, b or '', rel(eb), a or '', rel(ea)] for n, b, eb, a, ea in w.placement]
        if extra:
            line.update(extra)
        lines.append(line)
        return True

    try:
        lines.append(dict(ev='Init', args=[], h=0, post=w.project()))
        for h, (ev, args) in enumerate(history, 1):
            if ev == 'Quiesce':
                quiet = False
                for _ in range(6):
                    if not step('Cycle', [], h):
                        break
                    if all(p[1] == p[3] and p[2] == p[4] for p in lines[-1]['placement']):
                        quiet = True
                        break
                if 'exc' in lines[-1]:
                    break
            elif ev == 'Probe':
                if not step('Submit', args, h):
                    break
                if not step('Cycle', [], h, shown='ProbeCycle',
                            extra=dict(probe=args[0], quiet=quiet)):
                    break
                quiet = False
            else:
                quiet = False
                if not step(ev, args, h):
                    break
    finally:
        w.close()
    return lines
