"""C14 driver: the real VipMgr / RuleMgr / EndpointsMgr / NetworkResourceService on
a real temporary directory, driven by histories of Owners.tla actions, projected
after every call (DESIGN.md 4.2, section 6 C14).

What is real: every symlink, readlink, unlink, stat, glob of the three managers,
the service's device table and its use of VipMgr, iptables' ip-set helpers.
What is stubbed: netdev (a small stateful fake that keeps the veth devices and
their aliases, so that `initialize` finds what `on_create_request` made), the
`ipset` binary (IpsetFake interprets the command lines iptables.py builds and
keeps the set contents, with ipset's own `-exist` semantics).

Also here: rendering of MC_/GEN_ modules for Owners.tla, the seeded random history
generator, record/validate of a batch.
"""
import concurrent.futures
import errno
import json
import logging
import multiprocessing
import os
import shutil

from unittest import mock

from . import core, tlc

SPEC_DIR = os.path.join(core.SPECS, 'node')

CIDR = '192.168.0.0/29'          # 6 hosts: exhaustion is reachable
OUTSIDE = ['10.9.9.9']
EXT_IP = '10.10.10.10'


def pmap(fn, items, procs=8):
    """Replays are independent (own directory, own objects): run them in forked
    workers.  fn must be a module-level function; results keep the input order."""
    items = list(items)
    if len(items) < 32 or procs <= 1:
        return [fn(x) for x in items]
    with concurrent.futures.ProcessPoolExecutor(
            procs, mp_context=multiprocessing.get_context('fork')) as ex:
        return list(ex.map(fn, items, chunksize=max(1, len(items) // (procs * 8))))


# ---------------------------------------------------------------------------
# fakes shared with netreg_driver
class IpsetFake:
    """Interprets `ipset` command lines (what iptables._ipset receives)."""

    def __init__(self, names=()):
        self.sets = {n: set() for n in names}
        self.log = []

    def _fail(self, use_except, cmd):
        from treadmill import subproc
        if use_except:
            raise subproc.CalledProcessError(1, ['ipset'] + list(cmd))
        return (1, '')

    def __call__(self, *args, **kwargs):
        use_except = kwargs.get('use_except', True)
        args = list(args)
        self.log.append(tuple(args))
        exist = False
        if args and args[0] == '-exist':
            exist = True
            args = args[1:]
        cmd = args[0]
        if cmd == 'restore':
            for line in (kwargs.get('cmd_input') or '').splitlines():
                line = line.strip()
                if line:
                    self(*((['-exist'] if exist else []) + line.split()), use_except=True)
            return (0, '')
        if cmd == 'list':
            return (0, '\n'.join(sorted(self.sets)))
        name = args[1]
        if cmd == 'create':
            if name in self.sets and not exist:
                return self._fail(use_except, args)
            self.sets.setdefault(name, set())
            return (0, '')
        if cmd == 'swap':
            if name not in self.sets or args[2] not in self.sets:
                return self._fail(use_except, args)
            self.sets[name], self.sets[args[2]] = self.sets[args[2]], self.sets[name]
            return (0, '')
        if name not in self.sets:
            return self._fail(use_except, args)
        if cmd == 'destroy':
            del self.sets[name]
        elif cmd == 'flush':
            self.sets[name] = set()
        elif cmd == 'test':
            return (0, '') if args[2] in self.sets[name] else (1, '')
        elif cmd == 'add':
            if args[2] in self.sets[name] and not exist:
                return self._fail(use_except, args)
            self.sets[name].add(args[2])
        elif cmd == 'del':
            if args[2] not in self.sets[name] and not exist:
                return self._fail(use_except, args)
            self.sets[name].discard(args[2])
        else:
            raise tlc.MachineryError('IpsetFake: unknown command %r' % (args,))
        return (0, '')


class FakeNet:
    """Stateful stand-in for treadmill.netdev (veth devices with aliases)."""

    FUNCS = ('dev_mtu', 'dev_speed', 'dev_alias', 'dev_state', 'link_add_veth', 'link_del_veth',
             'link_set_alias', 'bridge_brif', 'link_set_up', 'link_set_mtu', 'bridge_addif',
             'bridge_setfd', 'dev_conf_route_localnet_set', 'dev_mac', 'link_set_down',
             'bridge_delete', 'bridge_create', 'link_set_addr', 'addr_add')

    def __init__(self):
        self.veths = {}

    def dev_mtu(self, _dev):
        return 1500

    def dev_speed(self, _dev):
        return 10000

    def dev_alias(self, dev):
        return self.veths[dev]

    def dev_state(self, dev):
        if dev not in self.veths:
            raise OSError(errno.ENOENT, 'no such device', dev)
        return 'up'

    def link_add_veth(self, veth0, _veth1):
        from treadmill import subproc
        if getattr(self, 'refuse_add', False):
            self.refuse_add = False
            raise subproc.CalledProcessError(1, ['ip', 'link', 'add', veth0])
        if veth0 in self.veths:
            raise subproc.CalledProcessError(2, ['ip', 'link', 'add', veth0])
        self.veths[veth0] = ''

    def link_del_veth(self, veth):
        self.veths.pop(veth, None)

    def link_set_alias(self, dev, alias):
        if dev in self.veths:
            self.veths[dev] = alias

    def bridge_brif(self, _bridge):
        return sorted(self.veths) + ['tm1']

    def _noop(self, *_a, **_kw):
        return None

    def patches(self):
        return {f: getattr(self, f, self._noop) for f in self.FUNCS}


# ---------------------------------------------------------------------------
# the abstract names of Owners.tla and what they stand for on disk
def real_owner(o):
    """Owners are containers (unique names) of the two instances the endpoint specs
    belong to - odd ones of proid.web#1, even ones of proid.db#7 - so that two live
    containers of ONE instance can ask for the same spec."""
    k = int(o[1:])
    base, inst = ('proid.web', 1) if k % 2 else ('proid.db', 7)
    return '%s-%010d-uniq%09d' % (base, inst, k)


APPS = {'a1': 'proid.web#0000000001', 'a2': 'proid.db#0000000007'}
SPECAPP = {'s1': 'a1', 's2': 'a1', 's3': 'a2', 's4': 'a2'}
_SPEC_ARGS = {  # proto, endpoint, real_port, pid, port
    's1': ('tcp', 'http', 45000, 4321, 8000),
    's2': ('udp', 'dns', 45001, 4321, 53),
    's3': ('tcp', 'sql', 45002, 4400, 5432),
    's4': ('tcp', 'ssh', 45003, 4400, 22),
}


def _rules():
    from treadmill import firewall, iptables
    return {
        'r1': (iptables.PREROUTING_DNAT,
               firewall.DNATRule(proto='tcp', dst_ip=EXT_IP, dst_port=45000,
                                 new_ip='192.168.0.1', new_port=8000)),
        'r2': (iptables.POSTROUTING_SNAT,
               firewall.SNATRule(proto='udp', src_ip='192.168.0.1', src_port=53,
                                 new_ip=EXT_IP, new_port=45001)),
        'r3': (iptables.PREROUTING_PASSTHROUGH,
               firewall.PassThroughRule(src_ip='10.1.1.1', dst_ip='192.168.0.2')),
        'r4': (iptables.PREROUTING_DNAT,
               firewall.DNATRule(proto='udp', dst_ip=EXT_IP, dst_port=45001,
                                 new_ip='192.168.0.2', new_port=53)),
    }


def header():
    import ipaddress
    net = ipaddress.IPv4Network(CIDR)
    return dict(hosts=[str(h) for h in net.hosts()], netaddrs=[str(a) for a in net],
                specapp=dict(SPECAPP))


class World:
    """One fresh node directory + managers; apply(ev, args) runs one call."""

    def __init__(self, root, owners, far=None):
        core.ensure_repo_on_path()
        from treadmill import endpoints, rulefile, vipfile, iptables
        from treadmill.services import network_service
        self.m_endpoints = endpoints
        self.m_netsvc = network_service
        self.root = root
        self.owners = list(owners)
        self.svc_dir = os.path.join(root, 'network_svc')
        self.vips_dir = os.path.join(self.svc_dir, 'vips')
        self.rsrc_dir = os.path.join(self.svc_dir, 'resources')
        self.apps_dir = os.path.join(root, 'apps')
        self.rules_dir = os.path.join(root, 'rules')
        self.ep_dir = os.path.join(root, 'endpoints')
        for d in (self.svc_dir, self.rsrc_dir, self.apps_dir):
            os.makedirs(d)
        if far:
            # the databases themselves live elsewhere (another volume) and are reached through
            # symbolic links, at another depth than their names under the treadmill root
            for link, tail in ((self.rules_dir, 'r'), (self.vips_dir, 'v/w'), (self.ep_dir, 'e/f/g')):
                phys = os.path.join(far, tail, os.path.basename(link))
                os.makedirs(phys)
                os.symlink(phys, link)
        else:
            os.makedirs(self.rules_dir)
        self.vipmgr = vipfile.VipMgr(CIDR, self.vips_dir, self.rsrc_dir)
        self.rulemgr = rulefile.RuleMgr(self.rules_dir, self.apps_dir)
        self.epmgr = endpoints.EndpointsMgr(self.ep_dir)
        self.rules = _rules()
        self.rule_by_file = {rulefile.RuleMgr._filenameify(c, r): k  # pylint: disable=W0212
                             for k, (c, r) in self.rules.items()}
        self.spec_by_file = {}
        for sid, (proto, name, real_port, pid, port) in _SPEC_ARGS.items():
            fn = '~'.join([APPS[SPECAPP[sid]], proto, name, str(real_port), str(pid), str(port)])
            self.spec_by_file[fn] = sid
        self.abstract = {real_owner(o): o for o in self.owners}
        self.net = FakeNet()
        self.ipset = IpsetFake([iptables.SET_PROD_CONTAINERS, iptables.SET_NONPROD_CONTAINERS,
                                iptables.SET_INFRA_SVC, iptables.SET_VRING_CONTAINERS])
        self.svc = None
        self.excname = ''

    # -- projection ---------------------------------------------------------
    def _abs(self, name):
        return self.abstract.get(name, '?' + name)

    def _listing(self, path, names):
        out = []
        for f in sorted(os.listdir(path)):
            p = os.path.join(path, f)
            try:
                owner = self._abs(os.path.basename(os.readlink(p)))
            except OSError:
                owner = '?notalink'
            out.append([names.get(f, '?' + f) if names is not None else f, owner])
        return out

    def project(self):
        live_apps = sorted(self._abs(d) for d in os.listdir(self.apps_dir))
        live_rsrc = sorted(self._abs(d) for d in os.listdir(self.rsrc_dir)
                           if not d.startswith('.'))
        if live_apps != live_rsrc:
            raise tlc.MachineryError('harness owner directories disagree: %r %r'
                                     % (live_apps, live_rsrc))
        dev = []
        if self.svc is not None:
            for k, v in sorted(self.svc._devices.items()):  # pylint: disable=W0212
                dev.append(dict(o=self._abs(k), ip=v.get('ip', ''),
                                stale=bool(v.get('stale', False))))
        return dict(live=live_apps,
                    vips=self._listing(self.vips_dir, None),
                    rules=self._listing(self.rules_dir, self.rule_by_file),
                    specs=self._listing(self.ep_dir, self.spec_by_file),
                    dev=dev,
                    veth=sorted(self._abs(a) for a in self.net.veths.values()))

    # -- events -------------------------------------------------------------
    def _owner_dirs(self, o):
        return [os.path.join(self.apps_dir, real_owner(o)),
                os.path.join(self.rsrc_dir, real_owner(o))]

    def apply(self, ev, a):
        """Run one call on the real code.  Returns res as Owners.tla names it."""
        self.excname = ''
        try:
            return self._apply(ev, a)
        except tlc.MachineryError:
            raise
        except Exception as err:  # pylint: disable=W0703
            # raised by the code under test: part of the protocol (refusals)
            self.excname = type(err).__name__
            return 'raise'

    def _apply(self, ev, a):
        # pylint: disable=too-many-return-statements,too-many-branches
        if ev == 'OwnerAppears':
            for d in self._owner_dirs(a[0]):
                os.mkdir(d)
            return 'ok'
        if ev == 'OwnerDisappears':
            for d in self._owner_dirs(a[0]):
                shutil.rmtree(d)
            return 'ok'
        if ev == 'VipAlloc':
            return self.vipmgr.alloc(real_owner(a[0]))
        if ev == 'VipAllocPicked':
            return self.vipmgr.alloc(real_owner(a[0]), picked_ip=a[1])
        if ev == 'VipFree':
            self.vipmgr.free(real_owner(a[0]), a[1])
            return 'ok'
        if ev == 'VipGC':
            self.vipmgr.garbage_collect()
            return 'ok'
        if ev in ('RuleCreate', 'RuleUnlink'):
            chain, rule = self.rules[a[1]]
            fn = self.rulemgr.create_rule if ev == 'RuleCreate' else self.rulemgr.unlink_rule
            fn(chain=chain, rule=rule, owner=real_owner(a[0]))
            return 'ok'
        if ev == 'RuleGC':
            # as the cleanup service calls it: with a watchdog lease to keep alive while
            # the scan runs (a heartbeat period so short that every entry renews it)
            self.gc_calls = getattr(self, 'gc_calls', 0) + 1
            if self.gc_calls % 2:
                beats = []
                lease = type('Lease', (), {'heartbeat': lambda _self: beats.append(1)})()
                self.rulemgr.garbage_collect(lease, 1e-9)
            else:
                self.rulemgr.garbage_collect()
            return 'ok'
        if ev in ('SpecCreate', 'SpecUnlink'):
            proto, name, real_port, pid, port = _SPEC_ARGS[a[1]]
            fn = self.epmgr.create_spec if ev == 'SpecCreate' else self.epmgr.unlink_spec
            fn(appname=APPS[SPECAPP[a[1]]], proto=proto, endpoint=name, real_port=real_port,
               pid=pid, port=port, owner=os.path.join(self.apps_dir, real_owner(a[0])))
            return 'ok'
        if ev == 'SpecUnlinkAll':
            # as _finish._cleanup_network calls it: owner = unique name
            self.epmgr.unlink_all(APPS[a[1]], owner=real_owner(a[0]))
            return 'ok'
        if ev == 'SpecGC':
            self.m_endpoints.garbage_collect(self.ep_dir)
            return 'ok'
        if ev == 'Initialize':
            # node start: what treadmill `node init` / the managers' owners call
            {'vips': self.vipmgr.initialize, 'rules': self.rulemgr.initialize,
             'specs': self.epmgr.initialize}[a[0]]()
            return 'ok'
        if ev == 'SvcStart':
            # a restarted service process: a new object, state re-read from disk
            self.svc = self.m_netsvc.NetworkResourceService(
                ext_device='eth0', ext_ip=EXT_IP, ext_mtu=1500, ext_speed=10000)
            self.svc.initialize(self.svc_dir)
            return 'ok'
        if ev == 'OnCreateFail':
            # 'ip link add' is refused once: the request fails after the address was allocated
            self.net.refuse_add = True
            try:
                res = self.svc.on_create_request(real_owner(a[0]), {'environment': 'dev'})
            finally:
                self.net.refuse_add = False
            return res['vip']       # the pair existed already: nothing was refused
        if ev in ('OnCreate', 'Import'):
            if ev == 'Import' and not os.path.isdir(self._owner_dirs(a[0])[1]):
                return 'skip'       # _on_created: request vanished, impl not called
            res = self.svc.on_create_request(real_owner(a[0]), {'environment': 'dev'})
            return res['vip']
        if ev == 'OnDelete':
            self.svc.on_delete_request(real_owner(a[0]))
            return 'ok'
        if ev == 'Synchronize':
            self.svc.synchronize()
            return 'ok'
        raise tlc.MachineryError('unknown event %r' % (ev,))


# ---------------------------------------------------------------------------
# a garbage collection pass with the environment acting in the middle of it
_READS = ('listdir', 'stat', 'lstat', 'readlink', 'scandir')


def gc_pass(w, db, sched, emit):
    """Run the real garbage_collect of database `db`; after its k-th directory read
    (os.listdir/stat/lstat/readlink/scandir on a path of this node directory; the
    read returns what it saw *before* the environment acted, as it would with a
    second process) run the environment actions sched[str(k)].  sched['0'] runs
    before the call.  Lines: GcBegin, [env...], GcRun (the stretch up to read k),
    [env...], ..., GcEnd.  Actions scheduled after a read the pass never makes are
    run after it, as ordinary calls.  No patch is left active."""
    gc = {'vips': w.vipmgr.garbage_collect, 'rules': w.rulemgr.garbage_collect,
          'specs': lambda: w.m_endpoints.garbage_collect(w.ep_dir)}[db]
    sched = {str(k): [(e, [str(x) for x in a]) for e, a in v] for k, v in sched.items()}

    def env(evs, in_pass=True):
        # The model's pass and the real one need not visit the entries in the same
        # order, so the guards of Owners.tla for what the environment may do during
        # a pass are enforced again on the REAL state: the owner that appears holds
        # nothing (a new container), entries are created by owners that exist.
        # An action whose guard does not hold here is dropped.
        for ev, a in evs:
            post = w.project()
            if ev == 'OwnerAppears' and (
                    a[0] in post['live'] or
                    (in_pass and any(p[1] == a[0]
                                     for p in post['vips'] + post['rules'] + post['specs']))):
                continue
            if ev == 'OwnerDisappears' and a[0] not in post['live']:
                continue
            if in_pass and ev in ('VipAlloc', 'RuleCreate', 'SpecCreate') and a[0] not in post['live']:
                continue
            emit(ev, a, w.apply(ev, a))
    w.excname = ''
    emit('GcBegin', [db], 'ok')
    env(sched.pop('0', []))
    st = dict(n=0, busy=False)

    def after_read():
        if st['busy']:
            return
        st['n'] += 1
        evs = sched.pop(str(st['n']), None)
        if evs:
            st['busy'] = True
            try:
                w.excname = ''
                emit('GcRun', [db], 'ok')
                env(evs)
            finally:
                st['busy'] = False

    def wrap(real):
        def hooked(path, *a, **kw):
            ours = isinstance(path, (str, bytes)) and os.fsdecode(path).startswith(w.scratch)
            try:
                return real(path, *a, **kw)
            finally:
                if ours:
                    after_read()
        return hooked
    patches = [mock.patch.object(os, f, wrap(getattr(os, f))) for f in _READS]
    for p in patches:
        p.start()
    try:
        w.excname = ''
        try:
            gc()
            res = 'ok'
        except tlc.MachineryError:
            raise
        except Exception as err:  # pylint: disable=W0703
            res = 'raise'
            w.excname = type(err).__name__
    finally:
        for p in patches:
            p.stop()
    emit('GcEnd', [db], res)
    for k in sorted(sched, key=int):
        env(sched[k], in_pass=False)


def replay(history, owners=('o1', 'o2', 'o3', 'o4', 'o5', 'o6')):
    """Replay one history on a fresh directory; returns trace lines.  Items are
    (ev, [args]) or ('GcPass', [db], {k: [(ev, [args]), ...]})."""
    core.ensure_repo_on_path()
    from treadmill import iptables, netdev
    from treadmill.services import network_service
    root = tlc.scratch('verif-own-')
    logging.disable(logging.CRITICAL)       # the code logs every refusal; not wanted here
    try:
        # the treadmill root is reached through a symbolic link, as it commonly is
        # in a deployment (e.g. /var/tmp/treadmill -> /local/...): every history of
        # even length runs that way, the others on the real path
        # (the link sits at another depth than its target, so that a relative
        # path computed from the unresolved name does not happen to work)
        os.makedirs(os.path.join(root, 'vol', 'disk1', 'real'))
        via = os.path.join(root, 'vol', 'disk1', 'real')
        if len(history) % 2 == 0:
            os.symlink(via, os.path.join(root, 'link'))
            via = os.path.join(root, 'link')
        far = None
        if len(history) % 3 == 1:
            far = os.path.join(root, 'othervol')
        w = World(via, owners, far)
        w.scratch = (root, os.path.realpath(root))
        lines = [dict(ev='Init', args=[], res='ok', exc='', h=-1, post=w.project())]
        with mock.patch.multiple(netdev, **w.net.patches()), \
                mock.patch.object(iptables, '_ipset', w.ipset), \
                mock.patch.object(network_service.NetworkResourceService, '_TM_CIDR', CIDR):
            for h, item in enumerate(history):
                def emit(ev, a, res, _h=h):
                    lines.append(dict(ev=ev, args=a, res=res, exc=w.excname, h=_h, post=w.project()))
                if item[0] == 'GcPass':
                    gc_pass(w, str(item[1][0]), item[2], emit)
                    continue
                a = [str(x) for x in item[1]]
                # the environment's own moves are the harness's: one that no longer applies
                # because an action inside an earlier pass was dropped (see gc_pass) is skipped
                if item[0] in ('OwnerAppears', 'OwnerDisappears') and \
                        (item[0] == 'OwnerAppears') == os.path.isdir(w._owner_dirs(a[0])[0]):
                    continue
                emit(item[0], a, w.apply(item[0], a))
        return lines
    finally:
        logging.disable(logging.NOTSET)
        shutil.rmtree(root, ignore_errors=True)


# ---------------------------------------------------------------------------
# TLC side: focus configurations of Owners.tla
def _tla(v):
    if isinstance(v, (list, tuple)):
        return '<<' + ', '.join(_tla(x) for x in v) + '>>'
    if isinstance(v, (set, frozenset)):
        return '{' + ', '.join(_tla(x) for x in sorted(v)) + '}'
    if isinstance(v, dict):
        return '(' + ' @@ '.join('%s :> %s' % (_tla(k), _tla(x)) for k, x in sorted(v.items())) + ')'
    if isinstance(v, int):
        return str(v)
    return json.dumps(v)


FOCUS = {
    'vip': ['OwnerAppears', 'OwnerDisappears', 'VipAlloc', 'VipAllocPicked', 'VipFree', 'VipGC',
            'Initialize'],
    'rule': ['OwnerAppears', 'OwnerDisappears', 'RuleCreate', 'RuleUnlink', 'RuleGC', 'Initialize'],
    'spec': ['OwnerAppears', 'OwnerDisappears', 'SpecCreate', 'SpecUnlink', 'SpecUnlinkAll',
             'SpecGC', 'Initialize'],
    'svc': ['OwnerAppears', 'OwnerDisappears', 'SvcStart', 'Import', 'Synchronize', 'OnCreate',
            'OnCreateFail', 'OnDelete'],
}
_GC = ['GcBegin', 'GcList', 'GcVisit', 'GcEnd']
FOCUS['gcvip'] = ['OwnerAppears', 'OwnerDisappears', 'VipAlloc', 'VipFree'] + _GC
FOCUS['gcrule'] = ['OwnerAppears', 'OwnerDisappears', 'RuleCreate', 'RuleUnlink'] + _GC
FOCUS['gcspec'] = ['OwnerAppears', 'OwnerDisappears', 'SpecCreate', 'SpecUnlink'] + _GC
FOCUS['gc'] = sorted(set(FOCUS['gcvip'] + FOCUS['gcrule'] + FOCUS['gcspec']))
FOCUS['mgr'] = sorted(set(FOCUS['vip'] + FOCUS['rule'] + FOCUS['spec']))


def mc_files(focus, max_events, owners=3, hosts=2, rules=2, specs=3, defects=(), tag='',
             invariants=('InvClauses', 'InvState', 'InvSvcAgree')):
    """MC module + cfg for one focus.  hosts=2 is 192.168.0.0/30, 6 is /29."""
    import ipaddress
    net = ipaddress.IPv4Network({2: '192.168.0.0/30', 6: '192.168.0.0/29'}[hosts])
    mod = 'MC_Owners_%s%s' % (focus, tag)
    sids = sorted(SPECAPP)[:specs]
    text = '\n'.join([
        '---- MODULE %s ----' % mod, 'EXTENDS Owners',
        'McOwners == %s' % _tla({'o%d' % k for k in range(1, owners + 1)}),
        'McHosts == %s' % _tla([str(h) for h in net.hosts()]),
        'McNet == %s' % _tla({str(x) for x in net}),
        'McOutside == %s' % _tla(set(OUTSIDE)),
        'McRules == %s' % _tla({'r%d' % k for k in range(1, rules + 1)}),
        'McSpecs == %s' % _tla(set(sids)),
        'McSpecApp == %s' % _tla({s: SPECAPP[s] for s in sids}),
        'McEvents == %s' % _tla(set(FOCUS[focus])),
        'McDefects == %s' % _tla(set(defects)), '====', ''])
    cfg = ['INIT Init', 'NEXT Next', 'CHECK_DEADLOCK FALSE', 'CONSTANTS',
           ' OwnerIds <- McOwners', ' Hosts <- McHosts', ' NetAddrs <- McNet',
           ' Outside <- McOutside', ' RuleIds <- McRules', ' SpecIds <- McSpecs',
           ' SpecApp <- McSpecApp', ' Events <- McEvents', ' Defects <- McDefects',
           ' MaxEvents = %d' % max_events]
    cfg += ['INVARIANT %s' % i for i in invariants]
    return mod, mod + '.cfg', {mod + '.tla': text, mod + '.cfg': '\n'.join(cfg) + '\n'}


def history_of(labels):
    """TLC labels -> history.  A stepped pass GcBegin .. GcList/GcVisit .. GcEnd with
    environment actions in between becomes one ('GcPass', [db], {k: [...]}) item:
    actions after the k-th step of the model's pass (GcList is the first) are
    scheduled after the k-th directory read of the real pass."""
    out = []
    cur = None
    for name, args in labels:
        if name == 'Advance':
            name, args = args[0], list(args[1])
        args = [str(x) for x in args]
        if name == 'GcBegin':
            cur = ['GcPass', [args[0]], {}]
            out.append(cur)
            steps = 0
        elif cur is not None and name in ('GcList', 'GcVisit'):
            steps += 1
        elif cur is not None and name == 'GcEnd':
            cur = None
        elif cur is not None:
            cur[2].setdefault(str(steps), []).append([name, args])
        else:
            out.append((name, args))
    return out


def show(item):
    if item[0] == 'GcPass':
        return 'GcPass(%s; %s)' % (item[1][0], '; '.join(
            'after read %s: %s' % (k, ' '.join('%s(%s)' % (e, ','.join(a)) for e, a in v))
            for k, v in sorted(item[2].items(), key=lambda kv: int(kv[0]))))
    return '%s(%s)' % (item[0], ','.join(str(x) for x in item[1]))


# ---------------------------------------------------------------------------
# seeded random histories (4 owners, /29, all three databases at once / service)
def gen_random(rng, depth, mode):
    owners = ['o1', 'o2', 'o3', 'o4']
    hosts = header()['hosts']
    live = set()
    hist = []
    if mode == 'mgr':
        used = set()        # owners that were ever granted something (not "new" any more)
        late = ['o5', 'o6']  # owners that only ever appear in the middle of a pass
        entries = dict(vips=None, rules=['r1', 'r2', 'r3', 'r4'], specs=sorted(SPECAPP))
        create = dict(vips='VipAlloc', rules='RuleCreate', specs='SpecCreate')

        def mid_gc_events(db):
            """what the environment may do while a pass runs (guards of Owners.tla)"""
            evs = []
            for _ in range(rng.choice([1, 1, 2])):
                q = rng.random()
                fresh = [x for x in owners + late if x not in live and x not in used]
                if q < 0.6 and fresh:
                    o = rng.choice(fresh)
                    live.add(o)
                    used.add(o)
                    evs.append(['OwnerAppears', [o]])
                    evs.append([create[db], [o] + ([rng.choice(entries[db])] if entries[db] else [])])
                elif q < 0.8 and live:
                    o = rng.choice(sorted(live))
                    used.add(o)
                    evs.append([create[db], [o] + ([rng.choice(entries[db])] if entries[db] else [])])
                elif live:
                    o = rng.choice(sorted(live))
                    live.discard(o)
                    evs.append(['OwnerDisappears', [o]])
            return evs
        for _ in range(depth):
            r = rng.random()
            o = rng.choice(owners)
            if r < 0.10:
                db = rng.choice(['rules', 'rules', 'vips', 'specs'])
                sched = {}
                for k in sorted(rng.sample([0, 1, 1, 2, 3, 4], rng.choice([1, 1, 2]))):
                    evs = mid_gc_events(db)
                    if evs:
                        sched.setdefault(str(k), []).extend(evs)
                hist.append(('GcPass', [db], sched))
                continue
            r = (r - 0.10) / 0.90
            if rng.random() < 0.03:
                hist.append(('Initialize', [rng.choice(['vips', 'rules', 'specs'])]))
                continue
            if r < 0.12:
                cand = [x for x in owners if x not in live]
                if cand:
                    o = rng.choice(cand)
                    live.add(o)
                    hist.append(('OwnerAppears', [o]))
            elif r < 0.22:
                if live:
                    o = rng.choice(sorted(live))
                    live.discard(o)
                    hist.append(('OwnerDisappears', [o]))
            elif r < 0.42:
                used.add(o)
                hist.append(('VipAlloc', [o]))
            elif r < 0.47:
                used.add(o)
                hist.append(('VipAllocPicked', [o, rng.choice(hosts + OUTSIDE)]))
            elif r < 0.57:
                hist.append(('VipFree', [o, rng.choice(hosts)]))
            elif r < 0.61:
                hist.append(('VipGC', []))
            elif r < 0.70:
                used.add(o)
                hist.append(('RuleCreate', [o, rng.choice(['r1', 'r2', 'r3', 'r4'])]))
            elif r < 0.77:
                hist.append(('RuleUnlink', [o, rng.choice(['r1', 'r2', 'r3', 'r4'])]))
            elif r < 0.80:
                hist.append(('RuleGC', []))
            elif r < 0.88:
                used.add(o)
                hist.append(('SpecCreate', [o, rng.choice(sorted(SPECAPP))]))
            elif r < 0.93:
                hist.append(('SpecUnlink', [o, rng.choice(sorted(SPECAPP))]))
            elif r < 0.97:
                hist.append(('SpecUnlinkAll', [o, rng.choice(sorted(APPS))]))
            else:
                hist.append(('SpecGC', []))
        return hist
    # service mode: the guards of Owners.tla (the service loop's own discipline)
    phase, pend, imp = 'down', set(), set()
    ever = set()        # owners the service may have a record of
    for _ in range(depth):
        r = rng.random()
        if phase == 'run' and r > 0.9:
            # the interface pair of a NEW request is refused; the request is retried later
            cand = [x for x in sorted(live) if x not in pend and x not in ever]
            if cand:
                o = rng.choice(cand)
                ever.add(o)
                hist.append(('OnCreateFail', [o]))
                continue
        if phase == 'down' or r < 0.06:
            hist.append(('SvcStart', []))
            phase, pend, imp = 'import', set(), set(live)
        elif r < 0.30:
            cand = [x for x in owners if x not in live]
            if cand:
                o = rng.choice(cand)
                live.add(o)
                hist.append(('OwnerAppears', [o]))
        elif r < 0.45:
            if live:
                o = rng.choice(sorted(live))
                live.discard(o)
                pend.add(o)
                hist.append(('OwnerDisappears', [o]))
        elif phase == 'import':
            if imp:
                o = rng.choice(sorted(imp))
                imp.discard(o)
                ever.add(o)
                hist.append(('Import', [o]))
            else:
                hist.append(('Synchronize', []))
                phase = 'run'
        elif r < 0.75:
            cand = [x for x in sorted(live) if x not in pend]
            if cand:
                o = rng.choice(cand)
                ever.add(o)
                hist.append(('OnCreate', [o]))
        else:
            cand = [x for x in owners if x in pend or x not in live]
            if cand:
                o = rng.choice(cand)
                pend.discard(o)
                hist.append(('OnDelete', [o]))
    return hist


# ---------------------------------------------------------------------------
def record(histories, prefix):
    traces = []
    for k, h in enumerate(histories):
        traces.append(dict(tid='%s:%d' % (prefix, k), lines=replay(h), history=[list(x) for x in h]))
    return traces


def validate(traces, timeout=900, cfg='OwnersTrace.cfg'):
    work = tlc.scratch('verif-batch-')
    try:
        path = os.path.join(work, 'batch.json')
        batch = header()
        batch['traces'] = [dict(tid=t['tid'], lines=t['lines']) for t in traces]
        with open(path, 'w') as f:
            json.dump(batch, f)
        return tlc.validate(SPEC_DIR, 'OwnersTrace', cfg, path, timeout=timeout)
    finally:
        shutil.rmtree(work, ignore_errors=True)
