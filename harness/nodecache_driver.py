"""C12 driver: the real EventMgr._synchronize/_cache/_cache_notify on a real
temporary directory and the shared ZooKeeper fake, recorded call by call.

A HISTORY is a list of events (JSON-able lists):

  ['PriorFile', a, v, p]     prior life of the cache: a complete manifest file
  ['PriorTmp', a]            ... a leftover dot file holding half a manifest
  ['Place', a, p, new]       /placement/<host>/<a> created with payload version p
                             (0 = no data); new = its ctime is later than any
                             cache file's ctime (else earlier): 10^7 s away
  ['Place', a, p, new, True] ... NEAR-BY: the node's ctime is put 0.03-0.5 s
                             after (new) / before (not new) the ctime of the
                             instance's existing cache file, inside the SAME
                             integer second (falls back to the far variant
                             when the instance has no cache file)
  ['Unplace', a]  ['SetPD', a, p]  ['SetMan', a, v]  ['DelMan', a]
  ['Boot']  ['Restart']  ['Crash']  ['Notify', ready]
  ['Sync', {'conc': {j: [event, ...]}, 'cut': [mode, k] or None, 'run': bool}]
        one call of _synchronize(zk, <children of /placement/<host>>, first);
        run   = (first sync after Boot/Restart only) the call is NOT made by
                the driver: the real EventMgr.run(once=True) is started on the
                fake client and makes it from its ChildrenWatch callback, with
                whatever check_existing its own wiring passes (only
                time.sleep, utils.sys_exit and the ZooKeeper connection are
                replaced; the presence node exists)
        conc  = ZooKeeper changes applied after the j-th recorded call of this
                sync (0 = right after the directory listing)
        cut   = ('crash', k)     the process dies (fork + os._exit in the child,
                                 no `finally` runs) on entering the k-th call
                ('crashmid', k)  ... in the middle of it (Write: half the data
                                 reaches the file, then death)
                ('ioerr', k)     the k-th call (first file-system call at or
                                 after k) raises OSError(EIO)

  ['PresenceAppears'] ['PresenceDisappears']   /server.presence/<host> created / deleted
  ['PlacementAppears'] ['PlacementDisappears'] /placement/<host> created / deleted recursively
  ['Live', [event, ...]]     (readiness extension) the real EventMgr.run() main loop, once=False,
        on the fake client.  time.sleep is the turnstile: every time the loop
        reaches it the driver applies the next events of the list -- ZooKeeper
        changes, after each of which the callbacks zkfake queued are delivered,
        i.e. the real _server_presence_watch / _app_watch run -- up to the next
        ['Heartbeat'], which lets sleep return (loop: _cache_notify,
        _check_placement, watchdog heartbeat, sleep).  When the list is used up
        the process is killed.  Lines: LiveStart, CacheNotify [is_ready] (every
        call), ZkExists [found], Sleep, Heartbeat, and the usual sync lines.

Instances are canonical names i1..i9 (real name proid.<a>#000000000<k>).  The
write path is observed from outside by wrapping tempfile.NamedTemporaryFile,
the returned file object's write/close, yaml.dump (so that the stream is
wrapped whatever opened it), os.fchmod/chmod, os.replace/rename and
os.unlink/remove; ZooKeeper reads through the fake's gate.  After every
recorded call one trace line is written with the projection:

  dir  name -> {dot, kind, parsed, f}   listing incl. dot files; f = parsed YAML
       mapping with every value rendered as a string, parsed = False / f = {}
       when the file is not a YAML mapping ("partial/unparseable")
  zk   {pl: a -> {data, new}, man: a -> mapping}   what the code could read
"""
import errno
import hashlib
import json
import logging
import math
import os
import re
import shutil
import tempfile
import time
import traceback
from unittest import mock

from . import core, tlc, zkfake

INSTS = ['i%d' % k for k in range(1, 13)]      # generators use the first 5; gen_vanish draws from all 12
MVERS = [1, 2, 3, 4, 5]      # 4, 5: the edges of the manifest DOMAIN (see manifest())
PVERS = [0, 1, 2, 3, 4]
ENV_EVS = ('Place', 'Unplace', 'SetPD', 'SetMan', 'DelMan')
RD_EVS = ('PresenceAppears', 'PresenceDisappears', 'PlacementAppears', 'PlacementDisappears')
FS_CALLS = ('Unlink', 'CreateTmp', 'Write', 'Chmod', 'Close', 'Rename')
FAR = 10 ** 7           # seconds: "earlier/later than any cache file"


def real_name(a):
    return 'proid.%s#%010d' % (a, int(a[1:]))


def task_of(a):
    return '%010d' % int(a[1:])


_REAL2CANON = {real_name(a): a for a in ['i%d' % k for k in range(1, 13)]}
_TMP = re.compile(r'^\.(proid\.i\d+#\d{10})-(.*)$')


def canon_name(raw):
    if raw in _REAL2CANON:
        return _REAL2CANON[raw]
    m = _TMP.match(raw)
    if m and m.group(1) in _REAL2CANON:
        return '.%s-%s' % (_REAL2CANON[m.group(1)], m.group(2))
    return raw


def manifest(a, v):
    """Schema-shaped manifests; version 2 is large (several write() calls of
    the C emitter, file system buffers flushed before close)."""
    man = {
        'name': 'proid.%s' % a, 'ver': v, 'memory': '%dM' % (100 * v), 'cpu': '10%',
        'disk': '100M', 'affinity': a, 'proid': 'proid',
        'services': [{'name': 'web', 'command': '/bin/sleep %d' % v,
                      'restart': {'limit': 3, 'interval': 60}}],
        'endpoints': [{'name': 'http', 'port': 8000 + v}],
        'tickets': [], 'shared_network': False,
    }
    if v == 2:
        man['environ'] = [{'name': 'VAR%02d' % j, 'value': ('%02d' % j) * 220} for j in range(48)]
    if v == 3:
        man['identity_group'] = 'proid.%s' % a
        man['schedule_once'] = True
    if v in (4, 5):
        # values a JSON producer (zkutils.put -> json.dumps) can write and that
        # must come back from the cache file with the same TYPE: exponent
        # floats, -0.0, ints beyond 64 bit, strings that look like YAML 1.1
        # booleans / nulls / numbers (as values and as keys), control
        # characters, nesting, empty containers
        man.update({
            'big': 1e+16, 'small': 1e-05, 'e5': 1E5, 'negzero': -0.0, 'huge': 2 ** 63,
            'neghuge': -2 ** 63 - 1, 'sci': 1.5e+300, 'tiny': 5e-324, 'tenth': 0.1,
            'yes': 'no', 'on': 'yes', 'null': 'null', '~': '~', '1e3': '1e3', '0x10': '0x10',
            '010': '010', 'true': 'True', 'off': 'off', 'y': 'n', '1_000': '1_000', '1:30': '1:30',
            '.inf': '.nan', '2001-01-01': '2001-01-01', '=': '<<', 'empty': '',
            'nested': {'a': [1, [2, {'b': []}], {}], 'c': {'d': {'e': None}},
                       'f': [True, False, None, 1e+16, '1e+16', -0.0, 2 ** 63]},
            'empty_list': [], 'empty_dict': {}, 'spaces': '  lead and trail  ', 'colon': 'a: b',
            'hash': 'a #b', 'multi': 'l1\nl2\n', 'quote': '"\'', 'dash': '- x', 'star': '*a', 'amp': '&a',
            'bang': '!!str', 'pct': '%TAG',
        })
        man['environ'] = [{'name': 'CTRL', 'value': 'bell\x07 tab\t esc\x1b del\x7f nbsp\xa0 ls\u2028 bom\ufeff'},
                          {'name': 'yes', 'value': 'on'}, {'name': 'E', 'value': '1e+16'}]
    if v == 5:
        # ... plus characters outside the BMP (json.dumps writes surrogate-pair
        # escapes), NUL, and a key of more than 1024 characters
        man['environ'] += [{'name': 'EMOJI', 'value': 'smile \U0001F600 and \U00010000'},
                           {'name': 'NUL', 'value': 'a\x00b'}]
        man['k' * 1100] = 'long key'
        man['\U0001F600'] = 'non-BMP key'
    return man


def payload(p):
    return {0: None,
            1: {'identity': None, 'identity_count': None, 'expires': 1500000000.5},
            2: {'identity': 0, 'identity_count': 3, 'expires': 1600000000.25},   # first identity of a group: falsy
            3: {'identity': 2, 'identity_count': 3, 'expires': 1700000000.0},
            4: {'identity': 3, 'identity_count': 4, 'expires': 1e+16}}[p]      # json: "1e+16"


def merged(a, v, p):
    man = dict(manifest(a, v))
    man['task'] = task_of(a)
    man.update(payload(p) or {})
    return man


def _sval(v):
    if v is None:
        s = '~'
    elif isinstance(v, bool):
        s = 'b:%s' % v
    elif isinstance(v, int):
        s = 'i:%d' % v
    elif isinstance(v, float):
        s = 'f:%r' % v
    elif isinstance(v, str):
        s = 's:' + v
    else:
        s = 'j:' + json.dumps(v, sort_keys=True, default=str)
    if len(s) > 80 or any(not 0x20 <= ord(c) <= 0x7e for c in s):
        # long or not plain ASCII: by hash (the tag in front keeps the comparison typed)
        s = 'h:%s:%d' % (hashlib.sha1(s.encode('utf-8', 'surrogatepass')).hexdigest()[:16], len(s))
    return s


def _skey(k):
    k = str(k)
    if len(k) > 80 or any(not 0x20 <= ord(c) <= 0x7e for c in k):
        k = 'k:%s:%d' % (hashlib.sha1(k.encode('utf-8', 'surrogatepass')).hexdigest()[:16], len(k))
    return k


def strmap(d):
    """A mapping with every value rendered as a (short) string: comparable in
    TLA+ without type errors, long values by hash."""
    return {_skey(k): _sval(v) for k, v in d.items()}


def batch_header():
    return dict(insts=INSTS, mvers=MVERS, pvers=PVERS,
                man={a: [strmap(manifest(a, v)) for v in MVERS] for a in INSTS},
                pd=[strmap(payload(p) or {}) for p in PVERS],
                task={a: _sval(task_of(a)) for a in INSTS})


_MODS = {}
_PARSE_MEMO = {}     # file bytes -> (parsed, mapping): complete files repeat across lines and traces
_DECODE_MEMO = {}    # node bytes -> mapping
_TEXT_MEMO = {}      # (a, v, p) -> YAML text of a prior cache file


def mods():
    if not _MODS:
        core.ensure_repo_on_path()
        logging.disable(logging.CRITICAL)
        import treadmill.eventmgr as em
        import treadmill.fs as tfs
        import treadmill.yamlwrapper as yw
        import treadmill.zkutils as zku
        if not os.path.abspath(em.__file__).startswith(os.path.abspath(core.REPO)):
            raise tlc.MachineryError('treadmill imported from %s, not %s' % (em.__file__, core.REPO))
        _MODS.update(em=em, fs=tfs, yaml=yw, zkutils=zku)
    return _MODS


class _Crashed(BaseException):
    pass


class _Exited(BaseException):
    """utils.sys_exit (os._exit in the real process) was called."""


class _Stop(BaseException):
    """The history of a live run() is used up: the process is killed in its sleep."""


class _FileProxy:
    """Stands in for the temporary file object: write and close are recorded."""

    def __init__(self, rp, real, closes=True):
        object.__setattr__(self, '_rp', rp)
        object.__setattr__(self, '_real', real)
        object.__setattr__(self, '_closes', closes)

    def write(self, data):
        return self._rp.call('Write', [], lambda: self._real.write(data),
                             mid=lambda: self._half(data))

    def _half(self, data):
        self._real.write(data[:max(1, len(data) // 2)])
        self._real.flush()

    def __enter__(self):
        self._real.__enter__()
        return self

    def __exit__(self, *exc):
        if not self._closes:
            return self._real.__exit__(*exc)
        return self._rp.call('Close', [], lambda: self._real.__exit__(*exc))

    def close(self):
        if not self._closes:
            return self._real.close()
        return self._rp.call('Close', [], self._real.close)

    def __getattr__(self, name):
        return getattr(self._real, name)

    def __setattr__(self, name, value):
        setattr(self._real, name, value)


class Replay:
    """One history on one fresh directory.  `lines` is the recorded trace."""

    def __init__(self, history, log_from=0):
        self.m = mods()
        self.history = history
        self.log_from = log_from
        self.logging = False
        self.lines = []
        self.sink = self.lines.append
        self.root = tlc.scratch('verif-c12-')
        self.pc = 'down'
        self.first = True
        self.rec = None          # state of the sync being recorded
        self.quiet = 0           # >0: wrappers pass through (harness's own calls)
        self.nprior = 0
        self.livemode = False
        self.live_q = []
        self._queued = []
        try:
            self.evmgr = self.m['em'].EventMgr(root=self.root)
            self._notify = self.m['em'].EventMgr._cache_notify     # the unwrapped function
            self.cache = self.evmgr.tm_env.cache_dir
            os.makedirs(self.cache, exist_ok=True)
            self.host = self.evmgr._hostname        # pylint: disable=protected-access
            self.store = zkfake.ZkStore(clock=time.time)
            self.env_zk = zkfake.ZkFakeClient(self.store)
            self.zk = zkfake.ZkFakeClient(self.store)
            self.ppath = '/placement/%s' % self.host
            self.prespath = '/server.presence/%s' % self.host
            self.env_zk.ensure_path(self.ppath)
            self.env_zk.ensure_path('/scheduled')
            self.env_zk.ensure_path('/server.presence/%s' % self.host)   # run(): presence is up
            self.store.gate = self._gate
        except BaseException:
            self.close()
            raise

    def close(self):
        shutil.rmtree(self.root, ignore_errors=True)

    def _text(self, a, v, p):
        key = (a, v, p)
        if key not in _TEXT_MEMO:
            _TEXT_MEMO[key] = self.m['yaml'].dump(merged(a, v, p))
        return _TEXT_MEMO[key]

    # -- projection --------------------------------------------------------
    def _parse(self, data):
        hit = _PARSE_MEMO.get(data)
        if hit is None:
            try:
                obj = self.m['yaml'].load(data)
            except Exception:       # pylint: disable=broad-except
                obj = None
            hit = (True, strmap(obj)) if isinstance(obj, dict) else (False, {})
            if len(_PARSE_MEMO) < 512:
                _PARSE_MEMO[data] = hit
        return hit

    def project_dir(self):
        out = {}
        for raw in sorted(os.listdir(self.cache)):
            path = os.path.join(self.cache, raw)
            kind = ('link' if os.path.islink(path) else 'dir' if os.path.isdir(path) else 'file')
            parsed, f = False, {}
            if kind == 'file':
                try:
                    with open(path, 'rb') as fh:
                        data = fh.read()
                except OSError:
                    data = None
                if data:
                    parsed, f = self._parse(data)
            out[canon_name(raw)] = dict(dot=raw.startswith('.'), kind=kind, parsed=parsed, f=f)
        return out

    def _decode(self, data):
        if not data:
            return {}
        hit = _DECODE_MEMO.get(data)
        if hit is None:
            obj = json.loads(data.decode())
            hit = strmap(obj) if isinstance(obj, dict) else {'_': _sval(obj)}
            if len(_DECODE_MEMO) < 256:
                _DECODE_MEMO[data] = hit
        return hit

    def project_zk(self):
        now = time.time()
        pl, man = {}, {}
        for raw in (self.store.children(self.ppath) if self.ppath in self.store.nodes else []):
            node = self.store.nodes['%s/%s' % (self.ppath, raw)]
            # new = "the cache file is older than the placement node", by the
            # ACTUAL comparison of the two time stamps (no file: against now)
            try:
                ref = os.stat(os.path.join(self.cache, raw)).st_ctime
            except OSError:
                ref = now
            pl[canon_name(raw)] = dict(data=self._decode(node.data), new=bool(node.ctime / 1000.0 > ref))
        for raw in self.store.children('/scheduled'):
            man[canon_name(raw)] = self._decode(self.store.nodes['/scheduled/' + raw].data)
        return dict(pl=pl, man=man, presence=self.prespath in self.store.nodes,
                    plnode=self.ppath in self.store.nodes)

    def emit(self, ev, args, **extra):
        if not self.logging:
            return
        wdir = self.evmgr.tm_env.watchdog_dir
        lease = os.path.isdir(wdir) and any(n.startswith('svc-EventMgr') for n in os.listdir(wdir))
        line = dict(ev=ev, args=args, post=dict(zk=self.project_zk(), dir=self.project_dir(), wd=bool(lease)))
        line.update(extra)
        self.sink(line)

    # -- environment -------------------------------------------------------
    def _apply_env(self, e):
        """ZooKeeper changes through the producers' own helpers (zkutils.put /
        ensure_deleted as scheduler/master.py uses them)."""
        zku = self.m['zkutils']
        ev, x = e[0], e[1:]
        self.quiet += 1
        # kazoo runs watch callbacks one after the other on its handler thread: a
        # change made while a callback (the sync) is running must not start a nested
        # one.  While the history applies an event no watch fires; in run() mode the
        # next Sync of the history stands for the queued delivery.
        watches = (self.store.child_watches, self.store.data_watches)
        self._queued = []
        if self.livemode:
            # live run(): the callbacks are queued and delivered after the event's line
            self.store._fire = self._queued.extend        # pylint: disable=protected-access
        else:
            self.store.child_watches, self.store.data_watches = {}, {}
        try:
            if ev == 'Place':
                path = '%s/%s' % (self.ppath, real_name(x[0]))
                if path in self.store.nodes or self.ppath not in self.store.nodes:
                    return False
                zku.put(self.env_zk, path, payload(x[1]))
                self.store.nodes[path].ctime = self._node_ctime(x[0], bool(x[2]), len(x) > 3 and bool(x[3]))
            elif ev == 'Unplace':
                path = '%s/%s' % (self.ppath, real_name(x[0]))
                if path not in self.store.nodes:
                    return False
                zku.ensure_deleted(self.env_zk, path)
            elif ev == 'SetPD':
                path = '%s/%s' % (self.ppath, real_name(x[0]))
                if path not in self.store.nodes:
                    return False
                zku.put(self.env_zk, path, payload(x[1]))
            elif ev == 'SetMan':
                zku.put(self.env_zk, '/scheduled/' + real_name(x[0]), manifest(x[0], x[1]))
            elif ev == 'DelMan':
                path = '/scheduled/' + real_name(x[0])
                if path not in self.store.nodes:
                    return False
                zku.ensure_deleted(self.env_zk, path)
            elif ev == 'Notify':
                if bool(x[0]) == os.path.exists(os.path.join(self.cache, self.m['em'].READY_FILE)):
                    return False                  # no change of state: not an event of the model
                self._notify(self.evmgr, bool(x[0]))
            elif ev == 'PresenceAppears':
                if self.prespath in self.store.nodes:
                    return False
                self.env_zk.create(self.prespath, b'{"valid_until": 0}', makepath=True)
            elif ev == 'PresenceDisappears':
                if self.prespath not in self.store.nodes:
                    return False
                self.env_zk.delete(self.prespath)
            elif ev == 'PlacementAppears':
                if self.ppath in self.store.nodes:
                    return False
                self.env_zk.ensure_path(self.ppath)
            elif ev == 'PlacementDisappears':
                if self.ppath not in self.store.nodes:
                    return False
                self.env_zk.delete(self.ppath, recursive=True)
            else:
                raise tlc.MachineryError('unknown environment event %r' % (e,))
            return True
        finally:
            if self.livemode:
                del self.store._fire                          # pylint: disable=protected-access
            else:
                self.store.child_watches, self.store.data_watches = watches
            self.quiet -= 1

    def _node_ctime(self, a, new, near):
        """ctime (ms) for a placement node created now.  Far: 10^7 s after /
        before everything.  Near: inside the same integer second as the ctime
        of the instance's cache file, later (new) or earlier than it."""
        fpath = os.path.join(self.cache, real_name(a))
        if near and os.path.isfile(fpath):
            for _ in range(3):
                f = os.stat(fpath).st_ctime
                frac = f - math.floor(f)
                if 0.05 <= frac <= 0.9:
                    break
                # too close to a second boundary: move the file's ctime (chmod to the same mode)
                while not 0.1 <= time.time() % 1.0 <= 0.6:
                    time.sleep(0.01)
                os.chmod(fpath, os.stat(fpath).st_mode & 0o7777)
            part = frac + (1.0 - frac) / 2 if new else frac / 2
            ms = int(math.floor(f)) * 1000 + int(part * 1000)
            if ms // 1000 == int(math.floor(f)) and (ms / 1000.0 > f) == new:
                return ms
        return int((time.time() + (FAR if new else -FAR)) * 1000)

    def env(self, e, **extra):
        if self._apply_env(e):
            self.emit(e[0], list(e[1:]), **extra)

    # -- one event of the history -------------------------------------------
    def apply(self, e):
        ev = e[0]
        if ev in ENV_EVS or ev in RD_EVS:
            self.env(e)
        elif ev == 'Live':
            self.live(e[1])
        elif ev == 'Notify':
            if self.pc in ('idle', 'synced'):
                self.env(e)
                self.pc = 'idle'
        elif ev == 'PriorFile':
            a, v, p = e[1:]
            path = os.path.join(self.cache, real_name(a))
            if self.pc == 'down' and not os.path.exists(path):
                with open(path, 'w') as fh:
                    fh.write(self._text(a, v, p))
                self.emit(ev, [a, v, p])
        elif ev == 'PriorEmpty':
            a = e[1]
            path = os.path.join(self.cache, real_name(a))
            if self.pc == 'down' and not os.path.exists(path):
                with open(path, 'w'):
                    pass
                self.blanks = getattr(self, 'blanks', []) + [a]
                self.emit(ev, [a])
        elif ev == 'PriorTmp':
            if self.pc == 'down':
                a = e[1]
                self.nprior += 1
                raw = '.%s-prior%d' % (real_name(a), self.nprior)
                text = self._text(a, 1, 1)
                with open(os.path.join(self.cache, raw), 'w') as fh:
                    fh.write(text[:len(text) * 3 // 5])
                self.emit(ev, [a, canon_name(raw)])
        elif ev == 'Boot':
            if self.pc == 'down':
                self.pc, self.first = 'idle', True
                self.emit(ev, [])
        elif ev == 'Restart':
            if self.pc in ('dead', 'failed'):
                self.pc, self.first = 'idle', True
                self.emit(ev, [])
        elif ev == 'Crash':
            if self.pc in ('idle', 'synced'):
                self.pc = 'dead'
                self.emit(ev, [])
        elif ev == 'Sync':
            self.sync(e[1] if len(e) > 1 else {})
        else:
            raise tlc.MachineryError('unknown event %r' % (e,))

    def run(self):
        try:
            for idx, e in enumerate(self.history):
                if idx == self.log_from:
                    self._start_log()
                self.apply(e)
            if not self.logging:
                self._start_log()
            return self.lines
        finally:
            self.close()

    def _start_log(self):
        self.logging = True
        self.emit('Init', [], ag=dict(pc='idle' if self.pc == 'synced' else self.pc, first=self.first),
                  blank0=list(getattr(self, 'blanks', [])))

    # -- the recorded sync ---------------------------------------------------
    def sync(self, opts):
        if self.pc in ('dead', 'failed'):
            self.apply(['Restart'])
        if self.pc == 'down':
            self.apply(['Boot'])
        if self.ppath not in self.store.nodes or self.prespath not in self.store.nodes:
            return []          # readiness histories only: no watch would deliver anything / keep run() mode simple
        conc = {int(k): [list(x) for x in v] for k, v in (opts.get('conc') or {}).items()}
        cut = opts.get('cut') or None
        via_run = bool(opts.get('run')) and self.first
        self.rec = dict(j=0, conc=conc, cut=cut, calls=[], active=False)
        try:
            if via_run:
                body = self._run_body
            else:
                self.quiet += 1
                expected = self.zk.get_children(self.ppath)      # what the ChildrenWatch delivers
                self.quiet -= 1
                ce = self.first
                self.emit('SyncBegin', [sorted(canon_name(r) for r in expected), ce])

                def body():
                    self._sync_body(lambda: self.evmgr._synchronize(          # pylint: disable=protected-access
                        self.zk, expected, check_existing=ce))
            self.first = False
            if cut and cut[0] in ('crash', 'crashmid'):
                self._sync_child(body)
            else:
                body()
            left = sorted(k for k in self.rec['conc'] if k >= self.rec['j'])
            pending = [e for k in left for e in self.rec['conc'][k]]
        finally:
            calls = self.rec['calls']
            self.rec = None
        for e in pending:                      # positions the sync never reached
            if self.pc != 'dead':
                self.apply(e)
        return calls

    def _patches(self):
        return [
            mock.patch.object(tempfile, 'NamedTemporaryFile', self._w_tmpfile(tempfile.NamedTemporaryFile)),
            mock.patch.object(os, 'fchmod', self._w_plain('Chmod', os.fchmod)),
            mock.patch.object(os, 'chmod', self._w_path('Chmod', os.chmod)),
            mock.patch.object(os, 'replace', self._w_rename(os.replace)),
            mock.patch.object(os, 'rename', self._w_rename(os.rename)),
            mock.patch.object(os, 'unlink', self._w_path('Unlink', os.unlink)),
            mock.patch.object(os, 'remove', self._w_path('Unlink', os.remove)),
            mock.patch.object(self.m['yaml'], 'dump', self._w_dump(self.m['yaml'].dump)),
        ]

    def _sync_body(self, do_sync, reraise=False):
        """The recorded part: one _synchronize call between SyncBegin and
        SyncEnd / SyncExc."""
        patches = self._patches()
        for p in patches:
            p.start()
        self.rec['active'] = True
        try:
            try:
                do_sync()
            finally:
                self.rec['active'] = False
                for p in reversed(patches):
                    p.stop()
        except (_Crashed, _Exited, tlc.MachineryError):
            raise
        except Exception as err:      # pylint: disable=broad-except
            self.pc = 'failed'
            self.emit('SyncExc', [type(err).__name__],
                      injected=bool(getattr(err, 'verif_injected', False)),
                      detail=str(err)[:200])
            if reraise:
                raise
            return
        self.pc = 'synced'
        self.emit('SyncEnd', [])

    def _run_body(self):
        """The first sync of a process life as the service really makes it:
        EventMgr.run(once=True) on the fake client.  zkfake fires DataWatch /
        ChildrenWatch synchronously on registration (as kazoo does), so the
        real _app_watch calls _synchronize with the check_existing value the
        real wiring computes.  Replaced: the ZooKeeper connection of the global
        context, time.sleep (the heartbeat pause) and utils.sys_exit (os._exit)."""
        em_mod = self.m['em']
        cls = em_mod.EventMgr
        real_sync = cls._synchronize            # pylint: disable=protected-access
        real_notify = self._notify
        ready = os.path.join(self.cache, em_mod.READY_FILE)
        rp = self

        def w_sync(this, zkclient, expected, check_existing=False):
            rp.emit('SyncBegin', [sorted(canon_name(r) for r in expected), bool(check_existing)])
            rp._sync_body(lambda: real_sync(this, zkclient, expected, check_existing=check_existing),
                          reraise=True)

        def w_notify(this, is_ready):
            before = os.path.exists(ready)
            rp.quiet += 1
            try:
                real_notify(this, is_ready)
            finally:
                rp.quiet -= 1
            after = os.path.exists(ready)
            if before != after:
                rp.emit('Notify', [after])

        def w_exit(code):
            raise _Exited(code)

        zkctx = em_mod.context.GLOBAL.zk
        saved = zkctx._conn                     # pylint: disable=protected-access
        patches = [mock.patch.object(cls, '_synchronize', w_sync),
                   mock.patch.object(cls, '_cache_notify', w_notify),
                   mock.patch.object(em_mod.utils, 'sys_exit', w_exit),
                   mock.patch.object(em_mod.time, 'sleep', lambda _s: None)]
        for p in patches:
            p.start()
        try:
            zkctx.conn = self.zk
            try:
                self.evmgr.run(once=True)
            except _Exited:
                if self.pc != 'failed':
                    raise tlc.MachineryError('EventMgr.run exited outside _synchronize')
        finally:
            zkctx.conn = saved
            for p in reversed(patches):
                p.stop()
            # the process under test is now represented by the driver again:
            # later syncs are made with what the ChildrenWatch would deliver
            self.store.child_watches.clear()
            self.store.data_watches.clear()

    def live(self, events):
        """Readiness extension: the real main loop of EventMgr.run() (see the
        module docstring).  Same replacements as _run_body; syncs are recorded
        as usual (no cuts, no changes inside a sync)."""
        if self.pc in ('dead', 'failed'):
            self.apply(['Restart'])
        if self.pc == 'down':
            self.apply(['Boot'])
        if not self.first:
            return
        em_mod = self.m['em']
        cls = em_mod.EventMgr
        real_sync = cls._synchronize            # pylint: disable=protected-access
        real_notify = self._notify
        rp = self

        def w_sync(this, zkclient, expected, check_existing=False):
            rp.first = False
            rp.emit('SyncBegin', [sorted(canon_name(r) for r in expected), bool(check_existing)])
            rp._sync_body(lambda: real_sync(this, zkclient, expected, check_existing=check_existing),
                          reraise=True)

        def w_notify(this, is_ready):
            rp.quiet += 1
            try:
                real_notify(this, is_ready)
            finally:
                rp.quiet -= 1
            rp.emit('CacheNotify', [bool(is_ready)])

        def w_exit(code):
            raise _Exited(code)

        def w_sleep(_secs):
            rp.emit('Sleep', [])
            while rp.live_q:
                e = rp.live_q.pop(0)
                if e[0] == 'Heartbeat':
                    rp.emit('Heartbeat', [])
                    return
                if rp._apply_env(e):
                    rp.emit(e[0], list(e[1:]))
                    for fn, event in rp._queued:          # kazoo's handler thread: one after the other
                        fn(event)
            raise _Stop()

        zkctx = em_mod.context.GLOBAL.zk
        saved = zkctx._conn                     # pylint: disable=protected-access
        patches = [mock.patch.object(cls, '_synchronize', w_sync),
                   mock.patch.object(cls, '_cache_notify', w_notify),
                   mock.patch.object(em_mod.utils, 'sys_exit', w_exit),
                   mock.patch.object(em_mod.time, 'sleep', w_sleep)]
        self.live_q = [list(e) for e in events]
        self.rec = dict(j=0, conc={}, cut=None, calls=[], active=False)
        self.emit('LiveStart', [])
        self.livemode = True
        for p in patches:
            p.start()
        try:
            zkctx.conn = self.zk
            try:
                self.evmgr.run(once=False)
            except _Stop:
                self.pc = 'dead'
            except _Exited:
                if self.pc != 'failed':
                    raise tlc.MachineryError('EventMgr.run exited outside _synchronize')
        finally:
            zkctx.conn = saved
            for p in reversed(patches):
                p.stop()
            self.livemode = False
            self.rec = None
            self.store.child_watches.clear()
            self.store.data_watches.clear()
        if self.pc == 'dead':
            self.emit('Crash', [])

    def _sync_child(self, body):
        """TRUE crash: the sync runs in a forked child that os._exit()s inside
        the k-th recorded call; its lines come back through a pipe."""
        rfd, wfd = os.pipe()
        pid = os.fork()
        if pid == 0:
            code = 0
            try:
                os.close(rfd)
                out = os.fdopen(wfd, 'w')

                def sink(line):
                    out.write(json.dumps(line) + '\n')
                    out.flush()
                self.sink = sink
                body()
                out.flush()
            except BaseException:         # pylint: disable=broad-except
                try:
                    out.write(json.dumps({'_machinery': traceback.format_exc()[-1500:]}) + '\n')
                    out.flush()
                except BaseException:     # pylint: disable=broad-except
                    pass
                code = 3
            os._exit(code)                # pylint: disable=protected-access
        os.close(wfd)
        with os.fdopen(rfd) as inp:
            text = inp.read()
        _, status = os.waitpid(pid, 0)
        got = [json.loads(x) for x in text.splitlines() if x.strip()]
        for line in got:
            if '_machinery' in line:
                raise tlc.MachineryError('harness failure in crash child:\n' + line['_machinery'])
        if not os.WIFEXITED(status) or os.WEXITSTATUS(status) not in (0, 77):
            raise tlc.MachineryError('crash child ended with status %r' % status)
        seen = set()
        for line in got:
            if line['ev'] in ENV_EVS or line['ev'] == 'Notify':
                self._apply_env([line['ev']] + line['args'])   # the parent's store follows
            elif line['ev'] not in ('SyncBegin', 'SyncEnd', 'SyncExc'):
                self.rec['j'] += 1
                self.rec['calls'].append(line['ev'])
            self.lines.append(line)
            seen.add(line['ev'])
        if 'SyncEnd' in seen:
            self.pc = 'synced'
        elif 'SyncExc' in seen:
            self.pc = 'failed'
        else:
            self.pc = 'dead'
            self.emit('Crash', [])

    # -- wrappers ------------------------------------------------------------
    def _in_cache(self, path):
        try:
            return os.path.dirname(os.path.abspath(os.fspath(path))) == self.cache
        except TypeError:
            return False

    def call(self, ev, args, fn, mid=None):
        """One recorded call: scheduled ZooKeeper changes first, then the cut
        (if this is the k-th call), then the real call, then one trace line."""
        rec = self.rec
        if rec is None or self.quiet or not rec['active']:
            return fn()
        rec['j'] += 1
        j = rec['j']
        self.quiet += 1
        try:
            for e in rec['conc'].pop(j - 1, []):
                if self._apply_env(e):
                    self.emit(e[0], list(e[1:]))
            rec['calls'].append(ev)
            cut = rec['cut']
            if cut and not rec.get('cut_done'):
                mode, k = cut[0], cut[1]
                if mode == 'crash' and j == k:
                    os._exit(77)                  # pylint: disable=protected-access
                if mode == 'crashmid' and j == k:
                    if mid is not None:
                        mid()
                    os._exit(77)                  # pylint: disable=protected-access
                if mode == 'ioerr' and j >= k and ev in FS_CALLS:
                    rec['cut_done'] = True
                    err = OSError(errno.EIO, 'injected I/O error (%s)' % ev)
                    err.verif_injected = True
                    self.emit(ev, args, exc='OSError')
                    raise err
        finally:
            self.quiet -= 1
        try:
            res = fn()
        except OSError as err:
            self.quiet += 1
            try:
                if ev == 'Unlink' and err.errno == errno.ENOENT:
                    self.emit(ev, args, enoent=True)      # rm_safe after a successful replace
                else:
                    self.emit(ev, args, exc=type(err).__name__)
            finally:
                self.quiet -= 1
            raise
        self.quiet += 1
        try:
            self.emit(ev, args)
        finally:
            self.quiet -= 1
        return res

    def _gate(self, session, op, path):
        if (self.livemode and not self.quiet and session == self.zk.session and op == 'exists'
                and path == self.ppath):
            self.emit('ZkExists', [path in self.store.nodes])       # _check_placement
            return
        if (self.rec is None or self.quiet or not self.rec['active']
                or session != self.zk.session or op != 'get'):
            return
        if path.startswith(self.ppath + '/'):
            kind, raw = 'placement', path[len(self.ppath) + 1:]
        elif path.startswith('/scheduled/'):
            kind, raw = 'manifest', path[len('/scheduled/'):]
        else:
            kind, raw = 'other', path
        self.call('ZkGet', [kind, canon_name(raw)], lambda: None)

    def _w_tmpfile(self, real):
        def wrapper(*a, **kw):
            if self.rec is None or self.quiet or not self._in_cache(os.path.join(kw.get('dir') or '/', 'x')):
                return real(*a, **kw)
            box = {}

            def create():
                box['f'] = real(*a, **kw)
                box['name'] = canon_name(os.path.basename(box['f'].name))
                return box['f']
            # the name is only known afterwards: record with a late-bound argument list
            args = []
            rp = self

            def fn():
                f = create()
                args.append(box['name'])
                return f
            f = rp.call('CreateTmp', args, fn)
            return _FileProxy(self, f)
        return wrapper

    def _w_plain(self, ev, real):
        def wrapper(*a, **kw):
            return self.call(ev, [], lambda: real(*a, **kw))
        return wrapper

    def _w_path(self, ev, real):
        def wrapper(path, *a, **kw):
            if self.rec is None or self.quiet or not self._in_cache(path):
                return real(path, *a, **kw)
            args = [canon_name(os.path.basename(os.fspath(path)))] if ev == 'Unlink' else []
            return self.call(ev, args, lambda: real(path, *a, **kw))
        return wrapper

    def _w_rename(self, real):
        def wrapper(src, dst, *a, **kw):
            if self.rec is None or self.quiet or not (self._in_cache(src) or self._in_cache(dst)):
                return real(src, dst, *a, **kw)
            args = [canon_name(os.path.basename(os.fspath(src))), canon_name(os.path.basename(os.fspath(dst)))]
            return self.call('Rename', args, lambda: real(src, dst, *a, **kw))
        return wrapper

    def _w_dump(self, real):
        def wrapper(data, stream=None, **kw):
            if self.rec is None or self.quiet or stream is None or isinstance(stream, _FileProxy):
                return real(data, stream=stream, **kw)
            return real(data, stream=_FileProxy(self, stream, closes=False), **kw)
        return wrapper


# ---------------------------------------------------------------------------
def replay(history, log_from=0):
    return Replay(history, log_from).run()


def sync_calls(lines):
    """[(index of the Sync in order of appearance, [recorded call names])] of a
    trace: what the cut enumeration ranges over."""
    out, cur = [], None
    for line in lines:
        if line['ev'] == 'SyncBegin':
            cur = []
            out.append(cur)
        elif line['ev'] in ('SyncEnd', 'SyncExc', 'Crash'):
            cur = None
        elif cur is not None and line['ev'] not in ENV_EVS and line['ev'] != 'Notify':
            cur.append(line['ev'])
    return out


def cut_variants(history, lines, pick=None):
    """Histories that repeat `history` up to its s-th Sync, cut that Sync at
    call k, and then recover (Restart + one undisturbed Sync).  `pick(s, k, n,
    ev, mode)` selects (None = every k, every applicable mode)."""
    sync_idx = [k for k, e in enumerate(history) if e[0] == 'Sync']
    out = []
    for s, calls in enumerate(sync_calls(lines)):
        if s >= len(sync_idx):
            break
        opts = history[sync_idx[s]][1] if len(history[sync_idx[s]]) > 1 else {}
        if opts.get('cut'):
            continue
        n = len(calls)
        for k, ev in enumerate(calls, 1):
            modes = ['crash']
            if ev == 'Write':
                modes.append('crashmid')
            if ev in FS_CALLS:
                modes.append('ioerr')
            for mode in modes:
                if pick is not None and not pick(s, k, n, ev, mode):
                    continue
                h = [list(e) for e in history[:sync_idx[s]]]
                h.append(['Sync', dict(conc=opts.get('conc') or {}, cut=[mode, k], run=bool(opts.get('run')))])
                h += [['Restart'], ['Sync', dict(run=bool(opts.get('run')))]]
                out.append((sync_idx[s], h))
    return out


# ---------------------------------------------------------------------------
# history sources
STEP_LABELS = ('UnlinkExtra', 'ReadPlacement', 'ReadManifest', 'CreateTmp', 'Write', 'Chmod',
               'Close', 'Rename', 'UnlinkTmp', 'CloseErr')


def from_labels(labels):
    """A TLC behaviour of NodeCache.tla (action labels) -> a history.  Only the
    ENVIRONMENT's choices are taken: what the agent does inside a Sync is the
    implementation's own business, observed and judged by the trace spec."""
    hist, cur, steps, live = [], None, 0, None
    for ev, args in labels:
        args = [sorted(a) if isinstance(a, (set, frozenset)) else a for a in args]
        if ev == 'LiveStart':
            live = []
            hist.append(['Live', live])
        elif live is not None:
            # inside the live loop only the environment's choices are taken
            if ev in ENV_EVS or ev in RD_EVS or ev == 'Heartbeat':
                live.append([ev] + list(args))
            elif ev in ('Crash', 'Raise', 'Restart'):
                live = None
        elif ev in RD_EVS:
            hist.append([ev])
        elif ev in ('CacheNotify', 'ZkExists', 'Sleep', 'Heartbeat'):
            pass
        elif ev in ENV_EVS or ev == 'Notify':
            if cur is not None:
                cur['conc'].setdefault(steps, []).append([ev] + list(args))
            else:
                hist.append([ev] + list(args))
        elif ev in ('PriorFile', 'PriorTmp', 'PriorEmpty', 'Boot', 'Restart'):
            hist.append([ev] + list(args))
        elif ev == 'SyncBegin':
            cur, steps = dict(conc={}, cut=None), 0
            hist.append(['Sync', cur])
        elif ev in STEP_LABELS:
            steps += 1
        elif ev == 'IOError':
            if cur is not None and not cur['cut']:
                cur['cut'] = ['ioerr', steps + 1]
        elif ev == 'Crash':
            if cur is not None:
                if not cur['cut']:
                    cur['cut'] = ['crash', steps + 1]
                cur = None
            else:
                hist.append(['Crash'])
        elif ev in ('SyncEnd', 'Raise'):
            cur = None
        else:
            raise tlc.MachineryError('unknown label %s' % ev)
    # once its event budgets are used up a simulated behaviour only repeats Sync:
    # keep at most two plain syncs in a row (the second one checks idempotence)
    out = []
    for e in hist:
        plain = e[0] == 'Sync' and not e[1]['conc'] and not e[1]['cut']
        if e[0] == 'Live' and not e[1]:
            e[1].append(['Heartbeat'])
        if plain and len(out) >= 2 and all(x[0] == 'Sync' and not x[1]['conc'] and not x[1]['cut']
                                           for x in out[-2:]):
            continue
        out.append(e)
    return out


def gen_random(rng, insts=5):
    """Seeded random history beyond the model-checked constants (5 instances,
    3 manifest versions, 4 payload versions, several syncs)."""
    names = INSTS[:insts]
    placed, man, files = set(), set(), set()
    hist = []

    def env_event():
        a = rng.choice(names)
        r = rng.random()
        if r < 0.30:
            if a in placed:
                placed.discard(a)
                return ['Unplace', a]
            placed.add(a)
            return ['Place', a, rng.choice(PVERS), rng.random() < 0.5, rng.random() < 0.5]
        if r < 0.50 and a in placed:
            return ['SetPD', a, rng.choice(PVERS)]
        if r < 0.85:
            man.add(a)
            return ['SetMan', a, rng.choice(MVERS)]
        if a in man:
            man.discard(a)
            return ['DelMan', a]
        man.add(a)
        return ['SetMan', a, rng.choice(MVERS)]

    for a in names:
        if rng.random() < 0.5:
            files.add(a)
            hist.append(['PriorFile', a, rng.choice(MVERS), rng.choice(PVERS)])
        if rng.random() < 0.15:
            hist.append(['PriorTmp', a])
    for _ in range(rng.randrange(2, 3 * insts)):
        hist.append(env_event())
    hist.append(['Boot'])
    start = True
    for _ in range(rng.randrange(1, 4)):
        conc = {}
        if rng.random() < 0.35:
            for _ in range(rng.randrange(1, 3)):
                conc.setdefault(rng.randrange(0, 12), []).append(env_event())
        hist.append(['Sync', dict(conc=conc, cut=None, run=start and rng.random() < 0.5)])
        start = False
        r = rng.random()
        if r < 0.15:
            hist.append(['Crash'])
            hist.append(['Restart'])
            start = True
        elif r < 0.3:
            hist.append(['Notify', rng.random() < 0.7])
        for _ in range(rng.randrange(0, 4)):
            hist.append(env_event())
    hist.append(['Sync', dict(run=start and rng.random() < 0.5)])
    return hist


def vary(hist, rng):
    """Choices the model leaves to the environment / the wiring, added to a
    TLC-generated history: half of the placement nodes get a NEAR-BY ctime, half
    of the first syncs of a process life go through the real EventMgr.run()."""
    start = False

    def wild(x):
        if x[0] in ('SetMan', 'PriorFile') and rng.random() < 0.25:
            x[2] = rng.choice([4, 5])           # the edges of the manifest domain
        if x[0] in ('Place', 'SetPD') and x[2] and rng.random() < 0.2:
            x[2] = 4
        if x[0] == 'PriorFile' and x[3] and rng.random() < 0.2:
            x[3] = 4

    for e in hist:
        wild(e)
        if e[0] == 'Place' and len(e) == 4 and rng.random() < 0.5:
            e.append(True)
        elif e[0] in ('Boot', 'Restart'):
            start = True
        elif e[0] == 'Sync':
            if start and rng.random() < 0.5:
                e[1]['run'] = True
            start = bool(e[1].get('cut'))      # a cut sync is followed by a restart
            for evs in (e[1].get('conc') or {}).values():
                for x in evs:
                    wild(x)
                    if x[0] == 'Place' and len(x) == 4 and rng.random() < 0.5:
                        x.append(True)
    return hist


def gen_vanish(rng, position=None):
    """A sync that has 3-5 instances to fetch, one or two of which VANISH
    between the children listing and the read of their placement node (Unplace
    applied right after the listing, before the first recorded call).  Names
    are drawn from a pool of 12, so that under the fixed hash seed the vanished
    instance is visited first, in the middle or last by the code's iteration
    over its `missing` set; `position` (0 first, 1 middle, 2 last) picks the
    vanished one by building the same kind of set the code builds (the real
    position is read off the recorded trace afterwards, see c12.judge)."""
    names = rng.sample(INSTS, rng.randrange(3, 6))
    order = list(set(real_name(a) for a in names) - set())
    canon = [_REAL2CANON[r] for r in order]
    if position is None:
        position = rng.randrange(3)
    first = canon[{0: 0, 1: len(canon) // 2, 2: len(canon) - 1}[position]]
    gone = [first]
    if len(canon) >= 4 and rng.random() < 0.4:
        gone.append(rng.choice([a for a in canon if a != first]))
    hist = []
    for a in names:
        hist.append(['SetMan', a, rng.choice([1, 1, 3, 4])])
        hist.append(['Place', a, rng.choice(PVERS), False])
    extra = [a for a in INSTS if a not in names]
    if rng.random() < 0.5:
        hist.append(['PriorFile', rng.choice(extra), 1, 1])       # an extra entry to unlink as well
    rng.shuffle(hist)
    hist.append(['Boot'])
    hist.append(['Sync', dict(conc={0: [['Unplace', a] for a in gone]}, cut=None,
                              run=rng.random() < 0.5)])
    hist.append(['Sync', {}])
    return hist


def gen_blank(rng):
    """The cache directory's prior life left ZERO-LENGTH files named after instances (a full disk, an
    interrupted write of an older version): one for an instance that is not placed on this node (any
    more) - the first synchronisation must unlink it like any other extra entry - next to ordinary
    prior files, placed instances and leftovers."""
    names = rng.sample(INSTS[:8], rng.randrange(1, 4))
    hist = []
    for a in names:
        hist.append(['SetMan', a, rng.choice([1, 1, 3, 4])])
        hist.append(['Place', a, rng.choice(PVERS), False])
        if rng.random() < 0.5:
            hist.append(['PriorFile', a, 1, 1])
    extra = [a for a in INSTS[:8] if a not in names]
    blanks = rng.sample(extra, rng.randrange(1, 3))
    for a in blanks:
        if rng.random() < 0.5:
            hist.append(['SetMan', a, 1])            # still scheduled, placed elsewhere
        hist.append(['PriorEmpty', a])
    if rng.random() < 0.4:
        hist.append(['PriorFile', rng.choice([a for a in extra if a not in blanks]), 1, 1])
    if rng.random() < 0.3:
        hist.append(['PriorTmp', rng.choice(names)])
    rng.shuffle(hist)
    hist.append(['Boot'])
    hist.append(['Sync', dict(run=rng.random() < 0.5)])
    hist.append(['Sync', {}])
    return hist


def gen_live(rng, insts=3):
    """Seeded random history for the readiness extension: prior cache, ZooKeeper
    state (presence / placement node possibly absent), then the live run() loop
    with heartbeats, placement changes, presence flips and the placement node
    disappearing / reappearing."""
    names = INSTS[:insts]
    hist = []
    for a in names:
        if rng.random() < 0.4:
            hist.append(['PriorFile', a, rng.choice(MVERS), rng.choice(PVERS)])
        if rng.random() < 0.6:
            hist.append(['SetMan', a, rng.choice(MVERS)])
        if rng.random() < 0.5:
            hist.append(['Place', a, rng.choice(PVERS), rng.random() < 0.5])
    if rng.random() < 0.25:
        hist.append(['PresenceDisappears'])
    if rng.random() < 0.25:
        hist.append(['PlacementDisappears'])
    if rng.random() < 0.3:
        hist.append(['Notify', True])            # `.ready` left by an earlier life
    hist.append(['Boot'])
    for _ in range(rng.randrange(1, 3)):
        evs = []
        for _ in range(rng.randrange(4, 13)):
            r = rng.random()
            a = rng.choice(names)
            if r < 0.30:
                evs.append(['Heartbeat'])
            elif r < 0.45:
                evs.append(['Place', a, rng.choice(PVERS), rng.random() < 0.5])
            elif r < 0.55:
                evs.append(['Unplace', a])
            elif r < 0.65:
                evs.append(['SetMan', a, rng.choice(MVERS)])
            elif r < 0.80:
                evs.append([rng.choice(['PresenceAppears', 'PresenceDisappears'])])
            else:
                evs.append([rng.choice(['PlacementAppears', 'PlacementDisappears'])])
        evs.append(['Heartbeat'])
        hist.append(['Live', evs])
    return hist
