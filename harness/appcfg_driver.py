"""C13 driver: replays a history on the REAL treadmill.appcfgmgr.AppCfgMgr
handlers, monitor.MonitorContainerCleanup and cleanup.Cleanup over a real
temporary directory, and projects the abstract state of specs/node/AppCfg.tla
from the file system after every event.

What is real
  * AppCfgMgr._on_created/_on_deleted/_on_modified/_first_sync/_synchronize/
    _configure/_terminate, with real symlinks, renames and globbing;
  * the directory events: a real treadmill.dirwatch.DirWatcher (inotify) on
    cache/ wired to the handlers exactly as AppCfgMgr.run() wires it.  The
    pending queue of the model is the watcher's own event_list; "deliver one
    event" is DirWatcher.process_events(max_events=1).  Events therefore exist
    only for things that happened, in the order they happened;
  * cache files are written the way eventmgr._cache writes them
    (fs.write_safe with a dot-prefixed temporary + os.replace), .ready the way
    eventmgr._cache_notify does;
  * appcfg.configure.configure(): the REAL function - appcfg.manifest.load on a
    schema-valid manifest, gen_uniqueid / app_unique_name on the real cache file
    (inode, ctime, instance id), supervisor.create_service (real s6 service
    directory with data/), the copy of the event file as data/manifest.yml,
    app.json, the "configured" trace event - so that whatever it does to the
    event file or to apps/<unique>/ is part of the recorded state;
  * appcfg.app_name for the way back from container names;
  * monitor.MonitorContainerCleanup.execute, appcfg.abort.flag_aborted;
  * the cleanup service: cleanup.Cleanup._sync/_add_cleanup_app/
    _remove_cleanup_app/invoke with a second real DirWatcher on cleanup/ wired
    as Cleanup.run() wires it (supervisor.create_service of the cleaning app is
    real; ensure_not_supervised is stubbed).
What is stubbed (cannot run here / out of the property's scope)
  * inside configure(): the runtime plugin class (runtime specific manifest
    processing needs TREADMILL_ID, node.json and installed entry points) and
    subproc.resolve (paths of executables written into run scripts);
  * supervisor.control_svscan (s6), the runtime's finish() (removes the
    container directory, as runtime_base.finish ends), abort reporting.

History = list of [op, args]:
  CacheCreate [a] (onto an existing entry: replace in place, logged as
  CacheReplace)     CacheDelete [a]   ReadyOn []   ReadyOff []
  ContainerFinishes [a, g, marker]    MonitorCleanup [a, g]
  CleanupCompletes [k, i, g]          ManagerRestart []     NodeStart []
  Deliver []   CleanupStart []   CleanupEvent []   (cleanup service, extension)
  Crash [k]    the manager is killed before the k-th os.symlink/replace/rename/
               link call inside the handler of the next event, and restarted
An op that is not possible in the real state (file not there, queue empty,
container not supervised ...) is dropped; the effective history is returned.
Trace lines carry the model's event names (Deliver -> OnCreated/OnDeleted/
OnModified [name]) and `post`, the projected state.
"""
import io
import logging
import os
import shutil
from unittest import mock

from . import core, tlc

core.ensure_repo_on_path()
from treadmill import appcfg  # noqa: E402
from treadmill import appcfgmgr  # noqa: E402
from treadmill import cleanup as tm_cleanup  # noqa: E402
from treadmill import context  # noqa: E402
from treadmill import dirwatch  # noqa: E402
from treadmill import fs  # noqa: E402
from treadmill import monitor  # noqa: E402
from treadmill import utils  # noqa: E402
from treadmill.appcfg import abort as app_abort  # noqa: E402

def _set_context():
    """manifest.load() stamps the cell and the ZooKeeper url into the manifest.
    treadmill.context.GLOBAL is thread-local: set it where the handlers run,
    not at import time (the module may be imported by another thread)."""
    context.GLOBAL.cell = 'verifcell'
    context.GLOBAL.zk.url = 'zookeeper://verif@localhost:2181'

logging.getLogger('treadmill').addHandler(logging.NullHandler())
logging.getLogger('treadmill').propagate = False

READY = '.ready'
MARKERS = ('exitinfo', 'aborted', 'oom', 'terminated')
FIN_MARKERS = ('exitinfo', 'aborted', 'oom')
_KIND = {dirwatch.DirWatcherEvent.CREATED: 'C', dirwatch.DirWatcherEvent.DELETED: 'D',
         dirwatch.DirWatcherEvent.MODIFIED: 'M'}
_EVNAME = {'C': 'OnCreated', 'D': 'OnDeleted', 'M': 'OnModified'}


def real_name(a):
    """model instance a<k> -> a schema-valid instance name.  Application names
    may contain dots, dashes and underscores (container unique names are
    `<proid>.<app>-<instance no>-<unique id>`, split from the right): every
    second instance gets such a name."""
    k = int(a[1:])
    app = ('web-svc_%s.eu' % a) if k % 2 == 0 else a
    if k % 3 == 0:
        app = '%s-2' % a          # shard style: the name itself ends in a numeric dash segment
    return 'proid.%s#%010d' % (app, k)


def model_name(real):
    app = real.split('#')[0].split('.', 1)[1]
    if app.startswith('web-svc_') and app.endswith('.eu'):
        app = app[len('web-svc_'):-len('.eu')]
    elif app.endswith('-2'):
        app = app[:-2]
    return app


MANIFEST = """proid: proid
environment: dev
cpu: 10%
memory: 100M
disk: 100M
services:
- name: web
  command: /bin/sleep 5
  restart: {limit: 0, interval: 60}
endpoints: []
"""


class Killed(BaseException):
    """The manager process is killed (SIGKILL, OOM, power): raised out of the
    k-th os-level link/rename call of a handler.  A BaseException, so that no
    `except Exception` of the code under test sees it - as with a real kill,
    nothing after the call runs (`finally` blocks aside)."""


class _KillAt:
    """Counts os.symlink / os.replace / os.rename / os.link calls and kills
    before the k-th one is executed."""
    NAMES = ('symlink', 'replace', 'rename', 'link')

    def __init__(self, k):
        self.k = k
        self.n = 0
        self._patches = []

    def _wrap(self, real):
        def call(*a, **kw):
            self.n += 1
            if self.n == self.k:
                raise Killed()
            return real(*a, **kw)
        return call

    def __enter__(self):
        for name in self.NAMES:
            p = mock.patch.object(os, name, self._wrap(getattr(os, name)))
            p.start()
            self._patches.append(p)
        return self

    def __exit__(self, *exc):
        for p in reversed(self._patches):
            p.stop()
        return False


class _ActAt:
    """Counts the file-system PROBES of a handler (os.readlink / lstat / stat / listdir / scandir, which
    is what islink, exists, isdir and glob come down to) and runs `action` right before the k-th one: a
    second actor (the node monitor) acting between two steps of the manager."""
    NAMES = ('readlink', 'lstat', 'stat', 'listdir', 'scandir')

    def __init__(self, k, action):
        self.k, self.n, self.action, self.fired, self.busy = k, 0, action, False, False
        self._patches = []

    def _wrap(self, real):
        def call(*a, **kw):
            if not self.busy:
                self.n += 1
                if self.n == self.k and not self.fired:
                    self.busy = True
                    try:
                        self.fired = bool(self.action())
                    finally:
                        self.busy = False
            return real(*a, **kw)
        return call

    def __enter__(self):
        for name in self.NAMES:
            p = mock.patch.object(os, name, self._wrap(getattr(os, name)))
            p.start()
            self._patches.append(p)
        return self

    def __exit__(self, *exc):
        for p in reversed(self._patches):
            p.stop()
        return False


class _StubRuntimeCls:
    """Stands in for the runtime plugin class in configure.load_runtime_manifest:
    the runtime specific manifest processing (system services, keytabs, ... -
    needs TREADMILL_ID, node.json, installed plugins) is the only part of
    appcfg.configure.configure() that does not run here."""
    name = 'linux'

    @staticmethod
    def manifest(_tm_env, manifest):
        for svc in manifest['services']:
            svc.setdefault('environ', [])


class _StubRuntime:
    def __init__(self, container_dir):
        self._dir = container_dir

    def finish(self):
        shutil.rmtree(self._dir)          # runtime_base.RuntimeBase.finish ends so


class Node:
    """One treadmill root on a scratch directory + the real objects."""

    def __init__(self):
        _set_context()
        self.root = tlc.scratch('verif-c13-')
        self._patches = [
            # appcfg.configure.configure() is the REAL one (manifest.load, unique
            # name, supervisor.create_service, copy of the event as manifest.yml,
            # app.json, trace event); only the runtime plugin lookup and the
            # lookup of executables are replaced
            mock.patch('treadmill.runtime.get_runtime_cls', lambda _name: _StubRuntimeCls),
            mock.patch('treadmill.subproc.resolve', lambda exe: '/opt/fake/' + exe),
            mock.patch('treadmill.supervisor.control_svscan', mock.Mock()),
            mock.patch('treadmill.appcfg.abort.report_aborted', mock.Mock()),
            # Cleanup._remove_cleanup_app waits for s6 to let go of the cleaning app
            mock.patch('treadmill.supervisor.ensure_not_supervised', mock.Mock()),
            mock.patch('treadmill.runtime.get_runtime',
                       lambda _rt, _env, container_dir, _param=None: _StubRuntime(container_dir)),
        ]
        for p in self._patches:
            p.start()
        self.uniq = {}        # real container name -> (a, g)
        self.gens = {}        # a -> generations handed out
        self.cur = {}         # a -> generation of the entry now in cache/
        self.tomb = []        # [(a, g)] exit tombstones not yet handled
        self.keep_fds = []    # keeps every cache inode alive: no inode reuse,
        #                       hence distinct unique ids whatever the ctime granularity
        self.mgr = None
        self.watch = None
        self.exc = None       # exception raised by the code under test in the last op
        self.csvc = None      # the cleanup service (treadmill.cleanup.Cleanup) once started
        self.cwatch = None    # ... and its watch on cleanup/
        try:
            self._start_manager()
            env = self.mgr.tm_env
            for d in (env.cache_dir, env.apps_dir, env.running_dir, env.cleanup_dir,
                      env.app_events_dir, env.cleaning_dir, env.cleanup_apps_dir):
                os.makedirs(d)
            self._watch()
        except Exception:
            self.close()
            raise

    # -- life cycle -----------------------------------------------------------
    def _start_manager(self):
        self.mgr = appcfgmgr.AppCfgMgr(root=self.root, runtime='linux')

    def _watch(self):
        if self.watch is not None:
            self.watch.inotify.close()
        # as AppCfgMgr.run()
        self.watch = dirwatch.DirWatcher(self.mgr.tm_env.cache_dir)
        self.watch.on_created = self.mgr._on_created
        self.watch.on_modified = self.mgr._on_modified
        self.watch.on_deleted = self.mgr._on_deleted

    def close(self):
        for fd in self.keep_fds:
            try:
                os.close(fd)
            except OSError:
                pass
        self.keep_fds = []
        if self.watch is not None:
            try:
                self.watch.inotify.close()
            except OSError:
                pass
            self.watch = None
        self._stop_cleanup()
        for p in reversed(self._patches):
            p.stop()
        self._patches = []
        shutil.rmtree(self.root, ignore_errors=True)

    # -- the event queue ------------------------------------------------------
    def _drain(self):
        """Move what inotify has into the watchers' own queues."""
        for w in (self.watch, self.cwatch):
            while w is not None and w._wait_for_events(0):
                w.event_list.extend(w._read_events())

    def _stop_cleanup(self):
        if self.cwatch is not None:
            try:
                self.cwatch.inotify.close()
            except OSError:
                pass
        self.cwatch = None
        self.csvc = None

    def cpending(self):
        out = []
        if self.cwatch is not None:
            for ev, path in self.cwatch.event_list:
                base = os.path.basename(path)
                if ev in _KIND and not base.startswith('.'):
                    out.append(dict(k=_KIND[ev], n=self._link_name(base)))
        return out

    @staticmethod
    def _relevant(path):
        base = os.path.basename(path)
        return base == READY or not base.startswith('.')

    def pending(self):
        out = []
        for ev, path in self.watch.event_list:
            if ev in _KIND and self._relevant(path):
                base = os.path.basename(path)
                out.append(dict(k=_KIND[ev], n=READY if base == READY else model_name(base)))
        return out

    # -- projection -----------------------------------------------------------
    def _cont(self, name):
        if name in self.uniq:
            a, g = self.uniq[name]
            return dict(i=a, g=g)
        try:
            # the harness's own reading of <proid.app>-<instance no>-<unique id> (split from the right),
            # not the helper of the code under test
            app, inst, _uid = name.rsplit('-', 2)
            return dict(i=model_name('%s#%s' % (app, inst)), g=0)
        except (IndexError, ValueError):
            return dict(i=name, g=0)

    def _link_name(self, name):
        if name in self.uniq:
            a, g = self.uniq[name]
            return dict(k='c', i=a, g=g)
        try:
            a = model_name(name)
            if real_name(a) == name:
                return dict(k='i', i=a, g=0)
        except (IndexError, ValueError):
            pass
        return dict(k='?', i=name, g=0)

    def project(self):
        env = self.mgr.tm_env
        # two views of "which generation is cached", logged separately so that TLC
        # checks that they agree (drift.ident): `cache` by history (the generation
        # the environment wrote last), `cacheid` by what the code will compute
        # from the file NOW (eventfile_unique_name: inode + ctime)
        cache, cacheid = [], []
        for f in sorted(os.listdir(env.cache_dir)):
            if f.startswith('.'):
                continue
            a = model_name(f)
            u = appcfg.eventfile_unique_name(os.path.join(env.cache_dir, f))
            cache.append(dict(a=a, g=self.cur.get(a, 0)))
            cacheid.append(dict(a=a, g=self.uniq.get(u, (None, 0))[1]))
        apps = []
        for d in sorted(os.listdir(env.apps_dir)):
            data = os.path.join(env.apps_dir, d, 'data')
            apps.append(dict(c=self._cont(d),
                             m=[m for m in MARKERS if os.path.exists(os.path.join(data, m))]))
        running, cleanup = [], []
        # names starting with '.' are links for nobody: glob('*') in appcfgmgr and
        # cleanup, s6-svscan and Cleanup._add/_remove_cleanup_app all skip them
        # (staged temporaries of fs.symlink_safe left behind by a kill)
        for f in sorted(os.listdir(env.running_dir)):
            if f.startswith('.'):
                continue
            p = os.path.join(env.running_dir, f)
            if not os.path.islink(p):
                raise tlc.MachineryError('running/%s is not a link' % f)
            running.append(dict(n=model_name(f), t=self._cont(os.path.basename(os.readlink(p)))))
        for f in sorted(os.listdir(env.cleanup_dir)):
            p = os.path.join(env.cleanup_dir, f)
            if f.startswith('.'):
                continue
            if not os.path.islink(p):
                raise tlc.MachineryError('cleanup/%s is not a link' % f)
            cleanup.append(dict(n=self._link_name(f), t=self._cont(os.path.basename(os.readlink(p)))))
        return dict(cache=cache, cacheid=cacheid, ready=os.path.exists(os.path.join(env.cache_dir, READY)),
                    active=bool(self.mgr._is_active), pending=self.pending(), apps=apps,
                    running=running, cleanup=cleanup,
                    tomb=[dict(i=a, g=g) for a, g in self.tomb],
                    # extension: the cleanup service's side
                    svc=self.cwatch is not None, cpending=self.cpending(),
                    cleaning=[self._link_name(f) for f in sorted(os.listdir(env.cleaning_dir))
                              if os.path.islink(os.path.join(env.cleaning_dir, f))],
                    capps=[self._link_name(f) for f in sorted(os.listdir(env.cleanup_apps_dir))])

    # -- helpers on the real state -------------------------------------------
    def _container_dir(self, a, g):
        for name, (x, y) in self.uniq.items():
            if (x, y) == (a, g):
                return os.path.join(self.mgr.tm_env.apps_dir, name)
        return None

    def _running_target(self, a):
        p = os.path.join(self.mgr.tm_env.running_dir, real_name(a))
        try:
            return os.readlink(p)
        except OSError:
            return None

    # -- operations: return (event, args) or None when not applicable ---------
    def op_CacheCreate(self, a):
        env = self.mgr.tm_env
        path = os.path.join(env.cache_dir, real_name(a))
        replaced = os.path.exists(path)   # rename over the old file: no DELETED event
        # eventmgr.EventMgr._cache
        fs.write_safe(path, lambda f: f.write(MANIFEST), prefix='.%s-' % real_name(a),
                      mode='w', permission=0o644)
        self.keep_fds.append(os.open(path, os.O_RDONLY))
        u = appcfg.eventfile_unique_name(path)
        if u in self.uniq:
            raise tlc.MachineryError('unique name %s handed out twice' % u)
        g = self.gens.get(a, 0) + 1
        self.gens[a] = g
        self.cur[a] = g
        self.uniq[u] = (a, g)
        return ('CacheReplace' if replaced else 'CacheCreate'), [a, g]

    def op_CacheDelete(self, a):
        path = os.path.join(self.mgr.tm_env.cache_dir, real_name(a))
        if not os.path.exists(path):
            return None
        os.unlink(path)                   # eventmgr._synchronize: os.unlink
        self.cur.pop(a, None)
        return 'CacheDelete', [a]

    def op_ReadyOn(self):
        with io.open(os.path.join(self.mgr.tm_env.cache_dir, READY), 'w'):
            pass                          # eventmgr._cache_notify(True)
        return 'ReadyOn', []

    def op_ReadyOff(self):
        path = os.path.join(self.mgr.tm_env.cache_dir, READY)
        if not os.path.exists(path):
            return None
        fs.rm_safe(path)                  # eventmgr._cache_notify(False)
        return 'ReadyOff', []

    def op_ContainerFinishes(self, a, g, marker):
        cdir = self._container_dir(a, g)
        if cdir is None or not os.path.isdir(cdir) or self._running_target(a) != cdir:
            return None                   # only a supervised container can finish
        data = os.path.join(cdir, 'data')
        if any(os.path.exists(os.path.join(data, m)) for m in FIN_MARKERS):
            return None
        if marker == 'exitinfo':
            # monitor.MonitorContainerDown.execute: exclusive create
            with io.open(os.path.join(data, 'exitinfo'), 'x') as f:
                os.fchmod(f.fileno(), 0o644)
                f.writelines(utils.json_genencode(
                    {'service': 'svc', 'return_code': 1, 'signal': 0, 'timestamp': 0.0}))
        elif marker == 'aborted':
            app_abort.flag_aborted(data, why=app_abort.AbortedReason.UNKNOWN)
        elif marker == 'oom':
            utils.touch(os.path.join(data, 'oom'))     # services/cgroup_service.py
        elif marker == 'none':
            if (a, g) in self.tomb:
                return None
            # the container's service is killed: a tombstone, none of the markers
        else:
            raise tlc.MachineryError('marker %r' % marker)
        if (a, g) not in self.tomb:
            self.tomb.append((a, g))      # the service's exit tombstone, id = instance
        return 'ContainerFinishes', [a, g, marker]

    def op_MonitorCleanup(self, a, g, late=False):
        if (a, g) not in self.tomb:
            return None
        cur = self._running_target(a)
        if not late and cur is not None and cur != self._container_dir(a, g):
            return None                   # assumption: tombstone handled before a later
        #                                   generation of the instance is configured
        self.tomb.remove((a, g))
        monitor.MonitorContainerCleanup(self.mgr.tm_env, {}).execute(
            {'id': real_name(a), 'signal': 0, 'return_code': 1, 'timestamp': 0.0})
        return 'MonitorCleanup', [a, g]

    def op_CleanupCompletes(self, k, i, g, svc=False):
        """Cleanup.invoke(name) - what `treadmill sproc cleanup instance <name>`,
        the run script of the cleaning app, calls.  With the cleanup service
        modelled (svc) only a configured cleaning app of a running service does."""
        env = self.mgr.tm_env
        for f in os.listdir(env.cleanup_dir):
            if self._link_name(f) == dict(k=k, i=i, g=g):
                if svc and (self.cwatch is None or
                            not os.path.islink(os.path.join(env.cleaning_dir, f))):
                    return None
                (self.csvc or tm_cleanup.Cleanup(env)).invoke('linux', f)
                return 'CleanupCompletes', [k, i, g]
        return None

    def op_CleanupStart(self):
        """Cleanup.run() up to its loop: watch on cleanup/, _sync()."""
        self._stop_cleanup()
        env = self.mgr.tm_env
        self.csvc = tm_cleanup.Cleanup(env)
        self.cwatch = dirwatch.DirWatcher(env.cleanup_dir)
        self.cwatch.on_created = self.csvc._add_cleanup_app
        self.cwatch.on_deleted = self.csvc._remove_cleanup_app
        try:
            self.csvc._sync()
        except tlc.MachineryError:
            raise
        except Exception as e:  # pylint: disable=broad-except
            self.exc = type(e).__name__
        return 'CleanupStart', []

    def op_CleanupEvent(self):
        """Cleanup.run(): watcher.process_events - one event."""
        if self.cwatch is None:
            return None
        while self.cwatch.event_list:
            ev, path = self.cwatch.event_list[0]
            relevant = ev in _KIND and not os.path.basename(path).startswith('.')
            try:
                self.cwatch.process_events(max_events=1, resume=True)
            except tlc.MachineryError:
                raise
            except Exception as e:  # pylint: disable=broad-except
                self.exc = type(e).__name__
            if relevant:
                return 'CleanupEvent', []
        return None

    def op_ManagerRestart(self):
        self._start_manager()
        self._watch()
        return 'ManagerRestart', []

    def op_NodeStart(self):
        """The node's services start: "On startup run.sh will clear running and
        cleanup" (docstring of _synchronize); supervisors and tombstones are gone."""
        env = self.mgr.tm_env
        self._stop_cleanup()              # the cleanup service is one of those services
        for d in (env.running_dir, env.cleanup_dir):
            for f in os.listdir(d):
                if not f.startswith('.'):         # a shell's `rm running/*`
                    os.unlink(os.path.join(d, f))
        self.tomb = []
        self._start_manager()
        self._watch()
        return 'NodeStart', []

    def op_Crash(self, k):
        """The manager is killed before the k-th os-level link/rename call of
        the handler of the next event and started again (nothing is cleared).
        If the handler makes fewer calls this is an ordinary delivery."""
        relevant = [(ev, path) for ev, path in self.watch.event_list
                    if ev in _KIND and self._relevant(path)]
        if not relevant:
            return None
        ev, path = relevant[0]
        base = os.path.basename(path)
        label = [_EVNAME[_KIND[ev]], READY if base == READY else model_name(base)]
        try:
            with _KillAt(int(k)):
                res = self.op_Deliver()
        except Killed:
            self._start_manager()
            self._watch()
            return 'Crash', label
        return res

    def op_Deliver(self):
        """AppCfgMgr.run(): watch.process_events - one event."""
        while self.watch.event_list:
            ev, path = self.watch.event_list[0]
            relevant = ev in _KIND and self._relevant(path)
            if relevant:
                base = os.path.basename(path)
                label = (_EVNAME[_KIND[ev]], [READY if base == READY else model_name(base)])
            try:
                self.watch.process_events(max_events=1, resume=True)
            except tlc.MachineryError:
                raise
            except Exception as e:  # pylint: disable=broad-except
                # raised by the code under test inside a handler
                self.exc = type(e).__name__
            if relevant:
                return label
        return None


def _meddle(node, k):
    """One delivery during which the node monitor handles the tombstone of a running container right
    before the handler's k-th file-system probe.  A line `Meddled` (judged by the state clause only) if the
    monitor acted, otherwise the ordinary line of the delivery."""
    done = []

    def monitor():
        for (a, g) in list(node.tomb):
            if node._running_target(a) == node._container_dir(a, g):      # pylint: disable=protected-access
                if node.op_MonitorCleanup(a, g) is not None:
                    done.extend([a, g])
                    return True
        return False
    with _ActAt(k, monitor):
        res = node.op_Deliver()
    if res is None or not done:
        return res
    return 'Meddled', [res[0], res[1][0], done[0], done[1]]


def _apply(node, op, args, late, svc=False):
    if op == 'Meddle':
        return _meddle(node, int(args[0]))
    if op == 'CleanupCompletes':
        return node.op_CleanupCompletes(*args[:3], svc=svc)
    if op in ('OnCreated', 'OnDeleted', 'OnModified', 'Deliver'):
        return node.op_Deliver()
    if op == 'MonitorCleanup':
        return node.op_MonitorCleanup(*args[:2], late=late)
    if op == 'CacheCreate':
        return node.op_CacheCreate(args[0])
    return getattr(node, 'op_' + op)(*args)


def enabled_ops(post, instances, maxgen, gens, late, svc=False, crash=False):
    """Ops possible in the projected state `post` (for the online random
    generator), as (weight, op, args)."""
    ops = []
    run = {r['n']: (r['t']['i'], r['t']['g']) for r in post['running']}
    apps = {(x['c']['i'], x['c']['g']): x['m'] for x in post['apps']}
    cached = {c['a'] for c in post['cache']}
    for a in instances:
        if gens.get(a, 0) < maxgen:
            # placing an instance again after an eviction is what the property is about
            # ... and replacing the entry of a running instance in place while the
            # cache is not ready (eventmgr re-caching after a reconnect)
            w = 1.0 if a in cached else (4.0 if gens.get(a, 0) else 2.5)
            if a in cached and a in run and not post['ready']:
                w = 5.0
            ops.append((w, 'CacheCreate', [a]))
    for c in post['cache']:
        ops.append((2.0, 'CacheDelete', [c['a']]))
    ops.append((1.0 if post['ready'] else 4.0, 'ReadyOn', []))
    if post['ready']:
        ops.append((1.2, 'ReadyOff', []))
    for a, c in run.items():
        if c in apps and not set(apps[c]) & set(FIN_MARKERS) and c[0] == a:
            for m in FIN_MARKERS + ('none',):
                ops.append((0.4, 'ContainerFinishes', [c[0], c[1], m]))
    for t in post['tomb']:
        c = (t['i'], t['g'])
        if late or run.get(t['i'], c) == c:
            ops.append((2.0, 'MonitorCleanup', [t['i'], t['g']]))
    for l in post['cleanup']:
        if not svc:
            ops.append((0.35, 'CleanupCompletes', [l['n']['k'], l['n']['i'], l['n']['g']]))
        elif post['svc'] and l['n'] in post['cleaning']:
            ops.append((0.8, 'CleanupCompletes', [l['n']['k'], l['n']['i'], l['n']['g']]))
    if svc:
        ops.append((0.3 if post['svc'] else 3.0, 'CleanupStart', []))
        if post['cpending']:
            ops.append((2.0 + len(post['cpending']), 'CleanupEvent', []))
    ops.append((0.8, 'ManagerRestart', []))
    if post['apps']:
        ops.append((0.5, 'NodeStart', []))
    if post['pending']:
        ops.append((5.0 + 2 * len(post['pending']), 'Deliver', []))
        if crash:
            # kill points inside the handler: configure makes 4 link/rename calls
            # (app.json, trace event, staged link, rename), terminate one
            for k in (1, 2, 3, 4, 5, 7, 8, 11, 12):
                ops.append((0.25 if k % 4 in (0, 3) else 0.08, 'Crash', [k]))
    return ops


def replay(history=None, rng=None, depth=0, instances=('a1', 'a2'), maxgen=2, late=False,
           svc=False, crash=False):
    """Run one history (or, with rng, generate one online) on a fresh node.
    svc: the cleanup service is part of the history (CleanupStart/CleanupEvent;
    invoke only through a configured cleaning app); implied by a history that
    starts it.  Returns (effective history, trace lines)."""
    svc = svc or any(h[0] == 'CleanupStart' for h in (history or []))
    node = Node()
    try:
        post = node.project()
        lines = [dict(ev='Init', args=[], post=post)]
        eff = []
        k = 0
        while True:
            if history is not None:
                if k >= len(history):
                    break
                op, args = history[k][0], list(history[k][1])
            else:
                if k >= depth:
                    break
                ops = enabled_ops(post, instances, maxgen, node.gens, late, svc, crash)
                op, args = rng.choices([(o, a) for _, o, a in ops],
                                       weights=[w for w, _, _ in ops])[0]
            k += 1
            node.exc = None
            res = _apply(node, op, args, late, svc)
            if res is None:
                continue
            node._drain()
            post = node.project()
            line = dict(ev=res[0], args=res[1], post=post)
            if node.exc:
                line['exc'] = node.exc
            lines.append(line)
            if op == 'Meddle':
                eff.append(['Meddle', list(args[:1])])
            elif res[0] == 'Crash' or (op == 'Crash' and res[0] in _EVNAME.values()):
                eff.append(['Crash', list(args[:1])])       # replays as the same kill point
            else:
                eff.append(['Deliver' if res[0] in _EVNAME.values() else
                            ('CacheCreate' if res[0] == 'CacheReplace' else res[0]),
                            [] if res[0] in _EVNAME.values() else
                            (res[1][:1] if res[0] in ('CacheCreate', 'CacheReplace')
                             else res[1])])
        return eff, lines
    finally:
        node.close()


def from_labels(labels):
    """TLC action labels (tlc.simulate / counterexample) -> history."""
    hist = []
    for name, args in labels:
        if name in ('Synchronize', 'Initial', 'Next', 'Init'):
            continue
        if name == 'CacheReplace':
            hist.append(['CacheCreate', list(args)])
            continue
        if name == 'Crash':
            # the model cuts after k abstract effects (directory, link, ...); the
            # real handler is cut before one of its os-level calls (configure: 1
            # app.json, 2 trace event, 3 staged link, 4 rename; terminate: 1)
            hist.append(['Crash', [{0: 1, 1: 3, 2: 4, 3: 5, 4: 8, 5: 12}.get(int(args[0]), 4)]])
            continue
        if name in ('OnCreated', 'OnDeleted', 'OnModified'):
            hist.append(['Deliver', []])
        elif name == 'ContainerFinishes':
            hist.append([name, [args[0]['i'], args[0]['g'], args[1]]])
        elif name == 'MonitorCleanup':
            hist.append([name, [args[0]['i'], args[0]['g']]])
        elif name == 'CleanupCompletes':
            hist.append([name, [args[0]['k'], args[0]['i'], args[0]['g']]])
        else:
            hist.append([name, list(args)])
    return hist
