"""Beyond the listed properties: conformance of the real treadmill.watchdog.Watchdog to
specs/node/Watchdog.tla (lease files whose mtime is the deadline; check() reports the expired ones).
Virtual clock (time.time patched in treadmill.watchdog), real temporary directory.
run_ext(ctx) -> dict for the evidence; failed clauses are conformance class DRIFT (exit 0)."""
import json
import os
import random
import shutil
from unittest import mock

from . import core, tlc

SPEC_DIR = os.path.join(core.SPECS, 'node')
NAMES = ['w1', 'w2', 'w3']
REAL = {'w1': 'svc-EventMgr', 'w2': 'Monitor-net.svc', 'w3': 'app_run-proid.x#0000000001'}
T0 = 1600000000


def record(tid, hist):
    from treadmill import watchdog as wdmod     # the code under test
    root = tlc.scratch('verif-wd-')
    clock = {'now': 1}
    try:
        with mock.patch.object(wdmod.time, 'time', lambda: float(T0 + clock['now'])):
            wd = wdmod.Watchdog(root)
            leases, content = {}, {}
            lines = []
            for ev in hist:
                kind, n = ev[0], (ev[1] if len(ev) > 1 else '')
                d = ev[2] if len(ev) > 2 else (ev[1] if kind == 'Tick' else 0)
                exc = ''
                try:
                    if kind == 'Create':
                        content[n] = 'lease of %s #%d' % (n, len(lines))
                        leases[n] = wd.create(REAL[n], '%ds' % d, content[n])
                    elif kind == 'Heartbeat':
                        if n in leases:
                            leases[n].heartbeat()
                    elif kind == 'Remove':
                        if n in leases:
                            leases.pop(n).remove()
                    elif kind == 'Lose':
                        p = os.path.join(root, REAL[n])
                        if os.path.exists(p):
                            os.unlink(p)
                    elif kind == 'Initialize':
                        wd.initialize()
                    elif kind == 'Tick':
                        clock['now'] += d
                except Exception as e:  # pylint: disable=broad-except
                    exc = type(e).__name__
                back = {v: k for k, v in REAL.items()}
                failed = [dict(n=back.get(name, name), at=int(round(at - T0)), ok=(data == content.get(back.get(name))))
                          for name, at, data in wd.check()]
                dl = {}
                for k in NAMES:
                    p = os.path.join(root, REAL[k])
                    dl[k] = int(round(os.stat(p).st_mtime - T0)) if os.path.exists(p) else 0
                lines.append(dict(ev=kind, n=n if kind != 'Tick' else '', d=d, exc=exc,
                                  failed=sorted(failed, key=lambda x: x['n']), dl=dl))
        return dict(tid=tid, lines=[dict(ev='Init', n='', d=0, exc='', failed=[], dl={k: 0 for k in NAMES})] + lines)
    finally:
        shutil.rmtree(root, ignore_errors=True)


def from_labels(labels):
    hist = []
    for a, args in labels:
        args = [json.loads(x) if isinstance(x, str) and x.startswith('"') else x for x in args]
        if a == 'Create':
            hist.append(('Create', args[0], int(args[1])))
        elif a in ('Heartbeat', 'Remove', 'Lose'):
            hist.append((a, args[0]))
        elif a == 'Initialize':
            hist.append((a,))
        elif a == 'Tick':
            hist.append(('Tick', int(args[0])))
    return hist


def gen_random(rng, n):
    hist = []
    for _ in range(n):
        r = rng.random()
        k = rng.choice(NAMES)
        if r < 0.25:
            hist.append(('Create', k, rng.choice([1, 2, 4, 7])))
        elif r < 0.5:
            hist.append(('Heartbeat', k))
        elif r < 0.58:
            hist.append(('Remove', k))
        elif r < 0.64:
            hist.append(('Lose', k))
        elif r < 0.67:
            hist.append(('Initialize',))
        else:
            hist.append(('Tick', rng.choice([1, 1, 2, 3])))
    return hist


def run_ext(ctx):
    out = dict(spec='specs/node/Watchdog.tla (+ WatchdogTrace)')
    res = tlc.mc(SPEC_DIR, 'Watchdog', 'MC_Watchdog.cfg', workers=2, coverage=True, heap='2g', timeout=120)
    ctx.cmds.append(res['cmd'])
    if res['violated']:
        raise tlc.MachineryError('Watchdog.tla violates its own invariant %s' % res['violated'])
    out['model_run'] = dict(generated=res['generated'], distinct=res['distinct'], depth=res['depth'], complete=res['ok'],
                            invariants=['InvAliveNotFailed', 'InvSilentFailed', 'InvNoGhost', 'InvDeadline'])
    cfg = '\n'.join(l for l in open(os.path.join(SPEC_DIR, 'MC_Watchdog.cfg')).read().splitlines()
                    if not l.startswith('INVARIANTS')).replace('MaxTime = 9', 'MaxTime = 40')
    bs, cmd = tlc.simulate(SPEC_DIR, 'Watchdog', 'MC_Watchdog_gen.cfg', num=40 if ctx.quick else 1000, depth=16,
                           seed=ctx.seed * 17 + 3, procs=1 if ctx.quick else 4, timeout=120 if ctx.quick else 600,
                           extra_files={'MC_Watchdog_gen.cfg': cfg})
    ctx.cmds.append(cmd)
    hists = [from_labels(b) for b in bs]
    rng = random.Random(ctx.seed * 4001 + 5)
    hists += [gen_random(rng, rng.choice([10, 20, 40])) for _ in range(80 if ctx.quick else 3000)]
    traces = [record('w%d' % k, h) for k, h in enumerate(hists)]
    work = tlc.scratch('verif-wd-batch-')
    try:
        path = os.path.join(work, 'batch.json')
        with open(path, 'w') as f:
            json.dump(dict(traces=traces), f)
        verdicts, stats = tlc.validate(SPEC_DIR, 'WatchdogTrace', 'WatchdogTrace.cfg', path,
                                       timeout=300 if ctx.quick else 1200, heap='2g')
    finally:
        shutil.rmtree(work, ignore_errors=True)
    ctx.cmds.append(stats['cmd'])
    total = sum(len(t['lines']) - 1 for t in traces)
    if len(verdicts) != total:
        raise tlc.MachineryError('watchdog: %d verdicts for %d lines' % (len(verdicts), total))
    fails, flags = {}, {}
    for v in verdicts:
        for c in v['fail']:
            fails[c] = fails.get(c, 0) + 1
        for e in v['ex']:
            flags[e] = flags.get(e, 0) + 1
    for c, n in sorted(fails.items()):
        ctx.log('DRIFT %s: %d step(s) (beyond the listed properties; exit code unaffected)' % (c, n))
    out.update(traces=len(traces), lines=total, from_tlc=len(bs), drift=fails, exercised=flags)
    ctx.log('ext watchdog: %d traces, %d lines, drift %s, flags %s' % (len(traces), total, fails or 0, flags))
    return out
