"""Conformance of scheduler.Partition / RebootBucket (reboot-date assignment)
with specs/sched/Reboot.tla: random operation sequences on the REAL Partition
under a virtual clock; every add/remove/tick is logged with the bucket table
before and after; RebootTrace.tla re-computes each step with the spec's
successor functions and judges the assignment guarantees (AddOk)."""
import calendar
import json
import os
import shutil
import time as _realtime
from unittest import mock

from . import core, tlc

core.ensure_repo_on_path()
from treadmill import scheduler  # noqa: E402

SPEC_DIR = os.path.join(core.SPECS, 'sched')
# a local midnight: the default schedule reboots every day at 23:59:59 LOCAL time
BASE = _realtime.mktime((2020, 9, 14, 0, 0, 0, 0, 0, 0))


class _Shim:
    def __init__(self, holder):
        self._h = holder

    def time(self):
        return BASE + self._h['now']

    def __getattr__(self, name):
        return getattr(_realtime, name)


def _table(part):
    return [[int(b.timestamp - BASE), sorted(s.name for s in b.servers)] for b in part._reboot_buckets]


def replay(ops):
    """ops: ('Add', s, age, pin) | ('Remove', s) | ('Tick', d)."""
    holder = {'now': 3600}
    with mock.patch.object(scheduler, 'time', _Shim(holder)), \
            mock.patch.object(scheduler, 'DIMENSION_COUNT', 2):
        part = scheduler.Partition(label='p', now=BASE + holder['now'])
        servers = {}
        lines = [dict(ev='Init', args=[], now=holder['now'], buckets=_table(part),
                      last=int(part._reboot_last - BASE), vu={})]
        for op in ops:
            pre = _table(part)
            if op[0] == 'Add':
                _, s, age, pin = op
                srv = servers.get(s)
                up_since = BASE + holder['now'] - age
                if srv is None:
                    srv = servers[s] = scheduler.Server(s, [1, 1], up_since=up_since, label='p')
                else:
                    srv.up_since = up_since
                wanted = srv.valid_until if (pin and srv.valid_until) else None
                part.add(srv, wanted)
                args = [s, int(holder['now'] - age), int(wanted - BASE) if wanted else 0]
            elif op[0] == 'Remove':
                if op[1] in servers:
                    part.remove(servers[op[1]])
                args = [op[1]]
            else:
                holder['now'] += op[1]
                part.tick(BASE + holder['now'])
                args = [op[1]]
            lines.append(dict(ev=op[0], args=args, now=holder['now'], pre=pre, buckets=_table(part),
                              last=int(part._reboot_last - BASE),
                              vu={n: int(x.valid_until - BASE) if x.valid_until else 0
                                  for n, x in servers.items()}))
        return lines


def gen(rng, depth):
    ops = []
    names = ['s1', 's2', 's3', 's4']
    for _ in range(depth):
        r = rng.random()
        if r < 0.6:
            ops.append(('Add', rng.choice(names),
                        rng.choice([0, 3600, 12 * 3600, 86400, 2 * 86400, 10 * 86400, 20 * 86400,
                                    21 * 86400 + 100, 25 * 86400]),
                        rng.random() < 0.3))
        elif r < 0.75:
            ops.append(('Remove', rng.choice(names)))
        else:
            ops.append(('Tick', rng.choice([60, 3600, 86400, 3 * 86400, 10 * 86400])))
    return ops


def validate(traces, timeout=300):
    work = tlc.scratch('verif-batch-')
    try:
        path = os.path.join(work, 'batch.json')
        with open(path, 'w') as f:
            json.dump(dict(traces=traces), f)
        return tlc.validate(SPEC_DIR, 'RebootTrace', 'RebootTrace.cfg', path, timeout=timeout)
    finally:
        shutil.rmtree(work, ignore_errors=True)
