"""In-memory, kazoo-shaped ZooKeeper (implementation twin of the ZK model used
by the specs, DESIGN.md 3.4): one shared ZkStore (node table, sessions, watches,
write log, crash injection, per-call gate) and any number of ZkFakeClient
objects, one session each.  Only what the code under test uses is provided;
semantics follow ZooKeeper/kazoo (ephemeral owners, sequence suffixes, NoNode /
NodeExists / NotEmpty errors, one-shot watches, DataWatch/ChildrenWatch
recipes re-armed until the callback returns False).
"""
import inspect
import hashlib
import threading

import kazoo.exceptions
from kazoo.protocol.states import EventType, KeeperState, WatchedEvent, ZnodeStat

NoNodeError = kazoo.exceptions.NoNodeError
NodeExistsError = kazoo.exceptions.NodeExistsError
NotEmptyError = kazoo.exceptions.NotEmptyError
SessionExpiredError = kazoo.exceptions.SessionExpiredError


class InjectedCrash(BaseException):
    """The process 'dies' at this storage write (BaseException: not swallowed
    by `except Exception`)."""


class _Node:
    __slots__ = ('data', 'owner', 'ctime', 'mtime', 'version', 'cversion', 'seq', 'czxid', 'mzxid')

    def __init__(self, data, owner, now, zxid):
        self.data = data
        self.owner = owner
        self.ctime = now
        self.mtime = now
        self.version = 0
        self.cversion = 0
        self.seq = 0
        self.czxid = zxid
        self.mzxid = zxid


def _norm(path):
    if not path.startswith('/'):
        path = '/' + path
    while '//' in path:
        path = path.replace('//', '/')
    if len(path) > 1 and path.endswith('/'):
        path = path[:-1]
    return path


def _parent(path):
    p = path.rsplit('/', 1)[0]
    return p or '/'


class ZkStore:
    def __init__(self, clock=None):
        self._clock = clock or (lambda: 0.0)
        self._last_ms = 0
        self.zxid = 0
        self.nodes = {'/': _Node(b'', 0, 0, 0)}
        self.sessions = {}          # id -> alive?
        self._next_session = 100
        self.data_watches = {}      # path -> [fn]
        self.child_watches = {}     # path -> [fn]
        self.log = []               # (op, path, session, owner_before, applied)
        self.writes = 0
        self.fail_at = None         # crash at the k-th write (1-based), before applying it
        self.gate = None            # callable(session, op, path) run before every call
        self.deferred = None        # a list: watch notifications queue up (FIFO) instead of running
        self.lock = threading.RLock()

    # -- time ------------------------------------------------------------
    def now_ms(self):
        ms = int(round(self._clock() * 1000))
        self._last_ms = max(self._last_ms + 1, ms)
        return self._last_ms

    # -- sessions --------------------------------------------------------
    def new_session(self):
        self._next_session += 1
        self.sessions[self._next_session] = True
        return self._next_session

    def expire(self, session):
        """Session expiry: the session's ephemerals vanish atomically."""
        with self.lock:
            self.sessions[session] = False
            gone = sorted((p for p, n in self.nodes.items() if n.owner == session), reverse=True)
            fired = []
            for p in gone:
                fired += self._remove(p)
        self._fire(fired)
        return gone

    # -- helpers ---------------------------------------------------------
    def stat(self, path):
        n = self.nodes[path]
        nchild = sum(1 for p in self.nodes if p != path and _parent(p) == path)
        return ZnodeStat(n.czxid, n.mzxid, n.ctime, n.mtime, n.version, n.cversion, 0,
                         n.owner, len(n.data or b''), nchild, n.czxid)

    def children(self, path):
        return sorted(p.rsplit('/', 1)[1] for p in self.nodes
                      if p != path and _parent(p) == path and p != '/')

    def _remove(self, path):
        del self.nodes[path]
        par = _parent(path)
        if par in self.nodes:
            self.nodes[par].cversion += 1
        fired = [(fn, WatchedEvent(EventType.DELETED, KeeperState.CONNECTED, path))
                 for fn in self.data_watches.pop(path, [])]
        fired += [(fn, WatchedEvent(EventType.DELETED, KeeperState.CONNECTED, path))
                  for fn in self.child_watches.pop(path, [])]
        fired += [(fn, WatchedEvent(EventType.CHILD, KeeperState.CONNECTED, par))
                  for fn in self.child_watches.pop(par, [])]
        return fired

    def _fire(self, fired):
        if self.deferred is not None:
            self.deferred.extend(fired)
            return
        for fn, ev in fired:
            fn(ev)

    def _write(self, op, path, session):
        """Bookkeeping common to every mutating call; may inject a crash."""
        self.writes += 1
        owner = self.nodes[path].owner if path in self.nodes else None
        if self.fail_at is not None and self.writes == self.fail_at:
            self.log.append((op, path, session, owner, False))
            exc = getattr(self, 'fail_exc', None)
            if exc is not None:
                raise exc('%s %s (write %d)' % (op, path, self.writes))
            raise InjectedCrash('%s %s (write %d)' % (op, path, self.writes))
        self.log.append((op, path, session, owner, True))
        self.zxid += 1

    def dump(self, prefix='/'):
        """{path: (data bytes, owner, ctime)} below prefix."""
        pre = _norm(prefix)
        return {p: (n.data, n.owner, n.ctime) for p, n in self.nodes.items()
                if p == pre or p.startswith(pre.rstrip('/') + '/')}

    def copy(self):
        """Deep copy of the node table (no watches, sessions kept)."""
        import copy as _copy
        other = ZkStore(self._clock)
        other._last_ms = self._last_ms
        other.zxid = self.zxid
        other.nodes = {p: _copy.copy(n) for p, n in self.nodes.items()}
        other.sessions = dict(self.sessions)
        other._next_session = self._next_session
        return other


class _Handler:
    @staticmethod
    def sleep_func(_seconds):
        """kazoo handlers expose sleep_func (used by KazooRetry in
        treadmill.zkwatchers.ExistingDataWatch); the fake never needs to wait."""

    def event_object(self):
        return threading.Event()

    def lock_object(self):
        return threading.Lock()

    def rlock_object(self):
        return threading.RLock()

    def spawn(self, func, *args, **kwargs):
        return func(*args, **kwargs)


class _Lock:
    def __init__(self, *_a, **_k):
        pass

    def __enter__(self):
        return self

    def __exit__(self, *a):
        return False

    def acquire(self, *a, **k):
        return True

    def release(self):
        pass


class ZkFakeClient:
    """kazoo.client.KazooClient look-alike bound to one session of a ZkStore."""

    def __init__(self, store, session=None):
        self.store = store
        self.session = session or store.new_session()
        self.handler = _Handler()
        self.state = KeeperState.CONNECTED
        self.Lock = _Lock

    # -- plumbing --------------------------------------------------------
    @property
    def client_id(self):
        return (self.session, b'passwd')

    @property
    def connected(self):
        return self.store.sessions.get(self.session, False)

    def _enter(self, op, path):
        if self.store.gate is not None:
            self.store.gate(self.session, op, path)
        if not self.store.sessions.get(self.session, False):
            raise SessionExpiredError()

    def start(self, *a, **k):
        pass

    def stop(self):
        pass

    def close(self):
        pass

    def add_listener(self, _l):
        pass

    def remove_listener(self, _l):
        pass

    def retry(self, func, *args, **kwargs):
        return func(*args, **kwargs)

    def make_default_acl(self, acl=None):
        return list(acl or [])

    def make_servers_acl(self):
        return 'servers-acl'

    def make_servers_del_acl(self):
        return 'servers-del-acl'

    def make_user_acl(self, *_a, **_k):
        return 'user-acl'

    def make_role_acl(self, *_a, **_k):
        return 'role-acl'

    def make_host_acl(self, *_a, **_k):
        return 'host-acl'

    def make_self_acl(self, *_a, **_k):
        return 'self-acl'

    def set_acls(self, path, acls, version=-1):
        self._enter('set_acls', _norm(path))
        if _norm(path) not in self.store.nodes:
            raise NoNodeError(path)

    def get_acls(self, path):
        return [], self.store.stat(_norm(path))

    # -- reads -----------------------------------------------------------
    def exists(self, path, watch=None):
        path = _norm(path)
        self._enter('exists', path)
        with self.store.lock:
            if watch:
                self.store.data_watches.setdefault(path, []).append(watch)
            if path in self.store.nodes:
                return self.store.stat(path)
            return None

    def get(self, path, watch=None):
        path = _norm(path)
        self._enter('get', path)
        with self.store.lock:
            if path not in self.store.nodes:
                raise NoNodeError(path)
            if watch:
                self.store.data_watches.setdefault(path, []).append(watch)
            return self.store.nodes[path].data, self.store.stat(path)

    def get_children(self, path, watch=None, include_data=False):
        path = _norm(path)
        self._enter('get_children', path)
        with self.store.lock:
            if path not in self.store.nodes:
                raise NoNodeError(path)
            if watch:
                self.store.child_watches.setdefault(path, []).append(watch)
            # ZooKeeper promises no order for a listing: the code under test is
            # handed a fixed scramble (stable across runs), never the sorted list
            kids = sorted(self.store.children(path),
                          key=lambda k: hashlib.md5(k.encode('utf8')).digest())
            if include_data:
                return kids, self.store.stat(path)
            return kids

    # -- writes ----------------------------------------------------------
    def ensure_path(self, path, acl=None):
        path = _norm(path)
        self._enter('ensure_path', path)
        with self.store.lock:
            self._mkparents(path + '/x')
        return True

    def _mkparents(self, path):
        parts = [p for p in _parent(path).split('/') if p]
        cur = ''
        fired = []
        for part in parts:
            cur += '/' + part
            if cur not in self.store.nodes:
                self.store._write('create', cur, self.session)
                self.store.nodes[cur] = _Node(b'', 0, self.store.now_ms(), self.store.zxid)
                par = _parent(cur)
                self.store.nodes[par].cversion += 1
                fired += [(fn, WatchedEvent(EventType.CHILD, KeeperState.CONNECTED, par))
                          for fn in self.store.child_watches.pop(par, [])]
        return fired

    def create(self, path, value=b'', acl=None, ephemeral=False, sequence=False,
               makepath=False, include_data=False):
        path = _norm(path)
        self._enter('create', path)
        if value is None:
            value = b''
        if not isinstance(value, bytes):
            raise TypeError('value must be bytes')
        with self.store.lock:
            par = _parent(path)
            fired = []
            if par not in self.store.nodes:
                if not makepath:
                    raise NoNodeError(par)
                fired += self._mkparents(path)
            if self.store.nodes[par].owner:
                raise kazoo.exceptions.NoChildrenForEphemeralsError(par)
            if sequence:
                pn = self.store.nodes[par]
                path = '%s%010d' % (path, pn.seq)
                pn.seq += 1
            elif path in self.store.nodes:
                raise NodeExistsError(path)
            self.store._write('create', path, self.session)
            self.store.nodes[path] = _Node(value, self.session if ephemeral else 0,
                                           self.store.now_ms(), self.store.zxid)
            self.store.nodes[par].cversion += 1
            fired += [(fn, WatchedEvent(EventType.CREATED, KeeperState.CONNECTED, path))
                      for fn in self.store.data_watches.pop(path, [])]
            fired += [(fn, WatchedEvent(EventType.CHILD, KeeperState.CONNECTED, par))
                      for fn in self.store.child_watches.pop(par, [])]
        self.store._fire(fired)
        return path

    def set(self, path, value, version=-1):
        path = _norm(path)
        self._enter('set', path)
        if value is None:
            value = b''
        with self.store.lock:
            if path not in self.store.nodes:
                raise NoNodeError(path)
            n = self.store.nodes[path]
            if version != -1 and version != n.version:
                raise kazoo.exceptions.BadVersionError(path)
            self.store._write('set', path, self.session)
            n.data = value
            n.version += 1
            n.mtime = self.store.now_ms()
            n.mzxid = self.store.zxid
            fired = [(fn, WatchedEvent(EventType.CHANGED, KeeperState.CONNECTED, path))
                     for fn in self.store.data_watches.pop(path, [])]
        self.store._fire(fired)
        return self.store.stat(path)

    def delete(self, path, version=-1, recursive=False):
        path = _norm(path)
        self._enter('delete', path)
        with self.store.lock:
            if path not in self.store.nodes:
                raise NoNodeError(path)
            kids = self.store.children(path)
            fired = []
            if kids:
                if not recursive:
                    raise NotEmptyError(path)
                for p in sorted((q for q in self.store.nodes if q.startswith(path + '/')),
                                reverse=True):
                    self.store._write('delete', p, self.session)
                    fired += self.store._remove(p)
            self.store._write('delete', path, self.session)
            fired += self.store._remove(path)
        self.store._fire(fired)
        return True

    # -- recipes ---------------------------------------------------------
    def DataWatch(self, path, func=None):
        client = self
        path = _norm(path)

        def register(fn):
            nargs = len(inspect.signature(fn).parameters)
            state = {'stopped': False}

            def deliver(event):
                if state['stopped']:
                    return
                with client.store.lock:
                    if path in client.store.nodes:
                        data, stat = client.store.nodes[path].data, client.store.stat(path)
                    else:
                        data, stat = None, None
                    client.store.data_watches.setdefault(path, []).append(deliver)
                rc = fn(data, stat, event) if nargs >= 3 else fn(data, stat)
                if rc is False:
                    state['stopped'] = True
            deliver(None)
            return fn
        if func is not None:
            return register(func)
        return register

    def ChildrenWatch(self, path, func=None, send_event=False):
        client = self
        path = _norm(path)

        def register(fn):
            state = {'stopped': False}

            def deliver(event):
                if state['stopped']:
                    return
                with client.store.lock:
                    if path not in client.store.nodes:
                        return
                    kids = sorted(client.store.children(path),
                                  key=lambda k: hashlib.md5(k.encode('utf8')).digest())
                    client.store.child_watches.setdefault(path, []).append(deliver)
                rc = fn(kids, event) if send_event else fn(kids)
                if rc is False:
                    state['stopped'] = True
            deliver(None)
            return fn
        if func is not None:
            return register(func)
        return register
