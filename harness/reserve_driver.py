"""C19 driver: the REAL reservation create / update / delete closures of
treadmill.api.allocation.API (hence the real _check_capacity, _calc_free,
_calc_free_traits, _check_limit, utils.cpu_units, utils.size_to_bytes, the
schema decorator) against an in-memory admin.

The admin objects are the real `admin._ldap.CellAllocation` / `Partition`
(real to_entry / from_entry / create / get / list / update / delete, real
`Admin.get/create/update` and `_diff_entries`) over `MemLdap`, a directory kept
in a dict, so a sequence of requests is stateful exactly the way it is against
LDAP: what one request stored is what the next one's capacity check lists.
Only the wire is faked (search / add / modify / delete on a dict).

Beyond C19 (specs/cell/CellSyncCore.tla): `Sync` runs the real
cellsync.sync_allocations() of one cell (context.GLOBAL.cell / .zk.conn patched
at class level; one harness/zkfake per cell, so masterapi.update_allocations
writes the cell's /allocations node and queues its 'allocations' event there);
`Assign` / `Unassign` are the real assignment.update / assignment.delete.  Every
projection also carries the rest of the directory record (rank, adjustment, max
utilisation, assignments), the /allocations document of every synchronised
cell parsed from the raw node bytes, and the number of queued events.

A history is (table, [(ev, id, r)]):
  table  [(cell, part, cap, limits)]   cap = {cpu, memory, disk} spelled
         quantities (mantissa, suffix); limits = {trait: {cpu, memory, disk}}
  ev     'Create' | 'Update' | 'Delete' | 'Sync' (id = ('', cell), r None)
         | 'Reconf' (id = ('', cell), r = {part, cap, limits}: the environment
           rewrites the partition record through the real Partition.update)
         | 'Assign' | 'Unassign' (r = {pattern, priority})
  id     (alloc, cell)                 alloc = 'tenant/name'
  r      {part, tg, traits, cpu, memory, disk [, rank, adj, maxu]}   (None for Delete)
Quantities are rendered as the strings the spelling says ('100%', '1G',
'2048m').  Recorded per request: outcome ('ok' | 'invalid' | 'exc') and the
projection of the directory after it, parsed from the RAW stored attribute
strings by this module's own parser (not by the code under test).
"""
import inspect
import re

import mock

from . import core, tlc, zkfake

core.ensure_repo_on_path()

import decorator  # noqa: E402
if not hasattr(decorator, 'getargspec'):
    # treadmill.schema was written against decorator 4.x; the sandbox has 5.x.
    # Same information, documented replacement.  (Environment, not the repo.)
    decorator.getargspec = inspect.getfullargspec

import jsonschema  # noqa: E402
import ldap3  # noqa: E402
from ldap3.core import exceptions as ldap_exceptions  # noqa: E402

from treadmill import admin as tm_admin  # noqa: E402
from treadmill import context  # noqa: E402
from treadmill import exc  # noqa: E402
from treadmill.admin import _ldap  # noqa: E402
from treadmill.api import allocation  # noqa: E402
from treadmill import cellsync  # noqa: E402


class HarnessBug(tlc.MachineryError):
    """Raised from inside the fake directory: never attributable to the code."""


_CLAUSE = re.compile(r'\(([A-Za-z][\w;-]*)=([^()]*)\)')


class MemLdap(_ldap.Admin):
    """`_ldap.Admin` whose wire operations act on a dict dn -> {attr: [str]}.
    get / create / update / dn are the real methods of the base class."""

    def __init__(self):
        super(MemLdap, self).__init__(None, 'dc=verif')
        self.entries = {}
        self.writes = 0

    # -- helpers
    def _exists(self, dn):
        return dn in self.entries or dn.startswith('ou=')

    @staticmethod
    def _no_such(dn):
        return ldap_exceptions.LDAPNoSuchObjectResult(
            result=32, description='noSuchObject', dn=dn, message='', response_type='searchResDone')

    @staticmethod
    def _match(entry, clauses):
        low = {k.lower(): v for k, v in entry.items()}
        for attr, val in clauses:
            have = low.get(attr.lower())
            if have is None:
                return False
            if val != '*' and val not in have:
                return False
        return True

    @staticmethod
    def _select(entry, attributes):
        if attributes is None or '*' in attributes:
            return {k: list(v) for k, v in entry.items()}
        want = {a.lower() for a in attributes}
        # an attribute description selects its subtypes (options) as well
        return {k: list(v) for k, v in entry.items() if k.split(';', 1)[0].lower() in want}

    # -- wire
    def paged_search(self, search_base=None, search_filter=None,
                     search_scope=ldap3.SUBTREE, attributes=None, dirty=False):
        try:
            if search_base is None:
                search_base = self.root_ou
            clauses = _CLAUSE.findall(str(search_filter or '(objectClass=*)'))
            if not clauses:
                raise HarnessBug('MemLdap cannot parse filter %r' % (search_filter,))
            if not self._exists(search_base):
                raise self._no_such(search_base)
            if search_scope == ldap3.BASE:
                cands = [search_base] if search_base in self.entries else []
            else:
                cands = sorted(d for d in self.entries
                               if d == search_base or d.endswith(',' + search_base))
            out = []
            for dn in cands:
                if self._match(self.entries[dn], clauses):
                    sel = self._select(self.entries[dn], attributes)
                    out.append({'dn': dn, 'attributes': sel, 'raw_attributes': sel,
                                'type': 'searchResEntry'})
            return iter(out)
        except (ldap_exceptions.LDAPException, tlc.MachineryError):
            raise
        except Exception as err:  # pylint: disable=broad-except
            raise HarnessBug('MemLdap.paged_search: %r' % (err,))

    search = paged_search

    def add(self, dn, object_class=None, attributes=None):
        if dn in self.entries:
            raise ldap_exceptions.LDAPEntryAlreadyExistsResult(
                result=68, description='entryAlreadyExists', dn=dn, message='',
                response_type='addResponse')
        try:
            entry = {}
            for k, v in (attributes or {}).items():
                vals = v if isinstance(v, (list, tuple)) else [v]
                entry[k] = [x if isinstance(x, str) else str(x) for x in vals]
            if object_class:
                entry['objectClass'] = list(object_class) if isinstance(
                    object_class, (list, tuple)) else [object_class]
        except Exception as err:  # pylint: disable=broad-except
            raise HarnessBug('MemLdap.add: %r' % (err,))
        self.entries[dn] = entry
        self.writes += 1

    def modify(self, dn, changes):
        if not changes:
            return
        if dn not in self.entries:
            raise self._no_such(dn)
        try:
            entry = self.entries[dn]
            for attr, ops in changes.items():
                key = next((k for k in entry if k.lower() == attr.lower()), attr)
                for op, values in ops:
                    values = [x if isinstance(x, str) else str(x) for x in values]
                    if op == ldap3.MODIFY_ADD:
                        entry[key] = entry.get(key, []) + values
                    elif op == ldap3.MODIFY_REPLACE:
                        if values:
                            entry[key] = values
                        else:
                            entry.pop(key, None)
                    elif op == ldap3.MODIFY_DELETE:
                        if values:
                            entry[key] = [x for x in entry.get(key, []) if x not in values]
                            if not entry[key]:
                                del entry[key]
                        else:
                            entry.pop(key, None)
                    else:
                        raise HarnessBug('MemLdap.modify: operation %r' % (op,))
        except tlc.MachineryError:
            raise
        except Exception as err:  # pylint: disable=broad-except
            raise HarnessBug('MemLdap.modify: %r' % (err,))
        self.writes += 1

    def delete(self, dn):
        if dn not in self.entries:
            raise self._no_such(dn)
        del self.entries[dn]
        self.writes += 1


# ---------------------------------------------------------------------------
def spell(sp):
    """(mantissa, suffix) -> the string a user types."""
    return '%d%s' % (sp[0], sp[1])


_QTY = re.compile(r'^(\d+)([KkMmGg%])$')


def unspell(text):
    m = _QTY.match(text)
    if not m:
        raise HarnessBug('stored quantity %r is not <digits><suffix>' % (text,))
    return [int(m.group(1)), m.group(2)]


def _qty_json(q):
    return {k: [int(q[k][0]), q[k][1]] for k in ('cpu', 'memory', 'disk')}


_API = []


def api():
    """One allocation.API() per process (the closures hold no state)."""
    if not _API:
        with mock.patch.object(context.AdminContext, 'conn', mock.Mock(return_value=None)):
            _API.append(allocation.API())
    return _API[0]


class World:
    """A directory with one partition table, and the admin objects the API
    sees through context.GLOBAL.admin."""

    def __init__(self, table):
        self.ldap = MemLdap()
        wrapped = tm_admin.WrappedAdmin(self.ldap)
        self.cell_alloc = _ldap.CellAllocation(wrapped)
        self.partition = _ldap.Partition(wrapped)
        self.table = table
        self.zk = {}        # cell -> (ZkStore, ZkFakeClient): every cell has its own ZooKeeper
        for cell, part, cap, limits in table:
            obj = {'cpu': spell(cap['cpu']), 'memory': spell(cap['memory']),
                   'disk': spell(cap['disk']),
                   'limits': [{'trait': t, 'cpu': spell(l['cpu']), 'memory': spell(l['memory']),
                               'disk': spell(l['disk'])} for t, l in sorted(limits.items())]}
            # the way `treadmill admin ldap partition configure/limit` writes it
            self.partition.create([part, cell], obj)

    def header(self):
        return [dict(cell=cell, part=part, cap=_qty_json(cap),
                     limits=[dict(trait=t, **_qty_json(l)) for t, l in sorted(limits.items())])
                for cell, part, cap, limits in self.table]

    def raw_parts(self):
        """The partition table parsed from the RAW directory entries (same shape
        as header())."""
        out = []
        for dn in sorted(self.ldap.entries):
            e = self.ldap.entries[dn]
            if 'tmPartition' not in e.get('objectClass', []):
                continue
            comps = dn.split(',')
            part, cell = comps[0].split('=', 1)[1], comps[1].split('=', 1)[1]
            by_opt = {}
            for k, v in e.items():
                if ';' in k:
                    attr, opt = k.split(';', 1)
                    by_opt.setdefault(opt, {})[attr] = v[0]
            limits = []
            for opt in sorted(by_opt):
                a = by_opt[opt]
                limits.append(dict(trait=a['allocation-limit-trait'],
                                   cpu=unspell(a.get('allocation-limit-cpu', '0%')),
                                   memory=unspell(a.get('allocation-limit-memory', '0G')),
                                   disk=unspell(a.get('allocation-limit-disk', '0G'))))
            out.append(dict(cell=cell, part=part,
                            cap=dict(cpu=unspell(e.get('cpu', ['0%'])[0]),
                                     memory=unspell(e.get('memory', ['0G'])[0]),
                                     disk=unspell(e.get('disk', ['0G'])[0])),
                            limits=sorted(limits, key=lambda l: l['trait'])))
        return out

    def reconf(self, cell, r):
        """The environment rewrites a partition record (what `treadmill admin ldap
        partition configure` / `... limit` do: Partition.update, create if new)."""
        obj = {'cpu': spell(r['cap']['cpu']), 'memory': spell(r['cap']['memory']),
               'disk': spell(r['cap']['disk']),
               'limits': [{'trait': t, 'cpu': spell(l['cpu']), 'memory': spell(l['memory']),
                           'disk': spell(l['disk'])} for t, l in sorted(r['limits'].items())]}
        try:
            try:
                self.partition.update([r['part'], cell], obj)
            except tm_admin.exc.NoSuchObjectResult:
                self.partition.create([r['part'], cell], obj)
            return 'ok', ''
        except tlc.MachineryError:
            raise
        except Exception as err:  # pylint: disable=broad-except
            raise HarnessBug('partition rewrite failed: %r' % (err,))

    def project(self, with_parts=False):
        """Abstract state from the RAW directory entries."""
        if with_parts:
            return dict(self.project(), parts=self.raw_parts())
        res = []
        for dn in sorted(self.ldap.entries):
            e = self.ldap.entries[dn]
            if 'tmCellAllocation' not in e.get('objectClass', []):
                continue
            parts = dn.split(',')
            if not (parts[0].startswith('cell=') and parts[1].startswith('allocation=')):
                raise HarnessBug('unexpected reservation dn %r' % dn)
            tenants = [p.split('=', 1)[1] for p in parts[2:] if p.startswith('tenant=')]
            res.append(dict(
                alloc='%s/%s' % (':'.join(reversed(tenants)), parts[1].split('=', 1)[1]),
                cell=parts[0].split('=', 1)[1],
                part=e.get('partition', ['_default'])[0],
                traits=sorted(e.get('trait', [])),
                cpu=unspell(e.get('cpu', ['0%'])[0]),
                memory=unspell(e.get('memory', ['0G'])[0]),
                disk=unspell(e.get('disk', ['0G'])[0]),
                # beyond C19 (CellSyncCore.tla): what else the directory keeps
                rank=int(e['rank'][0]) if 'rank' in e else -1,
                adj=[int(e['rank-adjustment'][0])] if 'rank-adjustment' in e else [],
                maxu=[repr(float(e['max-utilization'][0]))] if 'max-utilization' in e else [],
                asg=self._raw_assignments(e)))
        return dict(res=res, docs=self._docs(), events=self._events())

    @staticmethod
    def _raw_assignments(e):
        by_opt = {}
        for k, v in e.items():
            if ';' in k:
                attr, opt = k.split(';', 1)
                by_opt.setdefault(opt, {})[attr] = v[0]
        out = []
        for opt in sorted(by_opt):
            a = by_opt[opt]
            if set(a) != {'pattern', 'priority'}:
                raise HarnessBug('unexpected assignment attributes %r' % (a,))
            out.append([a['pattern'], int(a['priority'])])
        return sorted(out)

    def _zk(self, cell):
        if cell not in self.zk:
            store = zkfake.ZkStore()
            self.zk[cell] = (store, zkfake.ZkFakeClient(store))
        return self.zk[cell]

    def _docs(self):
        """The /allocations document of every cell that has one, parsed from
        the raw node bytes (json, not zkutils)."""
        import json
        docs = []
        for cell in sorted(self.zk):
            store, _zk = self.zk[cell]
            node = store.dump('/allocations').get('/allocations')
            if node is None:
                continue
            entries = []
            for a in json.loads(node[0].decode()):
                ident = a.get('_id', '')
                entries.append(dict(
                    name=a.get('name', ''),
                    idcell=ident.rsplit('/', 1)[-1],
                    idok=(ident == '%s/%s' % (a.get('name'), a.get('cell'))),
                    part=a.get('partition', ''),
                    traits=sorted(a.get('traits', [])),
                    cpu=unspell(a.get('cpu', '')), memory=unspell(a.get('memory', '')),
                    disk=unspell(a.get('disk', '')),
                    rank=a['rank'] if isinstance(a.get('rank'), int) else -1,
                    adj=[a['rank_adjustment']] if 'rank_adjustment' in a else [],
                    maxu=[repr(float(a['max_utilization']))] if 'max_utilization' in a else [],
                    asg=sorted([x.get('pattern', ''), x.get('priority', -1)]
                               for x in a.get('assignments', []))))
            docs.append(dict(cell=cell, entries=entries))
        return docs

    def _events(self):
        out = []
        for cell in sorted(self.zk):
            store, _zk = self.zk[cell]
            n = sum(1 for p in store.dump('/events')
                    if p.rsplit('/', 1)[-1].startswith('000-allocations-'))
            out.append(dict(cell=cell, n=n))
        return out

    def sync(self, cell):
        """cellsync.sync_allocations() of `cell` (its own ZooKeeper)."""
        _store, zk = self._zk(cell)
        adm = context.AdminContext
        try:
            with mock.patch.object(adm, 'cell_allocation', lambda _self: self.cell_alloc), \
                    mock.patch.object(context.ZkContext, 'conn',
                                      mock.PropertyMock(return_value=zk)), \
                    mock.patch.object(context.Context, 'cell',
                                      mock.PropertyMock(return_value=cell)):
                cellsync.sync_allocations()
            return 'ok', ''
        except tlc.MachineryError:
            raise
        except Exception as err:  # pylint: disable=broad-except
            return 'exc', type(err).__name__

    def assign(self, ev, ident, a):
        """assignment.update / assignment.delete of one pattern."""
        alloc, cell = ident
        rsrc_id = '%s/%s/%s' % (alloc, cell, a['pattern'])
        adm = context.AdminContext
        with mock.patch.object(adm, 'cell_allocation', lambda _self: self.cell_alloc):
            try:
                if ev == 'Assign':
                    api().assignment.update(rsrc_id, {'priority': int(a['priority'])})
                else:
                    api().assignment.delete(rsrc_id)
                return 'ok', ''
            except tlc.MachineryError:
                raise
            except jsonschema.exceptions.ValidationError as err:
                raise HarnessBug('generator produced a schema-invalid assignment: %s' % err.message)
            except Exception as err:  # pylint: disable=broad-except
                return 'exc', type(err).__name__

    def request(self, ev, ident, r):
        """Issue one API call.  Returns (outcome, exception type name)."""
        if ev == 'Sync':
            return self.sync(ident[1])
        if ev == 'Reconf':
            return self.reconf(ident[1], r)
        if ev in ('Assign', 'Unassign'):
            return self.assign(ev, ident, r)
        alloc, cell = ident
        rsrc_id = '%s/%s' % (alloc, cell)
        rsv = api().reservation
        adm = context.AdminContext
        with mock.patch.object(adm, 'cell_allocation', lambda _self: self.cell_alloc), \
                mock.patch.object(adm, 'partition', lambda _self: self.partition):
            try:
                if ev == 'Delete':
                    rsv.delete(rsrc_id)
                    return 'ok', ''
                rsrc = {'cpu': spell(r['cpu']), 'memory': spell(r['memory']),
                        'disk': spell(r['disk'])}
                if not (ev == 'Create' and r['part'] == '_default'):
                    # create without a partition means the default partition
                    rsrc['partition'] = r['part']
                if r['tg']:
                    # the ORDER of a traits list is an input dimension of its own (the
                    # model sees a set): alternate deterministically between the two
                    # sorted orders so that limited and unlimited traits meet both ways
                    flip = (int(r['cpu'][0]) + int(r['memory'][0]) + len(alloc)) % 2 == 1
                    rsrc['traits'] = sorted(r['traits'], reverse=flip)
                if r.get('rank') is not None:
                    rsrc['rank'] = int(r['rank'])
                if r.get('adj') is not None:
                    rsrc['rank_adjustment'] = int(r['adj'])
                if r.get('maxu') is not None:
                    rsrc['max_utilization'] = float(r['maxu'])
                if ev == 'Create':
                    rsv.create(rsrc_id, rsrc)
                elif ev == 'Update':
                    rsv.update(rsrc_id, rsrc)
                else:
                    raise HarnessBug('unknown event %r' % (ev,))
                return 'ok', ''
            except exc.InvalidInputError:
                return 'invalid', 'InvalidInputError'
            except tlc.MachineryError:
                raise
            except jsonschema.exceptions.ValidationError as err:
                raise HarnessBug('generator produced a schema-invalid request: %s' % err.message)
            except Exception as err:  # pylint: disable=broad-except
                return 'exc', type(err).__name__


def _opt(v):
    return [] if v is None else [v]


def norm_request(r):
    if 'pattern' in r:      # Assign / Unassign
        return dict(pattern=r['pattern'], priority=int(r.get('priority', 0)))
    if 'cap' in r:          # Reconf
        return dict(part=r['part'], cap=_qty_json(r['cap']),
                    limits=[dict(trait=t, **_qty_json(l)) for t, l in sorted(r['limits'].items())])
    return dict(part=r['part'], tg=bool(r['tg']), traits=sorted(r['traits']),
                cpu=[int(r['cpu'][0]), r['cpu'][1]], memory=[int(r['memory'][0]), r['memory'][1]],
                disk=[int(r['disk'][0]), r['disk'][1]],
                rank=_opt(r.get('rank')), adj=_opt(r.get('adj')),
                maxu=_opt(repr(float(r['maxu'])) if r.get('maxu') is not None else None))


def replay(table, history):
    """Run one history on a fresh directory; returns (header, lines)."""
    world = World(table)
    lines = [dict(ev='Init', post=world.project())]
    for ev, ident, r in history:
        out, exn = world.request(ev, ident, r)
        line = dict(ev=ev, id=dict(alloc=ident[0], cell=ident[1]), out=out, exc=exn,
                    post=world.project())
        if r is not None:
            line['r'] = norm_request(r)
        lines.append(line)
    return world.header(), lines
