"""L2 driver: the REAL scheduler.master.Master on the in-memory ZooKeeper
(zkfake) through the real ZkBackend.  Histories are ZooKeeper-level events
issued through the real producers in scheduler.masterapi (DESIGN.md section 7,
"Rule"), each followed by delivery of the watch events the master would get.

After every step the store's /placement subtree and the master's in-memory model
are projected separately; MasterTrace.tla compares them.
"""
import json
import threading

import yaml
import kazoo.exceptions
import time as _realtime
from unittest import mock

from . import core, zkfake
from . import sched_l1

core.ensure_repo_on_path()
from treadmill import scheduler, zkutils, zknamespace as z  # noqa: E402
from treadmill.scheduler import loader as loader_mod  # noqa: E402
from treadmill.scheduler import master as master_mod  # noqa: E402
from treadmill.scheduler import masterapi, zkbackend  # noqa: E402

T0 = 1600000000.0
WATCHED = [z.SERVER_PRESENCE, z.SCHEDULED, z.EVENTS, z.BLACKEDOUT_SERVERS]


class VClock:
    """Strictly monotonic virtual clock: model ticks (s) + 1 ms per step."""
    def __init__(self):
        self.ticks = 0
        self.ms = 0

    def time(self):
        return T0 + self.ticks + self.ms * 1e-3

    def step(self):
        self.ms += 1


class _TimeShim:
    def __init__(self, v):
        self._v = v

    def time(self):
        return self._v.time()

    def __getattr__(self, name):
        return getattr(_realtime, name)


def relms(t):
    """absolute seconds -> integer ms since T0 (None -> -1, 0 -> 0)."""
    if t is None:
        return -1
    if not t:
        return 0
    return int(round((float(t) - T0) * 1000))


def rels(t):
    """absolute seconds -> whole seconds since T0 (None -> -1, 0 -> 0)."""
    if t is None:
        return -1
    if not t:
        return 0
    import math
    return int(math.floor(float(t) - T0 + 1e-6))


MEM_SPELL = [lambda v: (v, 'M'), lambda v: (v * 1024, 'K'), lambda v: (v, 'm'), lambda v: (v * 1024, 'k'),
             lambda v: (v // 1024, 'G') if v % 1024 == 0 and v else (v, 'M'),
             lambda v: (v // 1024, 'g') if v % 1024 == 0 and v else (v, 'M'),
             # decimal two-letter units (size_to_bytes: powers of 1000): smallest mantissa
             # that still means at least v MB
             lambda v: (-(-v * 16384 // 15625), 'MB'), lambda v: (-(-v * 16384 // 15625), 'mb'),
             lambda v: (-(-v * 2048 // 1953125), 'GB') if v >= 954 else (v, 'M')]
CPU_SPELL = [lambda v: (v, '%'), lambda v: (v, '')]


BIG_SPELL = [lambda v: (v, 'M'), lambda v: (v, 'm'),
             lambda v: (v // 1024, 'G') if v % 1024 == 0 else (v, 'M'),
             lambda v: (v // 1048576, 'T') if v % 1048576 == 0 else (v, 'M'),
             lambda v: (v // 1048576, 't') if v % 1048576 == 0 else (v, 'm')]


def _mem_spell(v, rng):
    # (large quantities: only spellings whose arithmetic stays below 2^31 in TLC)
    return rng.choice(BIG_SPELL if v >= 100000 else MEM_SPELL)(v)


def spell(vec, rng):
    """[mem MB, cpu %, disk MB] -> ([ [mantissa, suffix] x3 ], resource doc)."""
    m = _mem_spell(vec[0], rng)
    c = rng.choice(CPU_SPELL)(vec[1])
    d = _mem_spell(vec[2], rng)
    doc = {'memory': '%d%s' % m, 'cpu': ('%d%s' % c) if c[1] else c[0], 'disk': '%d%s' % d}
    return [list(m), list(c), list(d)], doc


def bits(mask):
    return [i for i in range(0, 16) if mask & (1 << i)]


def cap_doc(cap):
    return {'memory': '%dM' % cap[0], 'cpu': '%d%%' % cap[1], 'disk': '%dM' % cap[2]}


class World:
    """scn: dict(
         racks {rack:[servers]}, partitions [labels beyond _default], traits [names],
         sprofiles [ {cap:[m,c,d], label, traits} ], server_init {s: profile idx (0 = not created)},
         allocsets [ allocations docs ], aprofiles [ manifest dicts + 'name' (proid.app) ],
         groups {name: count} )"""

    def __init__(self, scn):
        self.scn = scn
        self.v = VClock()
        shim = _TimeShim(self.v)
        counter = iter(range(1, 10 ** 9))
        base = scheduler._GLOBAL_ORDER_BASE
        # every created instance gets its own microsecond (DESIGN.md 4.6)
        order = lambda: int(self.v.time() * 1000000) - base + next(counter)  # noqa: E731
        self._patches = [mock.patch.object(scheduler, 'time', shim),
                         mock.patch.object(loader_mod, 'time', shim),
                         mock.patch.object(master_mod, 'time', shim),
                         mock.patch.object(scheduler, 'DIMENSION_COUNT', 3),
                         mock.patch.object(scheduler, '_global_order', order),
                         mock.patch('treadmill.trace.post_zk', lambda *a, **k: None)]
        for p in self._patches:
            p.start()
        try:
            import random as _random
            self.rng = _random.Random(scn.get('seed', 0))
            self.spells = {}         # server / app model name -> spelling used
            self.obs_down = {}       # server -> tick at which its presence was lost
            self.obs_frozen = set()  # servers an administrator froze (and nothing undid since)
            self.plain_down = set()  # servers the master saw lose their presence, untouched since
            self.untracked = set()   # servers deleted / created while watch delivery was deferred
            self.admin_down = set()  # servers an administrator declared down (until up / re-registered)
            self.obs_marks = {}      # instance -> server it was marked for unscheduling on
            self.obs_marks_unknown = set()
            self.queues = []
            self.placement = None
            world = self
            orig_fp = scheduler.Cell._find_placements
            orig_sched = scheduler.Cell.schedule

            def _capture(cell, queue, *rest, **kw):
                world.queues.append([[world.aname(a.name),
                                      (-1 if a.final_rank == scheduler._UNPLACED_RANK
                                       else int(a.final_rank)), bool(a.server)] for a in queue])
                return orig_fp(cell, queue, *rest, **kw)

            def _schedule(cell):
                world.queues = []
                world.placement = orig_sched(cell)
                return world.placement
            for pt in (mock.patch.object(scheduler.Cell, '_find_placements', _capture),
                       mock.patch.object(scheduler.Cell, 'schedule', _schedule)):
                pt.start()
                self._patches.append(pt)
            self.store = zkfake.ZkStore(self.v.time)
            self.admin = zkfake.ZkFakeClient(self.store)
            self.nodes = {}          # server -> its own client (presence session)
            self.names = {}          # model app name -> instance id
            self.ids = {}            # instance id -> model app name
            self.master = None
            self.delivered = {}
            self.exc = None
            self._setup()
        except Exception:
            self.close()
            raise

    def close(self):
        for p in reversed(self._patches):
            p.stop()
        self._patches = []

    # -- static configuration -------------------------------------------
    def _setup(self):
        scn = self.scn
        m = self._new_master()
        m.create_rootns()
        if scn.get('traits'):
            zkutils.put(self.admin, z.TRAITS, list(scn['traits']))
        for label in scn.get('partitions', []):
            zkutils.put(self.admin, z.path.partition(label), {})
        for rack in scn['racks']:
            masterapi.create_bucket(self.admin, rack, None)
            masterapi.cell_insert_bucket(self.admin, rack)
        self.sparent = {s: r for r, ss in scn['racks'].items() for s in ss}
        for g, n in scn.get('groups', {}).items():
            masterapi.update_identity_group(self.admin, g, n)
        masterapi.update_allocations(self.admin, scn['allocsets'][0])
        for s, idx in scn['server_init'].items():
            if idx:
                self._create_server(s, idx)
                self._node_up(s, idx)
        # events created by the static setup are consumed by the first load
        for ev in self.admin.get_children(z.EVENTS):
            self.admin.delete(z.path.event(ev))
        self.start_master()

    def _new_master(self):
        backend = zkbackend.ZkBackend(zkfake.ZkFakeClient(self.store))
        return master_mod.Master(backend, 'cell', None, None)

    def start_master(self):
        """What run_loop does before entering the loop (without real watchers)."""
        self.master = None
        self.deferred = False
        self.loaded_ok = False
        m = self._new_master()
        m.load_model()
        self.loaded = self.project(m)
        self.loaded_ok = True
        self.loaded_sched = project_sched(self, m)
        self.placement = None
        m.init_schedule()
        self.init_queues, self.init_placement = self.queues, self.placement
        m.check_placement_integrity()
        for path in WATCHED:
            m.process_complete[path] = threading.Event()
            self.delivered[path] = sorted(self.admin.get_children(path))
        self.master = m
        # a new master has read every record as it is now
        for name in list(self.spells):
            if name in self.scn['server_init'] and len(self.spells[name]) > 1:
                self.spells[name] = self.spells[name][-1:]
        self.plain_down = {s for s in self.scn['server_init'] if s not in self.nodes}
        # (not the servers a still undelivered server_state event names: once it is
        # processed they may be frozen, and a frozen server is not reloaded)
        for ev in self.admin.get_children(z.EVENTS):
            if '-server_state-' in ev:
                try:
                    data = zkutils.get(self.admin, z.path.event(ev))
                    self.plain_down.discard(data[0])
                except Exception:   # pylint: disable=broad-except
                    pass
        for s in self.untracked:
            if not self.admin.exists(z.path.server(s)):
                self.spells.pop(s, None)
        self.untracked = set()

    # -- producers --------------------------------------------------------
    def _create_server(self, s, idx):
        sp = self.scn['sprofiles'][idx - 1]
        masterapi.create_server(self.admin, s, self.sparent[s], sp['label'])

    def _node_up(self, s, idx):
        """Node registration: capacity/traits record + ephemeral presence node."""
        sp = self.scn['sprofiles'][idx - 1]
        data = zkutils.get(self.admin, z.path.server(s)) or {}
        sp_spell, doc = spell(sp['cap'], self.rng)
        sp_spell = sp_spell + [sorted(sp.get('traits', []))]     # 4th element: the traits it reports
        # the spellings the master may legitimately hold: a registration it is told
        # about at once (presence watch -> reload_server), or that a new master will
        # read, supersedes the earlier ones; one that arrives while watch delivery
        # is deferred may go unnoticed (the presence listing looks unchanged)
        # (chronological; a registration the master is bound to read - it saw the
        # server plainly go down, so the presence watch makes it reload the record,
        # or a new master loads everything - supersedes the earlier ones; a frozen
        # server, or one whose loss went unnoticed, is not reloaded)
        self.spells.setdefault(s, [])
        if sp_spell in self.spells[s]:
            self.spells[s].remove(sp_spell)
        self.spells[s].append(sp_spell)
        told = (self.master is not None and not getattr(self, 'deferred', False)
                and s in getattr(self, 'plain_down', set()))
        if told:
            self.spells[s] = [sp_spell]
        getattr(self, 'plain_down', set()).discard(s)
        self.admin_down.discard(s)
        data.update(doc)
        data['traits'] = list(sp.get('traits', []))
        data['up_since'] = int(self.v.time())
        zkutils.update(self.admin, z.path.server(s), data)
        client = zkfake.ZkFakeClient(self.store)
        self.nodes[s] = client
        zkutils.put(client, z.path.server_presence(s), {'seen': False}, ephemeral=True)
        self.obs_down.pop(s, None)

    def ev_CreateApp(self, a, p):
        prof = dict(self.scn['aprofiles'][p - 1])
        if not hasattr(self, 'profile_of'):
            self.profile_of = {}
        self.profile_of[a] = dict(prof)
        name = prof.pop('name')
        old_spell = self.spells.get(a)
        if 'demand' in prof:
            sp_spell, doc = spell(prof.pop('demand'), self.rng)
            self.spells[a] = [sp_spell]
            prof.update(doc)
        ids = masterapi.create_apps(self.admin, name, prof, 1)
        if a in self.names:
            # the model name is re-used for a NEW instance: the previous instance
            # (another ZooKeeper id) keeps a name of its own in every projection
            old = self.names[a]
            self.gen = getattr(self, 'gen', 0) + 1
            self.ids[old] = '%s~%d' % (a, self.gen)
            if old_spell is not None:
                self.spells[self.ids[old]] = old_spell
        self.names[a] = ids[0]
        self.ids[ids[0]] = a
        self.obs_marks.pop(a, None)
        self.obs_marks_unknown.discard(a)

    def ev_DeleteApp(self, a):
        masterapi.delete_apps(self.admin, [self.names[a]])

    def ev_SetPrio(self, a, prio):
        masterapi.update_app_priorities(self.admin, {self.names[a]: prio})

    def _lagging(self):
        return self.master is not None and getattr(self, 'deferred', False)

    def ev_CreateServer(self, s, idx):
        self.obs_frozen.discard(s)
        self._create_server(s, idx)
        zero = [[0, 'M'], [0, '%'], [0, 'M'], []]
        if self._lagging():
            # the master still holds what it read before: not judged until the
            # `servers` event has been delivered
            self.untracked.add(s)
            self.spells[s] = self.spells.get(s, []) + [zero]
        else:
            self.spells[s] = [zero]

    def ev_NodeUp(self, s, idx):
        self._node_up(s, idx)

    def ev_NodeDown(self, s):
        client = self.nodes.pop(s)
        self.store.expire(client.session)
        # observer: the server is down from now on (until it registers again or an
        # administrator overrides its state)
        # (only what a live master could have seen: a new master takes the time
        # recorded in the placement node, or its own start)
        # (and only when the master learns of it now: with watch delivery deferred
        # it dates the loss from when it processes the event)
        if (self.master is not None and not getattr(self, 'deferred', False)
                and s not in self.admin_down):
            # (a server an administrator already declared down has been down since then)
            self.obs_down[s] = self.v.ticks
            self.plain_down.add(s)
        self.obs_frozen.discard(s)      # the state record becomes "down"

    def ev_Blackout(self, s):
        """A node (or an administrator) blacks the server out: /blackedout.servers/<s>."""
        zkutils.ensure_exists(self.admin, z.path.blackedout_server(s))

    def ev_ClearBlackout(self, s):
        zkutils.ensure_deleted(self.admin, z.path.blackedout_server(s))

    def ev_EmptyServer(self, s):
        """The first half of masterapi.create_server (the node exists, nothing written
        into it yet) after a delete: what a master reads if it looks in between."""
        masterapi.delete_server(self.admin, s)
        zkutils.ensure_exists(self.admin, z.path.server(s))
        if self._lagging():
            self.untracked.add(s)
        else:
            self.spells.pop(s, None)
        self.obs_frozen.discard(s)

    def ev_SetCapacity(self, s, idx):
        """An administrator rewrites the server's capacity (masterapi.update_server_capacity:
        a `servers` event), whether the node is up or not."""
        sp = self.scn['sprofiles'][idx - 1]
        if not self.admin.exists(z.path.server(s)):
            return
        sp_spell, doc = spell(sp['cap'], self.rng)
        masterapi.update_server_capacity(self.admin, s, memory=doc['memory'], cpu=doc['cpu'],
                                         disk=doc['disk'])
        # (no presence change: the master reloads the record because of the event; the
        # traits of the record are untouched)
        old = self.spells.get(s) or []
        traits = old[-1][3] if old and len(old[-1]) >= 4 else []
        entry = sp_spell + [traits]
        if self._lagging() or self.master is None:
            self.spells[s] = [e for e in old if e != entry] + [entry]
            if self._lagging():
                self.untracked.add(s)
        else:
            self.spells[s] = [entry]

    def ev_SetParent(self, s, bucket):
        """An administrator re-parents a server (a `servers` event); the bucket may be
        one that was never defined."""
        masterapi.update_server_parent(self.admin, s, bucket)

    def ev_DetachRack(self, r):
        """An administrator takes a bucket out of the cell (its servers stay defined)."""
        masterapi.cell_remove_bucket(self.admin, r)

    def ev_AttachRack(self, r):
        masterapi.cell_insert_bucket(self.admin, r)

    def ev_SetPartition(self, s, label):
        masterapi.update_server_attrs(self.admin, s, label)

    def ev_DeleteServer(self, s):
        masterapi.delete_server(self.admin, s)
        if self._lagging():
            self.untracked.add(s)
        else:
            self.spells.pop(s, None)
        self.obs_frozen.discard(s)

    def ev_ServerState(self, s, state, apps):
        self.obs_down.pop(s, None)      # an administrator's word overrides the observer
        self.plain_down.discard(s)
        if state == 'down':
            self.admin_down.add(s)
        else:
            self.admin_down.discard(s)
        if (state == 'frozen' and self.master is not None and s in self.nodes
                and not getattr(self, 'deferred', False)
                and self.admin.exists(z.path.server(s))):
            # (recorded only when nothing can reorder it: live master, registered
            # node, immediate delivery; otherwise the observer stays silent)
            self.obs_frozen.add(s)
        else:
            self.obs_frozen.discard(s)
        if state == 'frozen':
            # observer: an instance is marked for unscheduling FOR the server it is on
            # when the request is processed (only knowable when it is processed at once)
            for a in apps:
                inst = self.names.get(a)
                if inst is None:
                    continue
                if self.master is None or getattr(self, 'deferred', False):
                    self.obs_marks_unknown.add(a)
                else:
                    app = self.master.cell.apps.get(inst)
                    if app is not None and app.server == s:
                        self.obs_marks[a] = s
        masterapi.update_server_state(self.admin, s, state,
                                      [self.names[a] for a in apps if a in self.names])

    def ev_SetGroup(self, g, n):
        masterapi.update_identity_group(self.admin, g, n)

    def ev_DelGroup(self, g):
        masterapi.delete_identity_group(self.admin, g)

    def ev_SetAllocs(self, k):
        masterapi.update_allocations(self.admin, self.scn['allocsets'][k - 1])
        self.allocset = k

    def decl_allocs(self):
        """Parameters of the allocations as the current /allocations document
        DECLARES them (rank, adjustment, reserved capacity, utilisation cap,
        partition): an independent re-statement, keyed like the projection."""
        def mb(x):
            x = str(x)
            return int(x[:-1]) * {'M': 1, 'G': 1024, 'T': 1048576}[x[-1].upper()]
        doc = self.scn['allocsets'][getattr(self, 'allocset', 1) - 1]
        out = {}
        for obj in doc:
            mu = obj.get('max_utilization')
            out['%s:%s' % (obj['partition'], obj['name'].replace(':', '/'))] = dict(
                rank=int(obj['rank']), adj=int(obj.get('rank_adjustment') or 0),
                reserved=[mb(obj['memory']), int(str(obj['cpu']).rstrip('%')), mb(obj['disk'])],
                maxutil=-1 if mu is None else int(mu), label=obj['partition'])
        return out

    def oprio(self):
        """Priority each scheduled instance is DECLARED to have: the manifest's own
        priority when it carries one (-1 = unset), else that of the first matching
        assignment, else 1 (independent re-statement of the rule)."""
        import fnmatch
        doc = self.scn['allocsets'][getattr(self, 'allocset', 1) - 1]
        out = {}
        for a, inst in self.names.items():
            path = z.path.scheduled(inst)
            if path not in self.store.nodes:
                continue
            try:
                man = json.loads(self.store.nodes[path].data.decode() or '{}') or {}
            except ValueError:
                man = {}
            prio = None
            if 'priority' in man and int(man['priority']) != -1:
                prio = int(man['priority'])
            if prio is None:
                prio = 1
                done = False
                for obj in doc:
                    for asg in obj.get('assignments', []):
                        pat = asg['pattern']
                        key = pat[0:pat.find('.')]
                        if key == inst[0:inst.find('.')] and fnmatch.fnmatchcase(inst, pat + '#*'):
                            prio = int(asg['priority'])
                            done = True
                            break
                    if done:
                        break
            out[a] = prio
        return out

    def declared(self):
        """Partition each scheduled instance is assigned to by the allocations
        document in force (independent re-statement of the assignment rule:
        first matching pattern of the proid's assignments, else _default)."""
        import fnmatch
        doc = self.scn['allocsets'][getattr(self, 'allocset', 1) - 1]
        out = {}
        for a, inst in self.names.items():
            label = '_default'
            done = False
            for obj in doc:
                for asg in obj.get('assignments', []):
                    pat = asg['pattern']
                    key = pat[pat.find('@') + 1:pat.find('.')] if '@' in pat else pat[0:pat.find('.')]
                    if key == inst[0:inst.find('.')] and fnmatch.fnmatchcase(inst, pat + '#*'):
                        label = obj.get('partition') or '_default'
                        done = True
                        break
                if done:
                    break
            out[a] = label
        return out

    def decl_apps(self):
        """What each scheduled instance DECLARES in its manifest, restated
        independently of loader.load_app from the profile the harness submitted:
        retention / lease in seconds (s, m, h, d suffixes), schedule-once,
        identity group, affinity and its limits, whether it is blacklisted by the
        patterns in force.  (Demand, priority and partition have observers of
        their own: spells, oprio, declared.)"""
        import fnmatch
        scale = {'s': 1, 'm': 60, 'h': 3600, 'd': 86400}

        def secs(v, dflt):
            if v is None:
                return dflt
            v = str(v).strip().lower()
            return int(v[:-1]) * scale[v[-1]]
        out = {}
        for a, inst in self.names.items():
            if z.path.scheduled(inst) not in self.store.nodes:
                continue
            prof = self.profile_of.get(a)
            if prof is None:
                continue
            base = inst.split('#')[0]
            # traits the instance must find on its server: its own + those of the
            # allocation the assignment rule gives it
            atraits = []
            doc = self.scn['allocsets'][getattr(self, 'allocset', 1) - 1]
            done = False
            for obj in doc:
                for asg in obj.get('assignments', []):
                    pat = asg['pattern']
                    if pat[0:pat.find('.')] == inst[0:inst.find('.')] and fnmatch.fnmatchcase(inst, pat + '#*'):
                        atraits = list(obj.get('traits', []))
                        done = True
                        break
                if done:
                    break
            known = set(self.scn.get('traits') or [])
            for sp in self.scn['sprofiles']:
                known |= set(sp.get('traits', []))
            own = [t if t in known else 'invalid' for t in prof.get('traits', [])]
            out[a] = dict(
                traits=sorted(set(own) | set(atraits)),
                retention=secs(prof.get('data_retention_timeout'), -1),
                lease=secs(prof.get('lease'), 0),
                once=bool(prof.get('schedule_once')),
                group=prof.get('identity_group') or '',
                aff=prof.get('affinity') or '',
                limits={k: int(v) for k, v in (prof.get('affinity_limits') or {}).items()},
                blacklisted=any(fnmatch.fnmatch(base, pat) for pat in getattr(self, 'blackpats', [])))
        return out

    def ev_Blacklist(self, patterns):
        self.blackpats = list(patterns)
        zkutils.put(self.admin, z.BLACKEDOUT_APPS, list(patterns))
        masterapi.create_event(self.admin, 0, 'apps_blacklist', None)

    def ev_Running(self, a):
        """The node reports the instance running (ephemeral /running/<instance>)."""
        inst = self.names.get(a)
        if inst is None:
            return
        client = self.admin
        path = z.path.running(inst)
        if path not in self.store.nodes:
            zkutils.put(client, path, 'host', ephemeral=True)

    def ev_Stopped(self, a):
        inst = self.names.get(a)
        if inst is not None:
            zkutils.ensure_deleted(self.admin, z.path.running(inst))

    def ev_Integrity(self):
        """The master's periodic check_integrity() (_check_pending_start)."""
        self.master.check_integrity()
        # the master may freeze a server and mark instances itself (instances that do
        # not start): marks the environment did not give are taken from the code
        for inst, app in self.master.cell.apps.items():
            if app.unschedule and self.aname(inst) not in self.obs_marks:
                self.obs_marks_unknown.add(self.aname(inst))

    def ev_Tick(self, n):
        self.v.ticks += n

    def ev_Cycle(self):
        self.master.reschedule()
        try:
            self.master.check_placement_integrity()
        except AssertionError as err:
            if 'integrity' not in str(err):
                raise
            # the master found its own placement inconsistent: the state it leaves is
            # still projected and judged; the process then exits (exit_on_unhandled)
            self.die_after_line = True

    def ev_StaleCycle(self):
        """A cycle while watch events are still in flight (run_loop schedules after
        at most _EVENT_BATCH_COUNT events, whatever is still queued), followed by
        the integrity check as in run_loop.  A live master that fails its check
        exits: it is down from here on (not an error of the step)."""
        self.master.reschedule()
        try:
            self.master.check_placement_integrity()
        except AssertionError as err:
            if 'integrity' not in str(err):
                raise
            self.master = None
            self.died = True

    def ev_StaleCrashCycle(self, k):
        self.ev_CrashCycle(k)
        if not self.crashed and self.master is not None:
            # the publication completed: run_loop goes on to the integrity check
            try:
                self.master.check_placement_integrity()
            except AssertionError as err:
                if 'integrity' not in str(err):
                    raise
                self.master = None
                self.died = True

    def ev_Kill(self):
        self.master = None

    def ev_DeliverPath(self, key):
        """Only the watch of one path fires."""
        path = {'scheduled': z.SCHEDULED, 'presence': z.SERVER_PRESENCE, 'events': z.EVENTS}[key]
        was = getattr(self, 'deferred', False)
        self.deferred = False
        try:
            self.deliver(only=path)
        finally:
            self.deferred = was

    def ev_Restart(self):
        self.start_master()

    def ev_CrashCycle(self, k):
        """reschedule() dies at its k-th storage write (k beyond the number of
        writes: the cycle completes, nothing crashes)."""
        self.store.fail_at = self.store.writes + k
        try:
            self.master.reschedule()
            self.crashed = False
        except zkfake.InjectedCrash:
            self.crashed = True
            self.master = None
        finally:
            self.store.fail_at = None

    def ev_FaultCycle(self, k):
        """reschedule() meets a storage error (an ordinary exception, e.g. a lost
        connection) at its k-th write: the master process ends on it."""
        self.store.fail_at = self.store.writes + k
        self.store.fail_exc = kazoo.exceptions.ConnectionLoss
        try:
            self.master.reschedule()
            self.crashed = False
        except (zkfake.InjectedCrash, kazoo.exceptions.ConnectionLoss):
            self.crashed = True
            self.master = None
        finally:
            self.store.fail_at = None
            self.store.fail_exc = None

    def ev_CrashRestart(self, k):
        """a starting master dies at the k-th storage write of start-up."""
        self.store.fail_at = self.store.writes + k
        try:
            self.start_master()
            self.crashed = False
        except zkfake.InjectedCrash:
            self.crashed = True
            self.master = None
        finally:
            self.store.fail_at = None

    # -- watch delivery ------------------------------------------------------
    def ev_Defer(self):
        """Watch events pile up (the master is busy) until Deliver."""
        self.deferred = True

    def ev_Deliver(self):
        self.deferred = False
        self.deliver()
        self._retrack()

    def _retrack(self):
        """Everything is delivered: the `servers` events made the master re-read
        the records of the servers deleted / created meanwhile."""
        if self.master is None:
            return
        for s in sorted(self.untracked):
            if self.admin.exists(z.path.server(s)) and self.spells.get(s):
                self.spells[s] = self.spells[s][-1:]
            else:
                self.spells.pop(s, None)
        self.untracked = set()

    def deliver(self, only=None):
        if self.master is None or getattr(self, 'deferred', False):
            return
        process = master_mod.Master.process.__wrapped__
        for _ in range(10):
            changed = False
            order = list(WATCHED)
            self.rng.shuffle(order)     # watches fire independently: no order between paths
            if only is None:
                keys = {z.SCHEDULED: 'scheduled', z.SERVER_PRESENCE: 'presence', z.EVENTS: 'events'}
                self.order += [keys[p] for p in order if p in keys]
            for path in order:
                if only is not None and path != only:
                    continue
                kids = sorted(self.admin.get_children(path))
                if kids != self.delivered.get(path):
                    self.delivered[path] = kids
                    process(self.master, (path, kids))
                    changed = True
            if not changed:
                return

    def apply(self, ev, args):
        self.v.step()
        self.die_after_line = False
        self.died = False
        self.noop = False
        self.order = []
        if self.master is None and ev in ('Cycle', 'StaleCycle', 'CrashCycle', 'StaleCrashCycle', 'FaultCycle',
                                          'Integrity', 'Kill'):
            self.noop = True        # the master is down (it failed its own check): nothing runs
            self.crashed = False
            return
        if ev in ('Cycle', 'CrashCycle', 'FaultCycle', 'Integrity') and getattr(self, 'deferred', False):
            self.deferred = False
            self.deliver()      # the loop drains its queue before it schedules
            self._retrack()
        getattr(self, 'ev_' + ev)(*args)
        if ev not in ('Cycle', 'Restart', 'CrashCycle', 'CrashRestart', 'Tick', 'Integrity', 'Defer', 'Deliver', 'StaleCycle',
                      'StaleCrashCycle', 'Kill', 'DeliverPath', 'FaultCycle'):
            self.deliver()

    # -- projections ---------------------------------------------------------
    def aname(self, inst):
        return self.ids.get(inst, inst)

    def project_store(self):
        pl = {}
        nodes = self.store.nodes
        for s in self.store.children(z.PLACEMENT):
            spath = z.path.placement(s)
            rec = {}
            try:
                rec = json.loads(nodes[spath].data.decode()) if nodes[spath].data else {}
            except ValueError:
                rec = {}
            apps = {}
            for inst in self.store.children(spath):
                raw = nodes[spath + '/' + inst].data
                try:
                    d = json.loads(raw.decode()) if raw else {}
                except ValueError:
                    d = {}
                if not isinstance(d, dict):
                    d = {}
                ident = d.get('identity')
                apps[self.aname(inst)] = dict(
                    identity=-1 if ident is None else int(ident),
                    expires=relms(d.get('expires')), ctime=int(nodes[spath + '/' + inst].ctime - T0 * 1000))
            pl[s] = dict(state=(rec or {}).get('state', ''), since=relms((rec or {}).get('since')),
                         apps=apps)
        presence = {}
        for s in self.store.children(z.SERVER_PRESENCE):
            presence[s] = int(nodes[z.path.server_presence(s)].ctime - T0 * 1000)
        records = sorted(s for s in self.store.children(z.SERVERS) if nodes[z.path.server(s)].data
                         and nodes[z.path.server(s)].data not in (b'{}', b'null'))
        sched = sorted(self.aname(i) for i in self.store.children(z.SCHEDULED))
        running = sorted(self.aname(i) for i in self.store.children(z.RUNNING))
        # servers a master must make part of its cell when it loads the store: a record
        # with data whose parent bucket is defined and attached to the cell
        incell = set(self.store.children(z.CELL))
        defined = set(self.store.children(z.BUCKETS))
        loadable = []
        for s in records:
            try:
                data = yaml.safe_load(nodes[z.path.server(s)].data.decode()) or {}
            except Exception:   # pylint: disable=broad-except
                data = {}
            par = data.get('parent') if isinstance(data, dict) else None
            if par in defined and par in incell:
                loadable.append(s)
        return dict(placement=pl, presence=presence, records=records, scheduled=sched,
                    running=running, loadable=loadable)

    def project_lag(self):
        """The abstract state MasterLag.tla talks about."""
        nodes = self.store.nodes
        servers = sorted(self.scn['server_init'])
        pl, rec = {}, {}
        for s in servers:
            sp = z.path.placement(s)
            pl[s] = sorted(self.aname(i) for i in self.store.children(sp)) if sp in nodes else []
            node = nodes.get(z.path.server(s))
            if node is None:
                rec[s] = 'no'
            else:
                try:
                    data = yaml.safe_load(node.data.decode()) if node.data else {}
                except Exception:   # pylint: disable=broad-except
                    data = {}
                rec[s] = 'data' if isinstance(data, dict) and 'memory' in data else 'bare'
        m = self.master
        out = dict(pl=pl, rec=rec, pres=sorted(self.store.children(z.SERVER_PRESENCE)),
                   sched=sorted(self.aname(i) for i in self.store.children(z.SCHEDULED)),
                   alive=m is not None, srv=[], up=[], apps=[], placed={}, cap={})
        if m is not None:
            out['srv'] = sorted(m.servers)
            out['up'] = sorted(s for s, srv in m.servers.items() if srv.state is scheduler.State.up)
            out['apps'] = sorted(self.aname(a) for a in m.cell.apps)
            out['placed'] = {self.aname(a): (app.server or '') for a, app in m.cell.apps.items()}
            out['cap'] = {s: int(any(x > 0 for x in srv.init_capacity)) for s, srv in m.servers.items()}
        return out

    def project(self, m=None):
        m = m or self.master
        if m is None:
            return dict(alive=False, servers={}, apps={}, groups={})
        servers = {}
        for s, srv in m.cell.members().items():
            servers[s] = dict(
                state=srv.state.value, since=relms(srv.get_state()[1]),
                label=sorted(x for x in srv.labels if x)[0] if srv.labels else '',
                cap=[int(x) for x in srv.init_capacity], free=[int(x) for x in srv.free_capacity],
                traits=bits(srv.traits.traits),
                apps=sorted(self.aname(x) for x in srv.apps))
        apps = {}
        for inst, app in m.cell.apps.items():
            apps[self.aname(inst)] = dict(
                server=app.server or '', identity=-1 if app.identity is None else int(app.identity),
                expiry=relms(app.placement_expiry), group=app.identity_group or '',
                demand=[int(x) for x in app.demand], prio=int(app.priority),
                label=(app.allocation.label if app.allocation is not None and app.allocation.label else ''),
                traits=bits(app.traits), once=bool(app.schedule_once), evicted=bool(app.evicted),
                blacklisted=bool(app.blacklisted), lease=int(app.lease),
                unschedule=bool(app.unschedule))
        groups = {g: dict(count=int(ig.count), available=sorted(int(x) for x in ig.available))
                  for g, ig in m.cell.identity_groups.items()}
        pending = {self.aname(i): [d['servername'], relms(d['since'])]
                   for i, d in m.pending_start.items()}
        return dict(alive=True, servers=servers, apps=apps, groups=groups, pending=pending)


def project_sched(w, m=None):
    """The master's Cell in the scheduler trace format (sched_l1.project_cell)."""
    m = m or w.master
    if m is None:
        return None
    buckets = dict(m.buckets)
    buckets['cell'] = m.cell
    # (the level a bucket id DECLARES - the text before the first colon - not the
    # one the loader derived from it)
    blevel = {b: (b.split(':')[0] if ':' in b else (bk.level or 'rack')) for b, bk in buckets.items()}
    bparent = {b: (bk.parent.name if bk.parent is not None else '') for b, bk in buckets.items()}
    bparent['cell'] = ''
    # the cell bucket is called by the cell name in parent links
    for b, par in list(bparent.items()):
        if par == m.cell.name:
            bparent[b] = 'cell'
    allocs = {}

    def walk(label, alloc, path):
        allocs['%s:%s' % (label, '/'.join(path))] = alloc
        for n, sub in alloc.sub_allocations.items():
            walk(label, sub, path + [n])
    for label, part in m.cell.partitions.items():
        walk(label, part.allocation, [])
    codes = dict(m.trait_codes)

    def traitsf(mask):
        return sorted(n for n, b in codes.items() if mask & b)
    order0 = int(T0 * 1000000) - int(scheduler._GLOBAL_ORDER_BASE)
    st = sched_l1.project_cell(m.cell, m.servers, buckets, blevel, bparent, allocs, w.v.ticks,
                               rels, traitsf, order0, rename=w.aname)
    for s, srv in st['servers'].items():
        if srv['parent'] == m.cell.name:
            srv['parent'] = 'cell'
    return st


def replay(scn, history):
    """Returns trace lines: ev, args, store (projection of ZooKeeper), model
    (projection of Master.cell), for Restart also `loaded` (model right after
    load_model()), for Crash* `crashed`; exceptions of the code as `exc`."""
    w = World(scn)
    lines = []
    try:
        lines.append(dict(ev='Init', args=[], **(dict(obs=w.project_lag()) if scn.get('lag') else {}),
                          store=w.project_store(), model=w.project(),
                          loaded=w.loaded, clock=relms(w.v.time()), post=project_sched(w),
                          spells=dict(w.spells)))
        expanded = []
        for ev, args in history:
            if ev == 'Probe':       # C02 at L2: submit one instance to a (hopefully) quiescent cell
                expanded.append(('CreateApp', list(args), ''))
                expanded.append(('Cycle', [], args[0]))
            else:
                expanded.append((ev, args, None))
        quiet = False
        for ev, args, probe in expanded:
            line = dict(ev=ev, args=list(args))
            pre_store = w.project_store() if ev in ('Restart', 'CrashRestart') else None
            try:
                w.apply(ev, args)
            except Exception as e:  # pylint: disable=broad-except
                import traceback
                line['exc'] = '%s: %s' % (type(e).__name__, e)
                line['tb'] = traceback.format_exc()[-600:]
                w.master = None
            line['store'] = w.project_store()
            line['model'] = w.project()
            if scn.get('lag'):
                line['obs'] = w.project_lag()
                line['order'] = list(getattr(w, 'order', []))
            line['clock'] = relms(w.v.time())
            post = project_sched(w) if 'exc' not in line else None
            if post is not None:
                line['post'] = post
                line['spells'] = {k: v for k, v in w.spells.items() if k not in w.untracked}
                line['obs_down'] = {k: v for k, v in w.obs_down.items() if w.master is not None}
                line['obs_frozen'] = sorted(w.obs_frozen)
                line['obs_marks'] = dict(w.obs_marks)
                line['obs_marks_unknown'] = sorted(w.obs_marks_unknown)
                if ev == 'Cycle' and w.placement is not None:
                    if probe:
                        line['probe'] = probe
                        line['quiet'] = bool(quiet)
                    quiet = all(p[1] == p[3] and p[2] == p[4] for p in w.placement)
                    line['declared'] = w.declared()
                    line['oprio'] = w.oprio()
                    line['decl_apps'] = w.decl_apps()
                    line['decl_allocs'] = w.decl_allocs()
                    line['queues'] = w.queues
                    line['placement'] = [[w.aname(n), b or '', rels(eb), a or '', rels(ea)]
                                         for n, b, eb, a, ea in w.placement]
            if ev in ('Restart', 'CrashRestart'):
                # what load_model() rebuilt is judged (C11) also when the start-up
                # fails later on (init_schedule / integrity check)
                line['loaded'] = (w.loaded if ('exc' not in line or getattr(w, 'loaded_ok', False))
                                  else dict(alive=False, servers={}, apps={}, groups={}))
                line['prestore'] = pre_store
                # traits as DECLARED: by the manifests / allocation document for the
                # instances, by the one registration a new master reads for the servers
                try:
                    da = w.decl_apps()
                except Exception:   # pylint: disable=broad-except
                    da = {}
                line['decl_traits'] = dict(
                    apps={a: d['traits'] for a, d in da.items() if 'traits' in d},
                    servers={s: v[-1][3] for s, v in w.spells.items()
                             if s in scn['server_init'] and v and len(v[-1]) >= 4
                             and s not in w.untracked})
                if 'exc' not in line and w.master is not None and w.init_placement is not None:
                    # the start-up cycle: pre = the model as loaded, post = after init_schedule
                    line['loaded_sched'] = w.loaded_sched
                    line['declared'] = w.declared()
                    line['oprio'] = w.oprio()
                    line['decl_apps'] = w.decl_apps()
                    line['decl_allocs'] = w.decl_allocs()
                    line['queues'] = w.init_queues
                    line['placement'] = [[w.aname(n), b or '', rels(eb), a or '', rels(ea)]
                                         for n, b, eb, a, ea in w.init_placement]
            if ev in ('CrashCycle', 'CrashRestart', 'StaleCrashCycle', 'FaultCycle'):
                line['crashed'] = bool(getattr(w, 'crashed', False))
            if getattr(w, 'die_after_line', False):
                line['integrity_failed'] = True
                w.master = None
            if getattr(w, 'died', False):
                line['died'] = True
            if getattr(w, 'noop', False):
                line['noop'] = True
            if ev != 'Cycle' and probe is None:
                quiet = False
            lines.append(line)
            if w.master is None and ev not in ('CrashCycle', 'CrashRestart', 'StaleCrashCycle', 'FaultCycle') and 'exc' in line:
                break
    finally:
        w.close()
    return lines


def sched_segments(tid, lines):
    """Cut an L2 trace into segments the scheduler trace spec can judge: maximal
    runs of lines that carry the scheduler-format projection `post`.  Only
    reschedule cycles are judged as Cycle lines (pre = previous line)."""
    segs, cur = [], []
    for k, l in enumerate(lines):
        if 'post' not in l or l['post'] is None:
            if len(cur) > 1:
                segs.append(cur)
            cur = []
            continue
        if 'loaded_sched' in l and l['loaded_sched'] is not None:
            # a (re)started master: new segment = [model as loaded] + [start-up cycle]
            if len(cur) > 1:
                segs.append(cur)
            cur = [dict(ev='Init', args=[], h=k, post=l['loaded_sched']),
                   dict(ev='Cycle', args=[], h=k, post=l['post'], spells=l.get('spells', {}),
                        queues=l['queues'], placement=l['placement'],
                        declared=l.get('declared', {}), oprio=l.get('oprio', {}),
                        decl_apps=l.get('decl_apps', {}), obs_down=l.get('obs_down', {}),
                        decl_allocs=l.get('decl_allocs', {}),
                        obs_marks=l.get('obs_marks', {}), obs_marks_unknown=l.get('obs_marks_unknown', []),
                        obs_frozen=l.get('obs_frozen', []))]
            continue
        if not cur:
            cur.append(dict(ev='Init', args=[], h=k, post=l['post']))
            continue
        is_cycle = l['ev'] == 'Cycle' and 'queues' in l
        line = dict(ev=('ProbeCycle' if 'probe' in l else 'Cycle') if is_cycle else 'L2', args=[], h=k,
                    post=l['post'],
                    spells=l.get('spells', {}), obs_down=l.get('obs_down', {}),
                    obs_marks=l.get('obs_marks', {}), obs_marks_unknown=l.get('obs_marks_unknown', []),
                    obs_frozen=l.get('obs_frozen', []))
        if is_cycle:
            line['queues'] = l['queues']
            line['placement'] = l['placement']
            line['declared'] = l.get('declared', {})
            line['oprio'] = l.get('oprio', {})
            line['decl_apps'] = l.get('decl_apps', {})
            line['decl_allocs'] = l.get('decl_allocs', {})
            if 'probe' in l:
                line['probe'] = l['probe']
                line['quiet'] = l['quiet']
        cur.append(line)
    if len(cur) > 1:
        segs.append(cur)
    return [dict(tid='%s/%d' % (tid, j), kind='l2', scn={}, lines=seg) for j, seg in enumerate(segs)]
