"""Beyond the listed properties: conformance of the real zksync.zk2fs.Zk2Fs to
specs/cell/ZkMirrorOps.tla (a ZooKeeper directory mirrored into the file system
under watch latency).

History = list of events
    ('Create', k, v) ('Set', k, v) ('Delete', k)     another client writes
    ('Deliver',)      the mirror client's oldest undelivered watch notification runs its callback
    ('Stop',) ('Start',)                             the mirror process ends / a new one starts on the old directory
The real class runs on harness/zkfake with `store.deferred` (notifications
queue up in firing order, as on a kazoo client) and a real temporary
directory.  One trace line per event: the projection after it.

run_ext(ctx) -> dict for the evidence (coverage.extensions.zk2fs); every
failed clause is conformance class DRIFT (exit 0), never a violation.
"""
import json
import os
import random
import shutil

from . import core, tlc, zkfake

SPEC_DIR = os.path.join(core.SPECS, 'cell')
KEYS = ['k1', 'k2', 'k3', 'k4']
DIR = '/mirrored'


class Mirror:
    def __init__(self, wd):
        from treadmill.zksync import zk2fs  # the code under test
        self._zk2fs = zk2fs
        self.wd = wd
        self.store = zkfake.ZkStore()
        self.env = zkfake.ZkFakeClient(self.store)
        self.env.ensure_path(DIR)
        self.root = tlc.scratch('verif-zk2fs-')
        self.store.deferred = []
        self.obj = None
        self.up = False
        self.start()

    def close(self):
        shutil.rmtree(self.root, ignore_errors=True)

    def start(self):
        tmp = os.path.join(self.root, '.tmp')
        os.makedirs(tmp, exist_ok=True)
        client = zkfake.ZkFakeClient(self.store)
        self.obj = self._zk2fs.Zk2Fs(client, self.root, tmp)
        self.obj.sync_children(DIR, watch_data=self.wd)
        self.obj.mark_ready()
        self.up = True

    def stop(self):
        # the process and its session are gone: no watch of it survives
        self.store.data_watches.clear()
        self.store.child_watches.clear()
        self.store.deferred = []
        self.obj = None
        self.up = False

    def apply(self, ev):
        kind = ev[0]
        if kind == 'Create':
            self.env.create('%s/%s' % (DIR, ev[1]), b'v%d' % ev[2])
        elif kind == 'Set':
            self.env.set('%s/%s' % (DIR, ev[1]), b'v%d' % ev[2])
        elif kind == 'Delete':
            self.env.delete('%s/%s' % (DIR, ev[1]))
        elif kind == 'Deliver':
            if self.up and self.store.deferred:
                fn, event = self.store.deferred.pop(0)
                fn(event)
        elif kind == 'Stop':
            self.stop()
        elif kind == 'Start':
            self.start()
        else:
            raise ValueError(ev)

    def project(self):
        zk = {}
        for k in KEYS:
            p = '%s/%s' % (DIR, k)
            n = self.store.nodes.get(p)
            zk[k] = int(n.data[1:]) if n is not None else 0
        fsd = {k: 0 for k in KEYS}
        d = os.path.join(self.root, DIR.lstrip('/'))
        for name in os.listdir(d):
            if name.startswith('.'):
                continue
            with open(os.path.join(d, name), 'rb') as f:
                data = f.read()
            # a file whose content is not a value the environment wrote is projected as -1
            fsd[name] = int(data[1:]) if data[:1] == b'v' and data[1:].isdigit() else -1
        watches = sorted(w.rsplit('/', 1)[1] for w in (self.obj.watches if self.obj else ()))
        return dict(zk=zk, fs=fsd, watches=watches, qlen=len(self.store.deferred), up=self.up)


def record(tid, wd, hist):
    m = Mirror(wd)
    try:
        lines = [dict(ev='Init', k='', v=0, post=m.project())]
        for ev in hist:
            exc = ''
            try:
                m.apply(ev)
            except Exception as e:  # pylint: disable=broad-except
                exc = type(e).__name__
            lines.append(dict(ev=ev[0], k=ev[1] if len(ev) > 1 else '', v=ev[2] if len(ev) > 2 else 0,
                              exc=exc, post=m.project()))
        return dict(tid=tid, wd=wd, lines=lines)
    finally:
        m.close()


# ---- two levels: /placement/<server>/<instance> with the callbacks of sproc/zk2fs.py ----------
SRV = ['s1', 's2', 's3']
INS = ['i1', 'i2']
PDIR = '/placement'


class _Died(BaseException):
    """utils.sys_exit called: the mirror process is gone."""


class Mirror2(Mirror):
    def __init__(self, wd=False):         # pylint: disable=super-init-not-called
        # wd: the inner level with watch_data=True, through the /endpoints callbacks of sproc/zk2fs.py
        self.wd = wd
        from treadmill.zksync import zk2fs
        from treadmill.sproc import zk2fs as sproc_zk2fs
        from treadmill import utils
        self._zk2fs, self._sproc, self._utils = zk2fs, sproc_zk2fs, utils
        self.store = zkfake.ZkStore()
        self.env = zkfake.ZkFakeClient(self.store)
        self.env.ensure_path(PDIR)
        self.root = tlc.scratch('verif-zk2fs2-')
        self.store.deferred = []
        self.obj = None
        self.up = False
        self.start()

    def _guard(self, fn):
        def die(_code):
            raise _Died()
        from unittest import mock
        try:
            with mock.patch.object(self._utils, 'sys_exit', die):
                fn()
        except _Died:
            self.stop()

    def start(self):
        tmp = os.path.join(self.root, '.tmp')
        os.makedirs(tmp, exist_ok=True)
        client = zkfake.ZkFakeClient(self.store)
        self.obj = obj = self._zk2fs.Zk2Fs(client, self.root, tmp)
        self.up = True
        sp = self._sproc
        # pylint: disable=protected-access
        add, rem = ((sp._on_add_endpoint_proid, sp._on_del_endpoint_proid) if self.wd
                    else (sp._on_add_placement_server, sp._on_del_placement_server))
        self._guard(lambda: (obj.sync_children(PDIR, on_add=lambda p: add(obj, p), on_del=lambda p: rem(obj, p)),
                             obj.mark_ready()))

    def apply(self, ev):
        kind = ev[0]
        if kind == 'CreateServer':
            self.env.create('%s/%s' % (PDIR, ev[1]), b'')
        elif kind == 'DeleteServer':
            self.env.delete('%s/%s' % (PDIR, ev[1]))
        elif kind == 'CreateInst':
            self.env.create('%s/%s/%s' % (PDIR, ev[1], ev[2]), b'v%d' % ev[3])
        elif kind == 'SetInst':
            self.env.set('%s/%s/%s' % (PDIR, ev[1], ev[2]), b'v%d' % ev[3])
        elif kind == 'DeleteInst':
            self.env.delete('%s/%s/%s' % (PDIR, ev[1], ev[2]))
        elif kind == 'Deliver':
            if self.up and self.store.deferred:
                fn, event = self.store.deferred.pop(0)
                self._guard(lambda: fn(event))
        elif kind == 'Stop':
            self.stop()
        elif kind == 'Start':
            self.start()
        else:
            raise ValueError(ev)

    def project(self):
        zs, zi, fd, ff = {}, {}, {}, {}
        base = os.path.join(self.root, PDIR.lstrip('/'))
        for s in SRV:
            zs[s] = ('%s/%s' % (PDIR, s)) in self.store.nodes
            zi[s], ff[s] = {}, {}
            d = os.path.join(base, s)
            fd[s] = os.path.isdir(d)
            for i in INS:
                n = self.store.nodes.get('%s/%s/%s' % (PDIR, s, i))
                zi[s][i] = int(n.data[1:]) if n is not None else 0
                fp = os.path.join(d, i)
                if os.path.isfile(fp):
                    with open(fp, 'rb') as f:
                        data = f.read()
                    ff[s][i] = int(data[1:]) if data[:1] == b'v' and data[1:].isdigit() else -1
                else:
                    ff[s][i] = 0
        return dict(zs=zs, zi=zi, fd=fd, ff=ff, qlen=len(self.store.deferred), up=self.up)


def record2(tid, hist, wd=False):
    m = Mirror2(wd)
    try:
        lines = [dict(ev='Init', s='', i='', v=0, post=m.project())]
        for ev in hist:
            m.apply(ev)
            lines.append(dict(ev=ev[0], s=ev[1] if len(ev) > 1 else '', i=ev[2] if len(ev) > 2 else '',
                              v=ev[3] if len(ev) > 3 else 0, post=m.project()))
        return dict(tid=tid, lines=lines)
    finally:
        m.close()


def from_labels2(labels):
    hist = []
    for a, args in labels:
        args = [json.loads(x) if isinstance(x, str) and x.startswith('"') else x for x in args]
        if a in ('CreateServer', 'DeleteServer'):
            hist.append((a, args[0]))
        elif a in ('CreateInst', 'SetInst'):
            hist.append((a, args[0], args[1], int(args[2])))
        elif a == 'DeleteInst':
            hist.append((a, args[0], args[1]))
        elif a in ('Deliver', 'Stop', 'Start'):
            hist.append((a,))
    return hist


def gen_random2(rng, n, p_deliver=0.35, p_life=0.03, wd=False):
    zs = {s: False for s in SRV}
    zi = {s: {i: 0 for i in INS} for s in SRV}
    up, hist = True, []
    while len(hist) < n:
        r = rng.random()
        if not up:
            if r < 0.5:
                hist.append(('Start',))
                up = True
            continue
        if r < p_life:
            hist.append(('Stop',))
            up = False
            continue
        if r < p_life + p_deliver:
            hist.append(('Deliver',))
            continue
        s = rng.choice(SRV[:rng.choice([1, 2, 3])])
        if not zs[s]:
            zs[s] = True
            hist.append(('CreateServer', s))
        elif rng.random() < 0.3 and not any(zi[s].values()):
            zs[s] = False
            hist.append(('DeleteServer', s))
        else:
            i = rng.choice(INS)
            if zi[s][i] and wd and rng.random() < 0.5:
                zi[s][i] = rng.choice([v for v in (1, 2, 3) if v != zi[s][i]])
                hist.append(('SetInst', s, i, zi[s][i]))
            elif zi[s][i]:
                zi[s][i] = 0
                hist.append(('DeleteInst', s, i))
            else:
                zi[s][i] = rng.randint(1, 3)
                hist.append(('CreateInst', s, i, zi[s][i]))
    if not up:
        hist.append(('Start',))
    return hist + [('Deliver',)] * 14


def run_ext2(ctx):
    """The two-level mirror (/placement): model check what holds, show what does not, replay, validate."""
    out = dict(spec='specs/cell/ZkMirror2.tla (+ ZkMirror2Ops, ZkMirror2Trace)', model_runs=[], model_gaps=[])
    big = None
    if not ctx.quick:
        text = open(os.path.join(SPEC_DIR, 'MC_ZkMirror2.cfg')).read().replace('MaxEnv = 6', 'MaxEnv = 8')
        big = {'MC_ZkMirror2_big.cfg': text}
    res = tlc.mc(SPEC_DIR, 'ZkMirror2', 'MC_ZkMirror2_big.cfg' if big else 'MC_ZkMirror2.cfg', workers=4 if ctx.quick else 12,
                 coverage=ctx.quick, heap='4g', timeout=120 if ctx.quick else 900, extra_files=big)
    ctx.cmds.append(res['cmd'])
    if res['violated']:
        raise tlc.MachineryError('ZkMirror2.tla violates its own invariant %s' % res['violated'])
    out['model_runs'].append(dict(name='zk2fs two levels', generated=res['generated'], distinct=res['distinct'],
                                  depth=res['depth'], complete=res['ok'],
                                  invariants=['InvDirs', 'InvBackedExact', 'InvArmed', 'InvFilesInDirs']))
    wdres = tlc.mc(SPEC_DIR, 'ZkMirror2', 'MC_ZkMirror2_wd.cfg', workers=4 if ctx.quick else 12, coverage=False,
                   heap='4g', timeout=150 if ctx.quick else 900)
    ctx.cmds.append(wdres['cmd'])
    if wdres['violated']:
        raise tlc.MachineryError('ZkMirror2.tla (watch_data) violates its own invariant %s' % wdres['violated'])
    out['model_runs'].append(dict(name='zk2fs two levels, inner watch_data (/endpoints)', generated=wdres['generated'],
                                  distinct=wdres['distinct'], depth=wdres['depth'], complete=wdres['ok'],
                                  invariants=['InvDirs', 'InvBackedNoExtra', 'InvBackedFresh', 'InvArmed', 'InvFilesInDirs']))
    hists = []
    for name, inv in (('backed', 'InvBacked'), ('complete', 'InvComplete'), ('extra', 'InvNoExtra'), ('death', 'InvNoDeath')):
        gap = tlc.mc(SPEC_DIR, 'ZkMirror2', 'MC_ZkMirror2_%s.cfg' % name, workers=2, coverage=False, heap='2g', timeout=120)
        out['model_gaps'].append(dict(invariant=inv, violated=bool(gap['violated']), steps=len(gap['cex'])))
        if gap['violated']:
            labels = [(a, tlc.tlaval.split_args(b)) for a, b in gap['cex'] if a not in ('Initial', 'Init')]
            hists.append(('cex:' + name, False, from_labels2(labels)))
    text = '\n'.join(l for l in open(os.path.join(SPEC_DIR, 'MC_ZkMirror2.cfg')).read().splitlines()
                     if not l.startswith('INVARIANTS')).replace('MaxEnv = 6', 'MaxEnv = 9')
    bs, cmd = tlc.simulate(SPEC_DIR, 'ZkMirror2', 'MC_ZkMirror2_gen.cfg', num=60 if ctx.quick else 600, depth=16,
                           seed=ctx.seed * 19 + 1, procs=1 if ctx.quick else 4, timeout=120 if ctx.quick else 600,
                           extra_files={'MC_ZkMirror2_gen.cfg': text})
    ctx.cmds.append(cmd)
    hists += [('tlc', False, from_labels2(b)) for b in bs]
    wtext = '\n'.join(l for l in open(os.path.join(SPEC_DIR, 'MC_ZkMirror2_wd.cfg')).read().splitlines()
                      if not l.startswith('INVARIANTS')).replace('MaxEnv = 6', 'MaxEnv = 9')
    wbs, cmd = tlc.simulate(SPEC_DIR, 'ZkMirror2', 'MC_ZkMirror2_wdgen.cfg', num=50 if ctx.quick else 600, depth=16,
                            seed=ctx.seed * 23 + 2, procs=1 if ctx.quick else 4, timeout=120 if ctx.quick else 600,
                            extra_files={'MC_ZkMirror2_wdgen.cfg': wtext})
    ctx.cmds.append(cmd)
    hists += [('tlc:wd', True, from_labels2(b)) for b in wbs]
    rng = random.Random(ctx.seed * 7001 + 13)
    hists += [('rnd', False, gen_random2(rng, rng.choice([12, 25, 40]))) for _ in range(120 if ctx.quick else 1200)]
    hists += [('rnd:wd', True, gen_random2(rng, rng.choice([12, 25, 40]), wd=True)) for _ in range(100 if ctx.quick else 1200)]
    traces = [dict(record2('y%d' % n, h, wd), wd=wd) for n, (_src, wd, h) in enumerate(hists)]
    work = tlc.scratch('verif-zk2fs2-batch-')
    verdicts = []
    try:
        for wd, cfg in ((False, 'ZkMirror2Trace.cfg'), (True, 'ZkMirror2TraceWD.cfg')):
            path = os.path.join(work, 'batch%d.json' % wd)
            with open(path, 'w') as f:
                json.dump(dict(traces=[t for t in traces if t['wd'] == wd]), f)
            vs, stats = tlc.validate(SPEC_DIR, 'ZkMirror2Trace', cfg, path,
                                     timeout=300 if ctx.quick else 1500, heap='4g')
            verdicts += vs
            ctx.cmds.append(stats['cmd'])
    finally:
        shutil.rmtree(work, ignore_errors=True)
    total = sum(len(t['lines']) - 1 for t in traces)
    if len(verdicts) != total:
        raise tlc.MachineryError('zk2fs2: %d verdicts for %d lines' % (len(verdicts), total))
    fails, flags, bad = {}, {}, set()
    for v in verdicts:
        for c in v['fail']:
            if v['tid'] not in bad or c != 'ext.zk2fs2.step':
                fails[c] = fails.get(c, 0) + 1
            bad.add(v['tid'])
        for e in v['ex']:
            flags[e] = flags.get(e, 0) + 1
    for c, n in sorted(fails.items()):
        ctx.log('DRIFT %s: %d step(s) (beyond the listed properties; exit code unaffected)' % (c, n))
    out.update(traces=len(traces), lines=total, sources={s: sum(1 for h in hists if h[0] == s)
                                                         for s in sorted({h[0] for h in hists})},
               drift=fails, exercised=flags)
    ctx.log('ext zk2fs (two levels): %d traces, %d lines, drift %s, flags %s' % (len(traces), total, fails or 0, flags))
    return out


# ---- histories --------------------------------------------------------------
def from_labels(labels):
    hist = []
    for a, args in labels:
        if a in ('Create', 'Set'):
            hist.append((a, json.loads(args[0]) if args[0].startswith('"') else args[0], int(args[1])))
        elif a == 'Delete':
            hist.append((a, json.loads(args[0]) if args[0].startswith('"') else args[0]))
        elif a in ('Deliver', 'Stop', 'Start'):
            hist.append((a,))
    return hist


def gen_random(rng, n, nkeys=4, maxval=3, p_deliver=0.4, p_life=0.04):
    """A legal history: the generator keeps the little state the guards need."""
    keys = KEYS[:nkeys]
    val = {k: 0 for k in keys}
    up = True
    hist = []
    while len(hist) < n:
        r = rng.random()
        if not up:
            if r < 0.5:
                hist.append(('Start',))
                up = True
                continue
        elif r < p_life:
            hist.append(('Stop',))
            up = False
            continue
        elif r < p_life + p_deliver:
            hist.append(('Deliver',))
            continue
        k = rng.choice(keys)
        if val[k] == 0:
            val[k] = rng.randint(1, maxval)
            hist.append(('Create', k, val[k]))
        elif rng.random() < 0.5:
            val[k] = rng.choice([v for v in range(1, maxval + 1) if v != val[k]])
            hist.append(('Set', k, val[k]))
        else:
            val[k] = 0
            hist.append(('Delete', k))
    if not up:
        hist.append(('Start',))
    hist += [('Deliver',)] * 12      # drain: end settled
    return hist


def gen_burst(rng, nkeys=3):
    """Bursts around one node while a children notification is in flight (the model's InvComplete
    counterexample and its neighbours)."""
    keys = KEYS[:nkeys]
    k, other = keys[0], keys[1]
    hist = [('Create', k, 1), ('Deliver',)]
    hist += [('Create', other, 1)]                      # children notification now in flight
    for _ in range(rng.randint(1, 3)):
        hist += rng.choice([[('Delete', k), ('Create', k, rng.randint(1, 3))],
                            [('Set', k, 2), ('Delete', k), ('Create', k, 3)],
                            [('Delete', k)], [('Set', k, rng.randint(2, 3))]]) if True else []
        # keep it legal: repair create/delete alternation below
    legal, present = [], {x: False for x in keys}
    for ev in hist:
        if ev[0] == 'Create' and present[ev[1]]:
            ev = ('Set', ev[1], ev[2] % 3 + 1)
        elif ev[0] in ('Set', 'Delete') and not present[ev[1]]:
            continue
        if ev[0] == 'Create':
            present[ev[1]] = True
        if ev[0] == 'Delete':
            present[ev[1]] = False
        legal.append(ev)
    return legal + [('Deliver',)] * 8


MC_CFGS = [('wd', True), ('nd', False)]


def _mc(name, thorough):
    cfgname = 'MC_ZkMirror_%s.cfg' % name
    extra = None
    if thorough:
        text = open(os.path.join(SPEC_DIR, cfgname)).read()
        text = text.replace('Keys = {"k1", "k2"}', 'Keys = {"k1", "k2", "k3"}').replace('MaxEnv = 5', 'MaxEnv = 6')
        extra = {'MC_ZkMirror_%s_big.cfg' % name: text}
        cfgname = 'MC_ZkMirror_%s_big.cfg' % name
    return tlc.mc(SPEC_DIR, 'ZkMirror', cfgname, workers=4 if not thorough else 12, coverage=not thorough,
                  heap='4g', timeout=120 if not thorough else 900, extra_files=extra)


def run_ext(ctx):
    """Model check, generate, replay, validate.  Returns the evidence dict."""
    out = dict(spec='specs/cell/ZkMirror.tla (+ ZkMirrorOps, ZkMirrorTrace)', model_runs=[])
    thorough = not ctx.quick
    for name, _wd in MC_CFGS:
        res = _mc(name, thorough)
        ctx.cmds.append(res['cmd'])
        if res['violated']:
            raise tlc.MachineryError('ZkMirror.tla (%s) violates its own invariant %s' % (name, res['violated']))
        out['model_runs'].append(dict(name='zk2fs ' + name, generated=res['generated'], distinct=res['distinct'],
                                      depth=res['depth'], complete=res['ok'],
                                      invariants=['InvNoExtra', 'InvFresh', 'InvBacked', 'InvArmed', 'InvOneNote']
                                      + (['InvCompleteNoData'] if name == 'nd' else []),
                                      action_properties=['HealsOnChildRun'],
                                      actions={a: c[0] for a, c in res['coverage'].items()
                                               if a in ('Create', 'Set', 'Delete', 'Deliver', 'Stop', 'Start')}))
    gap = tlc.mc(SPEC_DIR, 'ZkMirror', 'MC_ZkMirror_gap.cfg', workers=4, coverage=False, heap='2g', timeout=120)
    ctx.cmds.append(gap['cmd'])
    out['model_gap'] = dict(invariant='InvComplete', violated=bool(gap['violated']),
                            steps=len(gap['cex']),
                            note='expected: a node re-created while a children notification is in flight loses its '
                                 'file to the old node\'s DELETED notification (observed, not judged)')
    hists = []
    if gap['violated']:
        labels = [(a, tlc.tlaval.split_args(b)) for a, b in gap['cex'] if a not in ('Initial', 'Init')]
        hists.append(('cex:gap', True, from_labels(labels)))
    for name, wd in MC_CFGS:
        text = open(os.path.join(SPEC_DIR, 'MC_ZkMirror_%s.cfg' % name)).read()
        text = '\n'.join(l for l in text.splitlines() if not l.startswith('INVARIANTS'))
        text = text.replace('MaxEnv = 5', 'MaxEnv = 8')
        bs, cmd = tlc.simulate(SPEC_DIR, 'ZkMirror', 'MC_ZkMirror_%s_gen.cfg' % name,
                               num=60 if ctx.quick else 1500, depth=14, seed=ctx.seed * 13 + len(name),
                               procs=1 if ctx.quick else 4, timeout=120 if ctx.quick else 600,
                               extra_files={'MC_ZkMirror_%s_gen.cfg' % name: text})
        ctx.cmds.append(cmd)
        hists += [('tlc:' + name, wd, from_labels(b)) for b in bs]
    rng = random.Random(ctx.seed * 6007 + 11)
    for _ in range(150 if ctx.quick else 4000):
        hists.append(('rnd', rng.random() < 0.6, gen_random(rng, rng.choice([10, 20, 35]))))
    for _ in range(60 if ctx.quick else 1500):
        hists.append(('burst', rng.random() < 0.8, gen_burst(rng)))
    traces = [record('z%d' % n, wd, h) for n, (_src, wd, h) in enumerate(hists)]
    work = tlc.scratch('verif-zk2fs-batch-')
    try:
        path = os.path.join(work, 'batch.json')
        with open(path, 'w') as f:
            json.dump(dict(traces=traces), f)
        verdicts, stats = tlc.validate(SPEC_DIR, 'ZkMirrorTrace', 'ZkMirrorTrace.cfg', path,
                                       timeout=300 if ctx.quick else 1500, heap='4g')
    finally:
        shutil.rmtree(work, ignore_errors=True)
    ctx.cmds.append(stats['cmd'])
    total = sum(len(t['lines']) - 1 for t in traces)
    if len(verdicts) != total:
        raise tlc.MachineryError('zk2fs: %d verdicts for %d lines' % (len(verdicts), total))
    fails = {}
    flags = {}
    bad_traces = set()
    for v in verdicts:
        for c in v['fail']:
            if v['tid'] not in bad_traces or c != 'ext.zk2fs.step':
                fails[c] = fails.get(c, 0) + 1
            bad_traces.add(v['tid'])
        for e in v['ex']:
            flags[e] = flags.get(e, 0) + 1
    for c, n in sorted(fails.items()):
        ctx.log('DRIFT %s: %d step(s) (beyond the listed properties; exit code unaffected)' % (c, n))
    out.update(traces=len(traces), lines=total, sources={s: sum(1 for h in hists if h[0] == s)
                                                         for s in sorted({h[0] for h in hists})},
               drift=fails, exercised=flags,
               note='every recorded step of the real Zk2Fs (zkfake with FIFO watch delivery, real directory) is '
                    're-computed by ZkMirrorOps; flag gap counts settled states of the REAL mirror in which an '
                    'existing node has no file')
    ctx.log('ext zk2fs: %d traces, %d lines, drift %s, flags %s' % (len(traces), total, fails or 0, flags))
    return out
