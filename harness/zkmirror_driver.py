"""Beyond the listed properties: conformance of the real zksync.zk2fs.Zk2Fs to
specs/cell/ZkMirrorOps.tla (a ZooKeeper directory mirrored into the file system
under watch latency).

History = list of events
    ('Create', k, v) ('Set', k, v) ('Delete', k)     another client writes
    ('Deliver',)      the mirror client's oldest undelivered watch notification runs its callback
    ('Stop',) ('Start',)                             the mirror process ends / a new one starts on the old directory
The real class runs on harness/zkfake with `store.deferred` (notifications
queue up in firing order, as on a kazoo client) and a real temporary
directory.  One trace line per event: the projection after it.

run_ext(ctx) -> dict for the evidence (coverage.extensions.zk2fs); every
failed clause is conformance class DRIFT (exit 0), never a violation.
"""
import json
import os
import random
import shutil

from . import core, tlc, zkfake

SPEC_DIR = os.path.join(core.SPECS, 'cell')
KEYS = ['k1', 'k2', 'k3', 'k4']
DIR = '/mirrored'


class Mirror:
    def __init__(self, wd):
        from treadmill.zksync import zk2fs  # the code under test
        self._zk2fs = zk2fs
        self.wd = wd
        self.store = zkfake.ZkStore()
        self.env = zkfake.ZkFakeClient(self.store)
        self.env.ensure_path(DIR)
        self.root = tlc.scratch('verif-zk2fs-')
        self.store.deferred = []
        self.obj = None
        self.up = False
        self.start()

    def close(self):
        shutil.rmtree(self.root, ignore_errors=True)

    def start(self):
        tmp = os.path.join(self.root, '.tmp')
        os.makedirs(tmp, exist_ok=True)
        client = zkfake.ZkFakeClient(self.store)
        self.obj = self._zk2fs.Zk2Fs(client, self.root, tmp)
        self.obj.sync_children(DIR, watch_data=self.wd)
        self.obj.mark_ready()
        self.up = True

    def stop(self):
        # the process and its session are gone: no watch of it survives
        self.store.data_watches.clear()
        self.store.child_watches.clear()
        self.store.deferred = []
        self.obj = None
        self.up = False

    def apply(self, ev):
        kind = ev[0]
        if kind == 'Create':
            self.env.create('%s/%s' % (DIR, ev[1]), b'v%d' % ev[2])
        elif kind == 'Set':
            self.env.set('%s/%s' % (DIR, ev[1]), b'v%d' % ev[2])
        elif kind == 'Delete':
            self.env.delete('%s/%s' % (DIR, ev[1]))
        elif kind == 'Deliver':
            if self.up and self.store.deferred:
                fn, event = self.store.deferred.pop(0)
                fn(event)
        elif kind == 'Stop':
            self.stop()
        elif kind == 'Start':
            self.start()
        else:
            raise ValueError(ev)

    def project(self):
        zk = {}
        for k in KEYS:
            p = '%s/%s' % (DIR, k)
            n = self.store.nodes.get(p)
            zk[k] = int(n.data[1:]) if n is not None else 0
        fsd = {k: 0 for k in KEYS}
        d = os.path.join(self.root, DIR.lstrip('/'))
        for name in os.listdir(d):
            if name.startswith('.'):
                continue
            with open(os.path.join(d, name), 'rb') as f:
                data = f.read()
            # a file whose content is not a value the environment wrote is projected as -1
            fsd[name] = int(data[1:]) if data[:1] == b'v' and data[1:].isdigit() else -1
        watches = sorted(w.rsplit('/', 1)[1] for w in (self.obj.watches if self.obj else ()))
        return dict(zk=zk, fs=fsd, watches=watches, qlen=len(self.store.deferred), up=self.up)


def record(tid, wd, hist):
    m = Mirror(wd)
    try:
        lines = [dict(ev='Init', k='', v=0, post=m.project())]
        for ev in hist:
            exc = ''
            try:
                m.apply(ev)
            except Exception as e:  # pylint: disable=broad-except
                exc = type(e).__name__
            lines.append(dict(ev=ev[0], k=ev[1] if len(ev) > 1 else '', v=ev[2] if len(ev) > 2 else 0,
                              exc=exc, post=m.project()))
        return dict(tid=tid, wd=wd, lines=lines)
    finally:
        m.close()


# ---- histories --------------------------------------------------------------
def from_labels(labels):
    hist = []
    for a, args in labels:
        if a in ('Create', 'Set'):
            hist.append((a, json.loads(args[0]) if args[0].startswith('"') else args[0], int(args[1])))
        elif a == 'Delete':
            hist.append((a, json.loads(args[0]) if args[0].startswith('"') else args[0]))
        elif a in ('Deliver', 'Stop', 'Start'):
            hist.append((a,))
    return hist


def gen_random(rng, n, nkeys=4, maxval=3, p_deliver=0.4, p_life=0.04):
    """A legal history: the generator keeps the little state the guards need."""
    keys = KEYS[:nkeys]
    val = {k: 0 for k in keys}
    up = True
    hist = []
    while len(hist) < n:
        r = rng.random()
        if not up:
            if r < 0.5:
                hist.append(('Start',))
                up = True
                continue
        elif r < p_life:
            hist.append(('Stop',))
            up = False
            continue
        elif r < p_life + p_deliver:
            hist.append(('Deliver',))
            continue
        k = rng.choice(keys)
        if val[k] == 0:
            val[k] = rng.randint(1, maxval)
            hist.append(('Create', k, val[k]))
        elif rng.random() < 0.5:
            val[k] = rng.choice([v for v in range(1, maxval + 1) if v != val[k]])
            hist.append(('Set', k, val[k]))
        else:
            val[k] = 0
            hist.append(('Delete', k))
    if not up:
        hist.append(('Start',))
    hist += [('Deliver',)] * 12      # drain: end settled
    return hist


def gen_burst(rng, nkeys=3):
    """Bursts around one node while a children notification is in flight (the model's InvComplete
    counterexample and its neighbours)."""
    keys = KEYS[:nkeys]
    k, other = keys[0], keys[1]
    hist = [('Create', k, 1), ('Deliver',)]
    hist += [('Create', other, 1)]                      # children notification now in flight
    for _ in range(rng.randint(1, 3)):
        hist += rng.choice([[('Delete', k), ('Create', k, rng.randint(1, 3))],
                            [('Set', k, 2), ('Delete', k), ('Create', k, 3)],
                            [('Delete', k)], [('Set', k, rng.randint(2, 3))]]) if True else []
        # keep it legal: repair create/delete alternation below
    legal, present = [], {x: False for x in keys}
    for ev in hist:
        if ev[0] == 'Create' and present[ev[1]]:
            ev = ('Set', ev[1], ev[2] % 3 + 1)
        elif ev[0] in ('Set', 'Delete') and not present[ev[1]]:
            continue
        if ev[0] == 'Create':
            present[ev[1]] = True
        if ev[0] == 'Delete':
            present[ev[1]] = False
        legal.append(ev)
    return legal + [('Deliver',)] * 8


MC_CFGS = [('wd', True), ('nd', False)]


def _mc(name, thorough):
    cfgname = 'MC_ZkMirror_%s.cfg' % name
    extra = None
    if thorough:
        text = open(os.path.join(SPEC_DIR, cfgname)).read()
        text = text.replace('Keys = {"k1", "k2"}', 'Keys = {"k1", "k2", "k3"}').replace('MaxEnv = 5', 'MaxEnv = 6')
        extra = {'MC_ZkMirror_%s_big.cfg' % name: text}
        cfgname = 'MC_ZkMirror_%s_big.cfg' % name
    return tlc.mc(SPEC_DIR, 'ZkMirror', cfgname, workers=4 if not thorough else 12, coverage=not thorough,
                  heap='4g', timeout=120 if not thorough else 900, extra_files=extra)


def run_ext(ctx):
    """Model check, generate, replay, validate.  Returns the evidence dict."""
    out = dict(spec='specs/cell/ZkMirror.tla (+ ZkMirrorOps, ZkMirrorTrace)', model_runs=[])
    thorough = not ctx.quick
    for name, _wd in MC_CFGS:
        res = _mc(name, thorough)
        ctx.cmds.append(res['cmd'])
        if res['violated']:
            raise tlc.MachineryError('ZkMirror.tla (%s) violates its own invariant %s' % (name, res['violated']))
        out['model_runs'].append(dict(name='zk2fs ' + name, generated=res['generated'], distinct=res['distinct'],
                                      depth=res['depth'], complete=res['ok'],
                                      actions={a: c[0] for a, c in res['coverage'].items()
                                               if a in ('Create', 'Set', 'Delete', 'Deliver', 'Stop', 'Start')}))
    gap = tlc.mc(SPEC_DIR, 'ZkMirror', 'MC_ZkMirror_gap.cfg', workers=4, coverage=False, heap='2g', timeout=120)
    ctx.cmds.append(gap['cmd'])
    out['model_gap'] = dict(invariant='InvComplete', violated=bool(gap['violated']),
                            steps=len(gap['cex']),
                            note='expected: a node re-created while a children notification is in flight loses its '
                                 'file to the old node\'s DELETED notification (observed, not judged)')
    hists = []
    if gap['violated']:
        labels = [(a, tlc.tlaval.split_args(b)) for a, b in gap['cex'] if a not in ('Initial', 'Init')]
        hists.append(('cex:gap', True, from_labels(labels)))
    for name, wd in MC_CFGS:
        text = open(os.path.join(SPEC_DIR, 'MC_ZkMirror_%s.cfg' % name)).read()
        text = '\n'.join(l for l in text.splitlines() if not l.startswith('INVARIANTS'))
        text = text.replace('MaxEnv = 5', 'MaxEnv = 8')
        bs, cmd = tlc.simulate(SPEC_DIR, 'ZkMirror', 'MC_ZkMirror_%s_gen.cfg' % name,
                               num=60 if ctx.quick else 1500, depth=14, seed=ctx.seed * 13 + len(name),
                               procs=1 if ctx.quick else 4, timeout=120 if ctx.quick else 600,
                               extra_files={'MC_ZkMirror_%s_gen.cfg' % name: text})
        ctx.cmds.append(cmd)
        hists += [('tlc:' + name, wd, from_labels(b)) for b in bs]
    rng = random.Random(ctx.seed * 6007 + 11)
    for _ in range(150 if ctx.quick else 4000):
        hists.append(('rnd', rng.random() < 0.6, gen_random(rng, rng.choice([10, 20, 35]))))
    for _ in range(60 if ctx.quick else 1500):
        hists.append(('burst', rng.random() < 0.8, gen_burst(rng)))
    traces = [record('z%d' % n, wd, h) for n, (_src, wd, h) in enumerate(hists)]
    work = tlc.scratch('verif-zk2fs-batch-')
    try:
        path = os.path.join(work, 'batch.json')
        with open(path, 'w') as f:
            json.dump(dict(traces=traces), f)
        verdicts, stats = tlc.validate(SPEC_DIR, 'ZkMirrorTrace', 'ZkMirrorTrace.cfg', path,
                                       timeout=300 if ctx.quick else 1500, heap='4g')
    finally:
        shutil.rmtree(work, ignore_errors=True)
    ctx.cmds.append(stats['cmd'])
    total = sum(len(t['lines']) - 1 for t in traces)
    if len(verdicts) != total:
        raise tlc.MachineryError('zk2fs: %d verdicts for %d lines' % (len(verdicts), total))
    fails = {}
    flags = {}
    bad_traces = set()
    for v in verdicts:
        for c in v['fail']:
            if v['tid'] not in bad_traces or c != 'ext.zk2fs.step':
                fails[c] = fails.get(c, 0) + 1
            bad_traces.add(v['tid'])
        for e in v['ex']:
            flags[e] = flags.get(e, 0) + 1
    for c, n in sorted(fails.items()):
        ctx.log('DRIFT %s: %d step(s) (beyond the listed properties; exit code unaffected)' % (c, n))
    out.update(traces=len(traces), lines=total, sources={s: sum(1 for h in hists if h[0] == s)
                                                         for s in sorted({h[0] for h in hists})},
               drift=fails, exercised=flags,
               note='every recorded step of the real Zk2Fs (zkfake with FIFO watch delivery, real directory) is '
                    're-computed by ZkMirrorOps; flag gap counts settled states of the REAL mirror in which an '
                    'existing node has no file')
    ctx.log('ext zk2fs: %d traces, %d lines, drift %s, flags %s' % (len(traces), total, fails or 0, flags))
    return out
