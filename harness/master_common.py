"""Shared by the master-level checks C09 C10 C11: L2 scenarios, history sources,
record/validate."""
import json
import os
import shutil

from . import core, tlc, master_l2

SPEC_DIR = os.path.join(core.SPECS, 'master')


def _alloc(name, part, pats, rank=100, mem='0M', cpu='0%', disk='0M', traits=(), maxutil=None,
           adj=0):
    d = dict(name=name, partition=part, rank=rank, rank_adjustment=adj, memory=mem, cpu=cpu,
             disk=disk, traits=list(traits),
             assignments=[dict(pattern=p, priority=pr) for p, pr in pats])
    if maxutil is not None:
        d['max_utilization'] = maxutil
    return d


def _man(name, mem=1, cpu=1, disk=1, **kw):
    d = dict(name=name, demand=[mem * 1024, cpu, disk * 1024], affinity=name.split('.')[1])
    d.update(kw)
    return d


SCENARIOS = {
    'base': dict(
        racks={'rack:a:01': ['s1', 's2'], 'rack:r2': ['s3']}, partitions=['pB'], traits=['t1'],
        sprofiles=[dict(cap=[2048, 2, 2048], label='_default', traits=[]),
                   dict(cap=[3072, 3, 3072], label='pB', traits=['t1']),
                   dict(cap=[1024, 1, 1024], label='_default', traits=['t1']),
                   dict(cap=[3072, 1, 1024], label='_default', traits=[]),
                   dict(cap=[1024, 3, 3072], label='_default', traits=[]),
                   # profile 3 without its trait: a re-registration that changes the traits only
                   dict(cap=[1024, 1, 1024], label='_default', traits=[])],
        server_init={'s1': 1, 's2': 1, 's3': 2},
        allocsets=[[_alloc('proid/x', '_default', [('proid.web*', 1)]),
                    _alloc('proid/z', 'pB', [('proid.db*', 5)])],
                   [_alloc('proid/x', 'pB', [('proid.web*', 1)]),
                    _alloc('proid/z', 'pB', [('proid.db*', 5)], traits=['t1'])],
                   [_alloc('proid/x', '_default', [('proid.web*', 7)], rank=90, mem='1G', cpu='1%',
                           disk='1024M'),
                    _alloc('proid/z', '_default', [('proid.db*', 5)])],
                   # a utilisation cap (one instance's worth) and a rank adjustment: set by
                   # this document, gone again with any of the others
                   [_alloc('proid/x', '_default', [('proid.web*', 1)], mem='1G', cpu='100%',
                           disk='1G', maxutil=1, adj=10),
                    _alloc('proid/z', 'pB', [('proid.db*', 5)], mem='2G', cpu='200%', disk='2G',
                           maxutil=2)],
                   # a PARENT allocation with a cap of its own (it has no instances itself):
                   # the cap is about its direct instances, not about its sub-allocations
                   [_alloc('proid', '_default', [], mem='1G', cpu='100%', disk='1G', maxutil=1),
                    _alloc('proid/x', '_default', [('proid.web*', 1)]),
                    _alloc('proid/z', 'pB', [('proid.db*', 5)])],
                   # rank 0 (the best legal rank) with a reservation
                   [_alloc('proid/x', '_default', [('proid.web*', 1)], rank=0, mem='2G', cpu='200%',
                           disk='2G'),
                    _alloc('proid/z', 'pB', [('proid.db*', 5)], rank=0, adj=0)],
                   # the first document with nothing but the assignment priorities changed
                   [_alloc('proid/x', '_default', [('proid.web*', 9)]),
                    _alloc('proid/z', 'pB', [('proid.db*', 2)])]],
        aprofiles=[_man('proid.web', identity_group='proid.g1', data_retention_timeout='2s'),
                   _man('proid.db', 2, 2, 2, lease='3s'),
                   _man('other.app', data_retention_timeout='0s'),
                   _man('proid.web', 1, 1, 1, schedule_once=True, identity_group='proid.g1'),
                   _man('proid.db', 1, 1, 1, traits=['t1'], data_retention_timeout='5s'),
                   _man('other.app', 1, 1, 1, lease='5d', data_retention_timeout='30d'),
                   dict(name='proid.web', demand=[512, 0, 512], affinity='web',
                        identity_group='proid.g1', data_retention_timeout='1s'),
                   dict(name='proid.lim', demand=[512, 0, 512], affinity='lim',
                        affinity_limits={'rack': 1, 'server': 1}, data_retention_timeout='2s'),
                   # a trait no server of the cell offers (and the cell does not know):
                   # never placeable, whatever is re-loaded
                   _man('other.app', 1, 1, 1, traits=['nosuch']),
                   # a priority of its own (not the assignment's): its place among the
                   # other proid.web instances moves when the assignment priority changes
                   dict(name='proid.web', demand=[512, 0, 512], affinity='web', priority=5,
                        data_retention_timeout='1s'),
                   # fits no server, sorts first in its allocation
                   dict(name='proid.web', demand=[65536, 64, 65536], affinity='web', priority=50),
                   # a name that another instance's name is a prefix of
                   dict(name='proid.web-x', demand=[512, 0, 512], affinity='webx',
                        data_retention_timeout='1s')],
        groups={'proid.g1': 3},
        apps=['a1', 'a2', 'a3', 'a4']),
    # (filled in below) 'hetero': base + instances that share an affinity NAME but
    # declare different limits for it - only for the master-level checks; the
    # scheduler clauses of C04 assume shared limits, as the statement of C04 does
    # terabyte-sized disks: capacities that differ by a few MB must still differ
    'big': dict(
        racks={'rack:r1': ['s1', 's2']}, partitions=[], traits=[],
        sprofiles=[dict(cap=[4096, 4, 2097152], label='_default', traits=[]),
                   dict(cap=[4096, 4, 2097140], label='_default', traits=[]),
                   dict(cap=[262144, 4, 4096], label='_default', traits=[]),
                   dict(cap=[262142, 4, 4096], label='_default', traits=[])],
        server_init={'s1': 1, 's2': 3},
        allocsets=[[_alloc('proid/x', '_default', [('proid.*', 1)])]],
        aprofiles=[dict(name='proid.disk', demand=[512, 0, 1048576], affinity='disk',
                        data_retention_timeout='0s'),
                   dict(name='proid.mem', demand=[131072, 0, 512], affinity='mem',
                        data_retention_timeout='0s'),
                   dict(name='proid.small', demand=[512, 1, 512], affinity='small')],
        groups={}, apps=['a1', 'a2', 'a3', 'a4', 'a5']),
    # a server that starts a few MB SMALLER and re-registers with the full size
    'big2': dict(
        racks={'rack:r1': ['s1']}, partitions=[], traits=[],
        sprofiles=[dict(cap=[4096, 4, 2097152], label='_default', traits=[]),
                   dict(cap=[4096, 4, 2097140], label='_default', traits=[])],
        server_init={'s1': 2},
        allocsets=[[_alloc('proid/x', '_default', [('proid.*', 1)])]],
        aprofiles=[dict(name='proid.disk', demand=[512, 0, 1048570], affinity='disk'),
                   dict(name='proid.mem', demand=[512, 0, 512], affinity='mem'),
                   dict(name='proid.small', demand=[512, 1, 512], affinity='small'),
                   dict(name='proid.tail', demand=[64, 0, 12], affinity='tail')],
        groups={}, apps=['a1', 'a2', 'a3']),
    # the constants of MasterLag.tla: two equal servers, two small instances
    'lag': dict(
        racks={'rack:r1': ['s1', 's2']}, partitions=[], traits=[],
        sprofiles=[dict(cap=[4096, 4, 4096], label='_default', traits=[])],
        server_init={'s1': 1, 's2': 1},
        allocsets=[[_alloc('proid/x', '_default', [('proid.web*', 1)])]],
        aprofiles=[_man('proid.web', data_retention_timeout='0s')],
        groups={}, apps=['a1', 'a2'], lag=True),
}


SCENARIOS['hetero'] = dict(SCENARIOS['base'])
SCENARIOS['hetero']['aprofiles'] = [
    dict(name='proid.lim', demand=[256, 0, 256], affinity='lim',
         affinity_limits={'rack': 1, 'server': 1}, data_retention_timeout='2s'),
    dict(name='proid.lim', demand=[256, 0, 256], affinity='lim', data_retention_timeout='2s'),
    dict(name='proid.lim', demand=[256, 0, 256], affinity='lim',
         affinity_limits={'cell': 2}, data_retention_timeout='2s'),
    dict(name='proid.web', demand=[512, 0, 512], affinity='web', data_retention_timeout='1s')]
SCENARIOS['hetero']['apps'] = ['a1', 'a2', 'a3', 'a4', 'a5']


# a cell trait list with a duplicate entry, and a server reporting a trait the list lacks
SCENARIOS['dup'] = dict(SCENARIOS['base'])
SCENARIOS['dup']['traits'] = ['t1', 't2', 't1']
SCENARIOS['dup']['sprofiles'] = list(SCENARIOS['base']['sprofiles']) + [
    dict(cap=[4096, 4, 4096], label='_default', traits=['x9']),
    dict(cap=[4096, 4, 4096], label='pB', traits=['x9', 't2'])]
SCENARIOS['dup']['server_init'] = {'s1': 7, 's2': 3, 's3': 8}
SCENARIOS['dup']['aprofiles'] = list(SCENARIOS['base']['aprofiles']) + [
    dict(name='other.app', demand=[512, 1, 512], affinity='app', traits=['x9'], data_retention_timeout='2s')]
SCENARIOS['dup']['allocsets'] = list(SCENARIOS['base']['allocsets']) + [
    [_alloc('proid/x', '_default', [('proid.web*', 1)], traits=['x9']),
     _alloc('proid/z', 'pB', [('proid.db*', 5)], traits=['x9'])]]


def gen_hetero(scn, rng):
    """Instances of one affinity name with different limits, placed one cycle at
    a time (so that the strict ones may come first), then fail-overs."""
    hist = []
    for a in scn['apps'][:rng.randrange(2, len(scn['apps']) + 1)]:
        hist.append(('CreateApp', [a, rng.randrange(len(scn['aprofiles'])) + 1]))
        if rng.random() < 0.6:
            hist.append(('Cycle', []))
    hist.append(('Cycle', []))
    hist.append(('Restart', []))
    if rng.random() < 0.5:
        s = rng.choice(sorted(k for k, v in scn['server_init'].items() if v))
        hist += [('NodeDown', [s]), ('NodeUp', [s, scn['server_init'][s]]), ('Cycle', []), ('Restart', [])]
    hist.append(('Cycle', []))
    return hist


def gen_random(scn, rng, depth, topology=False):
    """(topology: racks are also taken out of / put back into the cell - only for the
    master-level checks; the scheduler-level properties range over servers coming,
    going and changing state, not over the cell's bucket list)"""
    apps, hist = [], []
    servers = {s: i for s, i in scn['server_init'].items()}
    up = {s for s, i in servers.items() if i}
    exists = {s for s, i in servers.items() if i}
    alive = True
    days = 0
    deferred = False
    detached = set()
    blacked = set()
    for _ in range(depth):
        r = rng.random()
        free = [a for a in scn['apps'] if a not in apps]
        # the master may be busy: watch events pile up and are then processed in
        # no particular order between the watched paths (a cycle drains them)
        if alive and not deferred and rng.random() < 0.07:
            hist.append(('Defer', []))
            deferred = True
        elif deferred and (rng.random() < 0.3 or not alive):
            hist.append(('Deliver', []))
            deferred = False
        if r < 0.22:
            if deferred:
                # (a line of its own: the cycle line's pre-state is the drained view)
                hist.append(('Deliver', []))
            deferred = False
            if alive:
                if rng.random() < 0.25:
                    hist.append(('CrashCycle', [rng.randrange(1, 5)]))
                    alive = rng.random() < 0.0  # conservatively assume dead
                    hist.append(('Restart', []) if rng.random() < 0.8 else ('CrashRestart', [rng.randrange(1, 6)]))
                    if hist[-1][0] == 'CrashRestart':
                        hist.append(('Restart', []))
                    alive = True
                else:
                    hist.append(('Cycle', []))
            else:
                hist.append(('Restart', []))
                alive = True
        elif r < 0.40 and free:
            a = free[0]
            apps.append(a)
            hist.append(('CreateApp', [a, rng.randrange(len(scn['aprofiles'])) + 1]))
        elif r < 0.46 and apps:
            a = rng.choice(apps)
            apps.remove(a)
            hist.append(('DeleteApp', [a]))
        elif r < 0.50 and apps:
            hist.append(('SetPrio', [rng.choice(apps), rng.choice([0, 1, 50, 100])]))
        elif r < 0.58 and up:
            s = rng.choice(sorted(up))
            hist.append(('NodeDown', [s]))
            if rng.random() < 0.35:
                # the node re-registers (possibly with different capacity/traits)
                hist.append(('NodeUp', [s, rng.randrange(len(scn['sprofiles'])) + 1]))
            else:
                up.discard(s)
        elif r < 0.66 and (exists - up):
            s = rng.choice(sorted(exists - up))
            up.add(s)
            hist.append(('NodeUp', [s, rng.randrange(len(scn['sprofiles'])) + 1]))
        elif r < 0.675 and exists:
            hist.append(('SetPartition', [rng.choice(sorted(exists)), rng.choice(['_default', 'pB'])]))
        elif r < 0.69 and not topology:
            hist.append(('SetPartition', [rng.choice(sorted(exists or servers)), rng.choice(['_default', 'pB'])]))
        elif r < 0.69:
            rr = rng.random()
            if rr < 0.4:
                # an administrator takes a rack out of the cell / puts it back
                rack = rng.choice(sorted(scn['racks']))
                hist.append(('AttachRack' if rack in detached else 'DetachRack', [rack]))
                detached ^= {rack}
            elif rr < 0.7 and exists:
                s = rng.choice(sorted(exists))
                hist.append(('ClearBlackout' if s in blacked else 'Blackout', [s]))
                blacked ^= {s}
            elif exists:
                # re-parented to another rack - or to a bucket nobody defined
                hist.append(('SetParent', [rng.choice(sorted(exists)),
                                           rng.choice(sorted(scn['racks']) + ['rack:nosuch'])]))
        elif r < 0.72 and exists:
            s = rng.choice(sorted(exists))
            st = rng.choice(['frozen', 'up', 'down'])
            hist.append(('ServerState', [s, st, [a for a in apps if rng.random() < 0.4] if st == 'frozen' else []]))
        elif r < 0.75 and len(exists) > 1:
            s = rng.choice(sorted(exists))
            exists.discard(s)
            if s in up:
                up.discard(s)
                hist.append(('NodeDown', [s]))
            hist.append(('DeleteServer', [s]))
        elif r < 0.78 and len(exists) < len(servers):
            s = rng.choice(sorted(set(servers) - exists))
            exists.add(s)
            hist.append(('CreateServer', [s, rng.randrange(len(scn['sprofiles'])) + 1]))
        elif r < 0.84:
            g = rng.choice(sorted(scn['groups']))
            hist.append(('SetGroup', [g, rng.randrange(0, 4)]) if rng.random() < 0.8 else ('DelGroup', [g]))
            if rng.random() < 0.3:
                # fail-over right after the change, before any cycle saw it
                hist.append(('Restart', []))
                alive = True
        elif r < 0.88:
            hist.append(('SetAllocs', [rng.randrange(len(scn['allocsets'])) + 1]))
        elif r < 0.91:
            hist.append(('Blacklist', [rng.choice([[], ['proid.web'], ['proid.*'], ['other.app'],
                                                    ['pro*.web'], ['*.db'], ['*id.w?b', 'other.*'],
                                                    # exact names that are a PREFIX of instance names
                                                    ['proid.we'], ['other.a', 'proid.d']])]))
        elif r < 0.96:
            if days < 18 and rng.random() < 0.25:
                d = rng.choice([1, 4, 8, 16])
                d = min(d, 18 - days)
                days += d
                hist.append(('Tick', [d * 86400]))      # days: leases against reboot dates
            else:
                hist.append(('Tick', [rng.choice([1, 2, 3])]))
        else:
            hist.append(('Restart', []))
            alive = True
    if deferred and alive:
        hist.append(('Deliver', []))
    hist.append(('Cycle', []) if alive else ('Restart', []))
    hist.append(('Restart', []))
    return hist


def gen_allocs(scn, rng, depth):
    """Focused L2 histories on allocation documents changing under placed
    instances: servers are moved between partitions first (so that a partition
    has servers with and without a trait), instances of every assignment pattern
    are placed, then the allocation document is replaced (partition, traits,
    priorities of the assignments change) with cycles in between."""
    servers = sorted(s for s, k in scn['server_init'].items() if k)
    labels = ['_default'] + list(scn.get('partitions') or [])
    hist = []
    for s in servers:
        if rng.random() < 0.6:
            hist.append(('SetPartition', [s, rng.choice(labels)]))
    napps = rng.randrange(2, len(scn['apps']) + 1)
    for j in range(napps):
        hist.append(('CreateApp', [scn['apps'][j], rng.randrange(len(scn['aprofiles'])) + 1]))
    hist.append(('Cycle', []))
    for _ in range(depth):
        r = rng.random()
        if r < 0.45:
            hist.append(('SetAllocs', [rng.randrange(len(scn['allocsets'])) + 1]))
            hist.append(('Cycle', []))
        elif r < 0.6:
            hist.append(('SetPartition', [rng.choice(servers), rng.choice(labels)]))
        elif r < 0.7:
            hist.append(('Tick', [rng.choice([1, 3, 6])]))
        elif r < 0.8:
            hist.append(('Restart', []))
        else:
            hist.append(('Cycle', []))
    hist.append(('Cycle', []))
    hist.append(('Restart', []))
    return hist


def gen_defer(scn, rng):
    """Focused L2 histories on event order: instances placed, then a burst of
    changes reaches the master together (several of them about ONE instance or
    ONE server: priority change then delete, delete then re-create, presence lost
    then server state change ...) and is delivered in a shuffled order of the
    watched paths; a cycle follows."""
    napps = rng.randrange(2, len(scn['apps']) + 1)
    apps = list(scn['apps'][:napps])
    hist = [('CreateApp', [a, rng.randrange(len(scn['aprofiles'])) + 1]) for a in apps]
    hist.append(('Cycle', []))
    servers = sorted(s for s, k in scn['server_init'].items() if k)
    up = set(servers)
    for _ in range(rng.randrange(1, 4)):
        hist.append(('Defer', []))
        a = rng.choice(apps) if apps else None
        s = rng.choice(servers)
        for _ in range(rng.randrange(2, 5)):
            r = rng.random()
            if r < 0.3 and a in apps:
                hist.append(('SetPrio', [a, rng.choice([0, 1, 50, 100])]))
            elif r < 0.5 and a in apps:
                hist.append(('DeleteApp', [a]))
                apps.remove(a)
            elif r < 0.6 and a is not None and a not in apps:
                hist.append(('CreateApp', [a, rng.randrange(len(scn['aprofiles'])) + 1]))
                apps.append(a)
            elif r < 0.7 and s in up:
                hist.append(('NodeDown', [s]))
                up.discard(s)
            elif r < 0.78 and s not in up:
                hist.append(('NodeUp', [s, rng.randrange(len(scn['sprofiles'])) + 1]))
                up.add(s)
            elif r < 0.86:
                hist.append(('ServerState', [s, rng.choice(['frozen', 'up', 'down']), []]))
            elif r < 0.93:
                hist.append(('SetAllocs', [rng.randrange(len(scn['allocsets'])) + 1]))
            else:
                hist.append(('Tick', [rng.choice([1, 3])]))
        hist.append(('Deliver', []))
        hist.append(('Cycle', []))
    hist.append(('Restart', []))
    return hist


def gen_resize(scn, rng):
    """Scenario 'big': servers filled exactly, then re-registered (or their record
    rewritten through a `servers` event) with a capacity a few MB smaller."""
    hist = []
    for j, a in enumerate(scn['apps']):
        hist.append(('CreateApp', [a, 1 if j < 2 else (2 if j < 4 else 3)]))
    hist.append(('Cycle', []))
    near = {1: 2, 2: 1, 3: 4, 4: 3}
    cur = dict(scn['server_init'])
    for _ in range(rng.randrange(1, 4)):
        s = rng.choice(sorted(cur))
        hist.append(('NodeDown', [s]))
        if rng.random() < 0.3:
            hist.append(('Tick', [rng.choice([1, 2])]))
        cur[s] = near[cur[s]] if rng.random() < 0.8 else rng.choice([1, 2, 3, 4])
        hist.append(('NodeUp', [s, cur[s]]))
        hist.append(('Cycle', []))
    hist.append(('Restart', []))
    hist.append(('Cycle', []))
    return hist


def gen_resize_down(scn, rng):
    """Instances with data retention placed, a server loses its presence (they are
    retained), an administrator then rewrites its capacity smaller (`servers` event:
    the restore on the reloaded server fails for what no longer fits), cycles."""
    keep = [i + 1 for i, p in enumerate(scn['aprofiles'])
            if p.get('data_retention_timeout') not in (None, '0s')]
    napps = rng.randrange(2, len(scn['apps']) + 1)
    hist = [('CreateApp', [scn['apps'][j], rng.choice(keep) if rng.random() < 0.8
                           else rng.randrange(len(scn['aprofiles'])) + 1]) for j in range(napps)]
    hist.append(('Cycle', []))
    servers = sorted(s for s, k in scn['server_init'].items() if k)
    small = sorted(range(len(scn['sprofiles'])), key=lambda i: scn['sprofiles'][i]['cap'])[:2]
    for s in rng.sample(servers, rng.randrange(1, len(servers) + 1)):
        hist.append(('NodeDown', [s]))
        hist.append(('SetCapacity', [s, rng.choice(small) + 1]))
        hist.append(('Cycle', []))
    if rng.random() < 0.5:
        hist.append(('Restart', []))
    hist.append(('Cycle', []))
    return hist


def gen_topology(scn, rng):
    """Focused master-level histories on administrative changes under placed
    instances: a server re-parented (to another rack, or to a bucket nobody
    defined), blacked out, its rack detached from the cell - then cycles and a
    fail-over."""
    napps = rng.randrange(2, len(scn['apps']) + 1)
    hist = [('CreateApp', [scn['apps'][j], rng.randrange(len(scn['aprofiles'])) + 1]) for j in range(napps)]
    hist.append(('Cycle', []))
    servers = sorted(s for s, k in scn['server_init'].items() if k)
    racks = sorted(scn['racks'])
    for _ in range(rng.randrange(1, 4)):
        r = rng.random()
        s = rng.choice(servers)
        if r < 0.2:
            hist.append(('SetParent', [s, rng.choice(racks + ['rack:nosuch', 'rack:nosuch'])]))
        elif r < 0.35:
            # the record of a server that is down (instances retained) is rewritten smaller
            hist.append(('NodeDown', [s]))
            hist.append(('SetCapacity', [s, rng.randrange(len(scn['sprofiles'])) + 1]))
        elif r < 0.55:
            hist.append(('Blackout', [s]))
        elif r < 0.7:
            hist.append(('DetachRack', [rng.choice(racks)]))
            if rng.random() < 0.5:
                # the master fails over before any cycle has seen the change
                hist.append(('Defer', []) if rng.random() < 0.5 else ('Tick', [1]))
                hist.append(('Restart', []))
        elif r < 0.8:
            hist.append(('AttachRack', [rng.choice(racks)]))
        elif r < 0.9:
            hist.append(('NodeDown', [s]))
            hist.append(('NodeUp', [s, scn['server_init'][s]]))
        else:
            hist.append(('Tick', [rng.choice([1, 3])]))
        hist.append(('Cycle', []))
    hist.append(('Restart', []))
    hist.append(('Cycle', []))
    return hist


def gen_servers(scn, rng, depth):
    """Focused L2 histories on the server life cycle: instances placed, then a
    small alphabet of server events - presence lost / re-registered with another
    capacity profile, administrator state changes (frozen/up/down), partition
    change, clock - with cycles in between."""
    napps = rng.randrange(2, len(scn['apps']) + 1)
    hist = [('CreateApp', [scn['apps'][j], rng.randrange(len(scn['aprofiles'])) + 1])
            for j in range(napps)]
    hist.append(('Cycle', []))
    servers = sorted(s for s, k in scn['server_init'].items() if k)
    up = set(servers)
    cur = dict(scn['server_init'])
    if rng.random() < 0.5:
        # start from a server that offers a trait some profile can drop
        s0 = rng.choice(servers)
        sp = scn['sprofiles']
        withtwin = [j + 1 for j, q in enumerate(sp) if q['traits'] and any(
            o['cap'] == q['cap'] and o['label'] == q['label'] and o['traits'] != q['traits'] for o in sp)]
        if withtwin:
            cur[s0] = rng.choice(withtwin)
            hist = [('NodeDown', [s0]), ('NodeUp', [s0, cur[s0]])] + hist
    for _ in range(depth):
        r = rng.random()
        s = rng.choice(servers)
        if r < 0.22:
            hist.append(('Cycle', []))
        elif r < 0.42:
            if s in up:
                hist.append(('NodeDown', [s]))
                up.discard(s)
            else:
                hist.append(('NodeUp', [s, rng.randrange(len(scn['sprofiles'])) + 1]))
                up.add(s)
        elif r < 0.55 and s in up:
            # re-registration (reboot) with possibly different capacity - or with the same
            # capacity and partition and other traits
            hist.append(('NodeDown', [s]))
            sp = scn['sprofiles']
            twin = [j + 1 for j, q in enumerate(sp)
                    if q['cap'] == sp[cur[s] - 1]['cap'] and q['label'] == sp[cur[s] - 1]['label']
                    and q['traits'] != sp[cur[s] - 1]['traits']]
            cur[s] = rng.choice(twin) if twin and rng.random() < 0.5 else rng.randrange(len(sp)) + 1
            hist.append(('NodeUp', [s, cur[s]]))
        elif r < 0.72:
            st = rng.choice(['frozen', 'frozen', 'up', 'down'])
            marked = [a for a in scn['apps'][:napps] if rng.random() < 0.3] if st == 'frozen' else []
            hist.append(('ServerState', [s, st, marked]))
        elif r < 0.90:
            hist.append(('Tick', [rng.choice([1, 2, 3, 6])]))
        elif r < 0.95:
            hist.append(('SetPartition', [s, rng.choice(['_default', 'pB'])]))
        else:
            hist.append(('Restart', []))
    hist.append(('Cycle', []))
    hist.append(('Restart', []))
    return hist


def gen_identity(scn, rng, depth):
    """Focused L2 histories: instances of one identity group come and go while
    the group is resized, with cycles and restarts in between (small alphabet,
    so that specific short sequences are reached often)."""
    web = [i + 1 for i, p in enumerate(scn['aprofiles']) if p.get('identity_group')]
    g = sorted(scn['groups'])[0]
    apps, hist = [], []
    if rng.random() < 0.5:
        # a single candidate server: what loses its placement inside a cycle is
        # put back on the very same server by that cycle
        servers = sorted(s for s, k in scn['server_init'].items() if k)
        keep = rng.choice(servers[:2])
        for s in servers[:2]:
            if s != keep:
                hist.append(('NodeDown', [s]))
    for a in scn['apps'][:rng.randrange(2, len(scn['apps']) + 1)]:
        apps.append(a)
        hist.append(('CreateApp', [a, rng.choice(web)]))
    hist.append(('Cycle', []))
    for _ in range(depth):
        r = rng.random()
        free = [a for a in scn['apps'] if a not in apps]
        if r < 0.30:
            hist.append(('Cycle', []))
        elif r < 0.55:
            hist.append(('SetGroup', [g, rng.randrange(0, 4)]))
        elif r < 0.70 and apps:
            a = rng.choice(apps)
            apps.remove(a)
            hist.append(('DeleteApp', [a]))
        elif r < 0.85 and free:
            apps.append(free[0])
            hist.append(('CreateApp', [free[0], rng.choice(web)]))
        elif r < 0.90:
            hist.append(('DelGroup', [g]))
        elif r < 0.95:
            hist.append(('Tick', [rng.choice([1, 3])]))
        else:
            hist.append(('Restart', []))
    hist.append(('Cycle', []))
    hist.append(('Restart', []))
    return hist


def gen_pending(scn, rng, depth):
    """Focused L2 histories for Master._check_pending_start (extension beyond the
    listed properties): instances placed, some reported running, the periodic
    integrity check called at intervals around the 5 minute start interval."""
    napps = rng.randrange(1, len(scn['apps']) + 1)
    apps = list(scn['apps'][:napps])
    hist = [('CreateApp', [a, rng.randrange(len(scn['aprofiles'])) + 1]) for a in apps]
    hist.append(('Cycle', []))
    for _ in range(depth):
        r = rng.random()
        if r < 0.30:
            hist.append(('Integrity', []))
        elif r < 0.50:
            hist.append(('Tick', [rng.choice([100, 200, 301, 301])]))
        elif r < 0.65:
            hist.append(('Running', [rng.choice(apps)]))
        elif r < 0.72:
            hist.append(('Stopped', [rng.choice(apps)]))
        elif r < 0.82:
            hist.append(('Cycle', []))
        elif r < 0.88:
            s = rng.choice(sorted(scn['server_init']))
            hist.append(('ServerState', [s, rng.choice(['up', 'down', 'frozen']), []]))
        elif r < 0.94:
            hist.append(('DeleteApp', [rng.choice(apps)]))
        else:
            hist.append(('SetPrio', [rng.choice(apps), rng.choice([1, 50])]))
    hist.append(('Integrity', []))
    hist.append(('Cycle', []))
    return hist


# fields of a recorded line that only the scheduler-level trace spec reads (the
# bulk of a line): dropped at once for the master-level checks, which record
# tens of thousands of lines in the thorough tier
_SCHED_ONLY = ('post', 'queues', 'placement', 'declared', 'oprio', 'loaded_sched', 'decl_allocs',
               'spells', 'obs_down', 'obs_frozen', 'obs_marks', 'obs_marks_unknown', 'tb')


def _rec_one(args):
    scn_name, k, h = args[:3]
    lines = master_l2.replay(SCENARIOS[scn_name], h)
    if len(args) > 3 and args[3]:
        lines = [{f: v for f, v in l.items()
                  if f not in _SCHED_ONLY and not (f == 'decl_apps' and l.get('ev') not in ('Restart', 'CrashRestart'))}
                 for l in lines]
    return dict(tid='%s:%d' % (scn_name, k), lines=lines, history=h)


def record(scn_name, histories, procs=None, slim=False):
    """Replay every history on the real Master (in worker processes: each
    replay is independent and CPU-bound).  slim: keep only what MasterTrace.tla /
    MasterLagTrace.tla read."""
    jobs = [(scn_name, k, h, slim) for k, h in enumerate(histories)]
    procs = procs or min(12, max(1, len(jobs) // 8))
    if procs <= 1 or os.environ.get('VERIF_SERIAL'):
        return [_rec_one(j) for j in jobs]
    import multiprocessing
    ctx = multiprocessing.get_context('fork')
    with ctx.Pool(procs) as pool:
        return pool.map(_rec_one, jobs, chunksize=4)


def _validate_chunk(args):
    traces, timeout = args
    work = tlc.scratch('verif-batch-')
    try:
        path = os.path.join(work, 'batch.json')
        with open(path, 'w') as f:
            json.dump(dict(traces=[dict(tid=t['tid'], lines=[
                {k: v for k, v in l.items() if k not in ('tb', 'post', 'queues', 'placement', 'spells',
                                                         'declared', 'oprio', 'loaded_sched', 'obs_down',
                                                         'decl_allocs', 'obs', 'order', 'obs_frozen')
                 and not (k == 'decl_apps' and l.get('ev') not in ('Restart', 'CrashRestart'))}
                for l in t['lines']]) for t in traces]), f)
        return tlc.validate(SPEC_DIR, 'MasterTrace', 'MasterTrace.cfg', path, timeout=timeout)
    finally:
        shutil.rmtree(work, ignore_errors=True)


def validate_lag(traces, timeout=900):
    """MasterLagTrace.tla over traces recorded on the 'lag' scenario."""
    work = tlc.scratch('verif-lag-')
    try:
        path = os.path.join(work, 'batch.json')
        with open(path, 'w') as f:
            json.dump(dict(traces=[dict(tid=t['tid'], lines=[
                {k: l[k] for k in ('ev', 'args', 'obs', 'crashed', 'noop', 'exc', 'order') if k in l}
                for l in t['lines']]) for t in traces]), f)
        return tlc.validate(SPEC_DIR, 'MasterLagTrace', 'MasterLagTrace.cfg', path, timeout=timeout)
    finally:
        shutil.rmtree(work, ignore_errors=True)


def validate(traces, timeout=1200, chunk=1500):
    if len(traces) <= chunk:
        return _validate_chunk((traces, timeout))
    import concurrent.futures
    chunks = [traces[i:i + chunk] for i in range(0, len(traces), chunk)]
    verdicts, stats = [], {}
    with concurrent.futures.ThreadPoolExecutor(4) as ex:
        for v, st in ex.map(_validate_chunk, [(c, timeout) for c in chunks]):
            verdicts.extend(v)
            stats = stats or st
    stats['chunks'] = len(chunks)
    return verdicts, stats
