"""C20 driver: runs the REAL app monitor loop (treadmill.sproc.appmonitor._run_sync,
hence its ZooKeeper watches that build `state` and the real reevaluate()) on the
shared in-memory ZooKeeper (harness/zkfake.py) under a virtual clock.

  * _run_sync runs in its own thread; `time.sleep(1)` of its loop is the hand-over
    point: the harness performs environment steps while the monitor sleeps and
    releases it for exactly one evaluation at a time (strict alternation, no
    concurrency).  zkfake delivers watches synchronously, so the monitor's view
    (`state['scheduled']`, `state['monitors']`) is up to date at every evaluation
    - both views are logged (`view` and `zk`).
  * monitors are configured / deleted through the real producers
    masterapi.update_appmonitor / delete_appmonitor; instances are created and
    deleted through masterapi.create_apps / delete_apps (what the instance API
    does after its quota check).
  * restclient.post is a fake cell API: it records the call, answers what the
    history says (ok / notfound / badrequest / validation / error, raising the
    exception classes reevaluate() handles: NotFoundError, BadRequestError,
    ValidationError, any other Exception) and on `ok` only PROMISES the
    instances; the history decides when the cell carries the promise out
    (InstancesCreated / InstancesDeleted), as in AppMon.tla.
  * the alerter (alerts directory) is replaced by a recorder: out of scope.

History (JSON-able): list of steps
  ['Configure', app, count, policy]   policy 'fifo' | 'lifo' | '' (not given: the node of
                                      a new monitor then carries NO policy field)
  ['DeleteMonitor', app]              ['Tick', seconds]
  ['InstanceDies', app, j]            j-th oldest instance (ignored if there is none)
  ['ExternalCreate', app]             ['InstancesCreated', app] ['InstancesDeleted', app]
  ['Evaluate', {app: outcome}]
Every line logs the projected state after the step:
  now (s), mon {app: count, avail (micro-tokens), last (s), policy, rate (micro-tokens/h)},
  susp {app: until (s)}, view {app: [{name, n}]} (what the monitor holds),
  zk {app: [{name, n}]} (children of /scheduled), and for Evaluate the calls;
  extension: pub (the map stored in the /app-monitors node), waited (what the last
  reevaluate() returned), reader {app: suspend_until or -1} (masterapi.get_appmonitor).
"""
import json
import threading
import time as _realtime
from unittest import mock

from . import core, tlc, zkfake

core.ensure_repo_on_path()
from treadmill import context  # noqa: E402
from treadmill import restclient  # noqa: E402
from treadmill import utils  # noqa: E402
from treadmill import zknamespace as z  # noqa: E402
from treadmill.scheduler import masterapi  # noqa: E402
from treadmill.sproc import appmonitor  # noqa: E402

T0 = 1600000000
OUTCOMES = ('ok', 'notfound', 'badrequest', 'validation', 'error')


class _Stop(BaseException):
    pass


class CodeDied(BaseException):
    """The code under test called sys_exit / raised out of _run_sync."""


class _Response:
    status_code = 400
    text = 'refused by the fake cell API'

    def json(self):
        return {'message': self.text}


def _quota():
    try:
        from treadmill.api import instance as api_instance
        return api_instance._TOTAL_SCHEDULED_QUOTA, api_instance._PROID_SCHEDULED_QUOTA
    except Exception:  # pylint: disable=broad-except
        return 50000, 10000


class Monitor:
    """One app monitor process on its own cell."""

    def __init__(self, frac=0.0):
        # the monitor's clock is not aligned on whole seconds: every reading is T0 + clock + frac (the model's
        # time is `clock`; intervals are unchanged, so every clause reads the same)
        self.frac = frac
        self.clock = 0                      # integer seconds since T0
        self.store = zkfake.ZkStore(clock=lambda: T0 + self.clock)
        self.zk = zkfake.ZkFakeClient(self.store)       # the monitor's connection
        self.env = zkfake.ZkFakeClient(self.store)      # the rest of the cell
        for p in (z.SCHEDULED, z.path.appmonitor(), z.TRACE):
            self.env.ensure_path(p)
        self.calls = []
        self.outcomes = {}
        self.pend_create = {}
        self.pend_delete = {}
        self.alerts = []
        self.state = None
        self.waited = {}                    # what the last reevaluate() returned (= next last_waited)
        self.error = None
        self.quota = _quota()
        self._go = threading.Semaphore(0)
        self._done = threading.Semaphore(0)
        self._stop = False
        self._thread = threading.Thread(target=self._main, daemon=True)
        self._thread.start()
        self._done.acquire()                # the loop reached its first sleep
        self._check()
        self._turn()                        # priming evaluation on the empty cell: captures `state`
        if self.state is None:
            raise tlc.MachineryError('could not capture the monitor state')

    # -- the monitor thread --------------------------------------------------
    def _main(self):
        mon = self

        class Shim:
            def time(self):
                return float(T0 + mon.clock) + mon.frac

            def sleep(self, _s):
                mon._done.release()
                mon._go.acquire()
                if mon._stop:
                    raise _Stop()

            def __getattr__(self, name):
                return getattr(_realtime, name)

        real_reevaluate = appmonitor.reevaluate

        def reevaluate(api_url, alert_f, state, zkclient, last_waited):
            mon.state = state
            mon.waited = real_reevaluate(api_url, alert_f, state, zkclient, last_waited)
            return mon.waited

        def alerter(_alerts_dir, _cell):
            return lambda instance, summary, **kw: mon.alerts.append((instance, summary))

        def died(code):
            raise CodeDied('sys_exit(%s)' % code)

        try:
            with mock.patch.object(appmonitor, 'time', Shim()), \
                    mock.patch.object(appmonitor, 'reevaluate', reevaluate), \
                    mock.patch.object(appmonitor, 'make_alerter', alerter), \
                    mock.patch.object(restclient, 'post', self._post), \
                    mock.patch.object(utils, 'sys_exit', died):
                context.GLOBAL.zk.conn = self.zk
                context.GLOBAL.cell = 'cell1'
                appmonitor._run_sync('/cellapi.sock', '/nonexistent-alerts', False)
        except _Stop:
            pass
        except BaseException as e:  # pylint: disable=broad-except
            self.error = e
        finally:
            self._done.release()

    def _check(self):
        if self.error is not None:
            raise CodeDied(repr(self.error))

    def _turn(self):
        self._go.release()
        self._done.acquire()
        self._check()

    def close(self):
        if self._thread.is_alive():
            self._stop = True
            self._go.release()
            self._thread.join(5)

    # -- the fake cell API -------------------------------------------------------
    def _post(self, api, url, payload=None, headers=None, **_kw):
        if (headers or {}).get('X-Treadmill-Trusted-Agent') != 'monitor':
            raise tlc.MachineryError('unexpected headers %r' % (headers,))
        if url == '/instance/_bulk/delete':
            groups = {}
            for inst in payload['instances']:
                groups.setdefault(inst.rpartition('#')[0], []).append(inst)
            ok = True
            for app, insts in sorted(groups.items()):
                o = 'ok' if self.outcomes.get(app, 'ok') == 'ok' else 'error'
                ok = ok and o == 'ok'
                self.calls.append(dict(app=app, op='delete', n=0, o=o, insts=_insts(insts)))
            if not ok:
                raise restclient.MaxRequestRetriesError(5)
            for app, insts in groups.items():
                self.pend_delete.setdefault(app, set()).update(insts)
            return _Response()
        if not url.startswith('/instance/') or '?count=' not in url:
            raise tlc.MachineryError('unexpected REST call %r' % (url,))
        app, _, cnt = url[len('/instance/'):].partition('?count=')
        n = int(cnt)
        o = self.outcomes.get(app, 'ok')
        total = len(self.store.children(z.SCHEDULED))
        if o == 'ok' and (total + n > self.quota[0] or total + n > self.quota[1]):
            o = 'badrequest'                # the instance API's scheduled quota
        self.calls.append(dict(app=app, op='create', n=n, o=o, insts=[]))
        if o == 'ok':
            self.pend_create[app] = self.pend_create.get(app, 0) + n
            return _Response()
        if o == 'notfound':
            raise restclient.NotFoundError('Resource not found: %s' % url)
        if o == 'badrequest':
            raise restclient.BadRequestError(_Response())
        if o == 'validation':
            raise restclient.ValidationError(_Response())
        raise restclient.MaxRequestRetriesError(5)

    # -- steps -------------------------------------------------------------------
    def instances(self, app):
        return [i for i in self.store.children(z.SCHEDULED) if i.rpartition('#')[0] == app]

    def step(self, step):
        """Performs one history step; returns the trace line (without post)."""
        name = step[0]
        line = dict(ev=name, app='', count=0, policy='', dt=0, calls=[], changed=False)
        if name == 'Configure':
            _, app, count, policy = step
            node = self.store.nodes.get(z.path.appmonitor(app))
            before = None if node is None else (node.data, node.mzxid)
            # policy '' = not given: update_appmonitor then writes no 'policy' field (a new
            # monitor node has none; an existing one keeps what it had)
            masterapi.update_appmonitor(self.env, app, count, policy or None)
            node = self.store.nodes[z.path.appmonitor(app)]
            # update_appmonitor writes only when the node content changes; it stores
            # what get_appmonitor returned (incl. `_id`, `suspend_until`), so the first
            # repetition of an identical configuration does change the content
            line.update(app=app, count=count, policy=policy,
                        changed=bool(before != (node.data, node.mzxid)))
        elif name == 'DeleteMonitor':
            masterapi.delete_appmonitor(self.env, step[1])
            line.update(app=step[1])
        elif name == 'Tick':
            self.clock += int(step[1])
            line.update(dt=int(step[1]))
        elif name == 'InstanceDies':
            _, app, j = step
            insts = self.instances(app)
            line.update(app=app)
            if 1 <= j <= len(insts):
                masterapi.delete_apps(self.env, [insts[j - 1]], 'test')
                self.pend_delete.get(app, set()).discard(insts[j - 1])
        elif name == 'ExternalCreate':
            masterapi.create_apps(self.env, step[1], {}, 1, 'test')
            line.update(app=step[1])
        elif name == 'InstancesCreated':
            app = step[1]
            n = self.pend_create.pop(app, 0)
            if n:
                masterapi.create_apps(self.env, app, {}, n, 'monitor')
            line.update(app=app, count=n)
        elif name == 'InstancesDeleted':
            app = step[1]
            gone = sorted(self.pend_delete.pop(app, set()) & set(self.instances(app)))
            if gone:
                masterapi.delete_apps(self.env, gone, 'monitor')
            line.update(app=app, count=len(gone))
        elif name == 'Evaluate':
            self.outcomes = dict(step[1])
            self.calls = []
            self._turn()
            line.update(calls=self.calls)
        else:
            raise tlc.MachineryError('bad step %r' % (step,))
        return line

    # -- projection ----------------------------------------------------------------
    def project(self):
        st = self.state
        mon = {}
        for app, conf in st['monitors'].items():
            mon[app] = dict(count=int(conf['count']),
                            avail=int(round(conf['available'] * 1e6)),
                            last=int(round(conf['last_update'] - T0 - self.frac)),
                            policy=conf.get('policy') or '',
                            rate=int(round(conf['rate'] * 3600 * 1e6)))
        susp = {app: int(round(until - T0 - self.frac)) for app, until in st['suspended'].items()}
        view = {app: _insts(lst) for app, lst in st['scheduled'].items() if lst}
        zk = {}
        for inst in self.store.children(z.SCHEDULED):
            zk.setdefault(inst.rpartition('#')[0], []).append(inst)
        # extension (published bookkeeping): the /app-monitors node as stored, what
        # reevaluate() returned, and what a reader of masterapi.get_appmonitor sees
        raw = self.store.nodes[z.path.appmonitor()].data
        pub = json.loads(raw.decode()) if raw else {}
        reader = {}
        for app in self.store.children(z.path.appmonitor()):
            until = masterapi.get_appmonitor(self.env, app)['suspend_until']
            reader[app] = -1 if until is None else int(round(until - T0 - self.frac))
        return dict(now=self.clock, mon=mon, susp=susp, view=view,
                    zk={a: _insts(l) for a, l in zk.items()},
                    pub={a: int(round(v - T0 - self.frac)) for a, v in pub.items()},
                    waited={a: int(round(v - T0 - self.frac)) for a, v in self.waited.items()},
                    reader=reader)


def _insts(names):
    return [dict(name=i, n=int(i.rpartition('#')[2])) for i in names]


def replay(history):
    """history (list of steps) -> trace lines; line 1 = initial state."""
    # every third history runs on a clock 0.9 s off the whole second, every third 0.25 s
    m = Monitor((0.0, 0.9, 0.25)[len(history) % 3])
    try:
        lines = [dict(ev='Init', post=m.project())]
        for step in history:
            try:
                line = m.step(step)
            except CodeDied as e:
                lines.append(dict(ev=step[0], exc=repr(e), app='', count=0, policy='', dt=0,
                                  calls=[], changed=False, post=lines[-1]['post']))
                break
            line['post'] = m.project()
            lines.append(line)
        return lines
    finally:
        m.close()
