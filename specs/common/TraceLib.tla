---------------------------- MODULE TraceLib ----------------------------
(* Helpers shared by all trace specifications.  JSON arrays arrive as       *)
(* sequences, JSON objects as records (functions over strings).             *)
EXTENDS Naturals, Integers, Sequences, FiniteSets, TLC

SetOf(seq) == {seq[i] : i \in DOMAIN seq}

Has(rec, k) == k \in DOMAIN rec

Get(rec, k, dflt) == IF k \in DOMAIN rec THEN rec[k] ELSE dflt

RECURSIVE SumSeq(_)
SumSeq(s) == IF s = <<>> THEN 0 ELSE Head(s) + SumSeq(Tail(s))

Min2(a, b) == IF a <= b THEN a ELSE b
Max2(a, b) == IF a >= b THEN a ELSE b

(* position of x in seq (0 if absent) *)
IndexOf(seq, x) ==
  IF \E i \in DOMAIN seq : seq[i] = x
  THEN CHOOSE i \in DOMAIN seq : seq[i] = x /\ \A j \in 1..(i-1) : seq[j] # x
  ELSE 0
=============================================================================
