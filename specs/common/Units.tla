------------------------------- MODULE Units -------------------------------
(* Meaning of the quantity SPELLINGS Treadmill accepts in server records and *)
(* manifests (utils.megabytes / kilobytes / size_to_bytes / cpu_units):      *)
(* a spelling is <<mantissa, suffix>>.  Memory and disk are held in MB       *)
(* (integer division, as the code does), cpu in percent of a core.           *)
(*   binary suffixes K M G T (any case): powers of 1024                      *)
(*   with a trailing B (KB MB GB): powers of 1000 (size_to_bytes)            *)
(*   cpu: "%" or bare number                                                 *)
EXTENDS Naturals, Integers

Upper(sfx) == CASE sfx = "k" -> "K" [] sfx = "m" -> "M" [] sfx = "g" -> "G" [] sfx = "t" -> "T"
                [] sfx = "kb" -> "KB" [] sfx = "mb" -> "MB" [] sfx = "gb" -> "GB"
                [] OTHER -> sfx

MB(sp) ==
  LET m == sp[1] u == Upper(sp[2]) IN
  CASE u = "K" -> m \div 1024
    [] u = "M" -> m
    [] u = "G" -> m * 1024
    [] u = "T" -> m * 1024 * 1024
    \* floor(floor(m*1000^k / 1024) / 1024) = floor(m * 1000^k / 2^20), fractions reduced
    \* so that intermediate values stay below 2^31 (TLC integers)
    [] u = "KB" -> (m * 125) \div 131072
    [] u = "MB" -> (m * 15625) \div 16384
    [] u = "GB" -> (m * 1953125) \div 2048          \* m <= 1000
    [] OTHER -> -1

CPU(sp) == IF sp[2] \in {"%", ""} THEN sp[1] ELSE -1

(* the equalities the property statement names *)
ASSUME MB(<<1, "G">>) = MB(<<1024, "M">>)
ASSUME MB(<<1, "g">>) = 1024 /\ MB(<<2048, "K">>) = 2 /\ MB(<<1, "T">>) = 1048576
ASSUME CPU(<<100, "%">>) = CPU(<<100, "">>)
=============================================================================
