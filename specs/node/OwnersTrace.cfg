SPECIFICATION TrSpec
CHECK_DEADLOCK FALSE
CONSTANTS
 OwnerIds = {}
 Hosts <- TrHosts
 NetAddrs <- TrNet
 Outside = {}
 RuleIds = {}
 SpecIds = {}
 SpecApp <- TrSpecApp
 Events = {}
 MaxEvents = 0
 Defects = {}
