---------------------------- MODULE NodeCacheTrace ----------------------------
(* Trace specification for recorded executions of the real                  *)
(* EventMgr._synchronize/_cache/_cache_notify on a real directory           *)
(* (harness/nodecache_driver.py).                                           *)
(*                                                                          *)
(* Batch file (env TRACE_FILE):                                             *)
(*   [insts, mvers, pvers, man : inst -> <<record per version>>,            *)
(*    pd : <<record per payload version, index p+1>>, task : inst -> id,    *)
(*    traces : << [tid, lines] >>]                                          *)
(* Line 1 of a trace is its initial state (+ ag = [pc, first]); every later *)
(* line is ONE observed call (`ev`, `args`, optional `exc`) with the        *)
(* projected state after it:                                                *)
(*   post.zk  = [pl : inst -> [data, new], man : inst -> record]            *)
(*   post.dir = name -> [dot, kind, parsed, f]   (f = parsed YAML mapping,  *)
(*              every value rendered as a string; parsed = FALSE and f = [] *)
(*              when the file is not a YAML mapping: "partial/unparseable") *)
(*                                                                          *)
(* TOTAL: every line is consumed, the logged post-state is adopted, and the *)
(* set of failed named clauses is printed.                                  *)
(*   C12.atomic   every line: every non-dot name holds a complete manifest  *)
(*                that is a snapshot for THAT instance; a non-dot name      *)
(*                appeared/changed only by an os.replace of a complete dot  *)
(*                file onto it                                              *)
(*   C12.noExtra  SyncEnd lines: non-dot names are a subset of `expected`   *)
(*   C12.present  SyncEnd lines, for every listed instance whose own        *)
(*                ZooKeeper nodes did not change during the sync (all of    *)
(*                them when the sync was undisturbed); also SyncExc lines  *)
(*                of an undisturbed sync that raised WITHOUT an injected    *)
(*                fault (it never completes: same data, same exception)     *)
(*   C12.content  SyncEnd lines of an undisturbed sync, files this sync     *)
(*                renamed into place only                                   *)
(*   C12.refresh  SyncEnd line of the undisturbed FIRST sync of a process   *)
(*                life: an entry that was older than its placement node at  *)
(*                SyncBegin holds manifest + current placement data         *)
(*   drift.step   the observed call is not the step the model (NodeCache's  *)
(*                En/Do) takes here, or its effect differs: this is how the *)
(*                SEQUENCE of write-path calls of every _cache is judged    *)
(*                (create dot tmp -> write* -> fchmod -> close -> replace   *)
(*                -> rm tmp).  Reported as DRIFT, exit 0.                   *)
EXTENDS NodeCache, TraceLib, Json, IOUtils

Batch == JsonDeserialize(IOEnv.TRACE_FILE)
Traces == Batch.traces

VARIABLES t, i          \* the third variable, st, is NodeCache's

TrInsts == SetOf(Batch.insts)
TrMVers == SetOf(Batch.mvers)
TrPVers == SetOf(Batch.pvers)
TrManRec(a, v) == Batch.man[a][v]
TrPDRec(p) == Batch.pd[p + 1]
TrTaskOf(a) == Batch.task[a]
TrPrior == TrMVers \X TrPVers

-----------------------------------------------------------------------------
(* observation <-> model state                                              *)

AsEntry(e) == [dot |-> e.dot, kind |-> e.kind, content |-> e.f, complete |-> e.parsed]
AsDir(od) == [nm \in DOMAIN od |-> AsEntry(od[nm])]
CanonZk(z) == [pl |-> [a \in DOMAIN z.pl |-> [data |-> z.pl[a].data, new |-> z.pl[a].new]],
               man |-> z.man, presence |-> z.presence, plnode |-> z.plnode]

(* the model's prediction agrees with what was observed: same ZooKeeper     *)
(* state, same names, same dot-ness, and wherever the model says "complete" *)
(* the file parses and holds exactly the predicted mapping.  (What an       *)
(* INCOMPLETE file holds on disk is not predicted: buffering.)              *)
(* `new` is not compared: it is the outcome of comparing two real time      *)
(* stamps and changes by itself when a file is replaced by a younger one;   *)
(* the observed value is adopted.                                           *)
PlData(z) == [a \in DOMAIN z.pl |-> z.pl[a].data]
ObsEq(pred, post) ==
  /\ PlData(pred.zk) = PlData(post.zk) /\ pred.zk.man = post.zk.man
  /\ pred.zk.presence = post.zk.presence /\ pred.zk.plnode = post.zk.plnode
  /\ DOMAIN pred.dir = DOMAIN post.dir
  /\ \A nm \in DOMAIN pred.dir :
        /\ pred.dir[nm].dot = post.dir[nm].dot
        /\ pred.dir[nm].complete =>
              (post.dir[nm].parsed /\ post.dir[nm].f = pred.dir[nm].content)

(* the state adopted after a line: ZooKeeper and directory as OBSERVED; for *)
(* a file the model tracks, `content` stays the model's target and          *)
(* `complete` says whether the observation has reached it                   *)
Adopt(pred, known, post) ==
  [nm \in DOMAIN post.dir |->
     LET c == IF known /\ nm \in DOMAIN pred.dir THEN pred.dir[nm].content
              ELSE post.dir[nm].f IN
     [dot |-> post.dir[nm].dot, kind |-> post.dir[nm].kind, content |-> c,
      complete |-> post.dir[nm].parsed /\ post.dir[nm].f = c]]

-----------------------------------------------------------------------------
(* observed call -> candidate model steps (in order of preference)          *)

Cand(ev, args) == [ev |-> ev, args |-> args]
CallNames(ev) == IF ev = "Unlink" THEN <<"UnlinkExtra", "UnlinkTmp">> ELSE <<ev>>

Cands(line) ==
  LET x == line.args IN
  IF "exc" \in DOMAIN line /\ line.ev # "SyncExc"
  THEN [k \in DOMAIN CallNames(line.ev) |-> Cand("IOError", <<CallNames(line.ev)[k]>>)]
  ELSE CASE line.ev = "Unlink" -> <<Cand("UnlinkExtra", <<x[1]>>), Cand("UnlinkTmp", <<x[1]>>)>>
         [] line.ev = "ZkGet" ->
              <<Cand(IF x[1] = "placement" THEN "ReadPlacement" ELSE "ReadManifest", <<x[2]>>)>>
         [] line.ev = "Write" -> <<Cand("Write", <<TRUE>>), Cand("Write", <<FALSE>>)>>
         [] line.ev = "Close" -> <<Cand("Close", <<>>), Cand("CloseErr", <<TRUE>>),
                                   Cand("CloseErr", <<FALSE>>)>>
         [] line.ev = "SyncBegin" -> <<Cand("SyncBegin", <<SetOf(x[1]), x[2]>>)>>
         [] line.ev = "SyncExc" -> <<Cand("Raise", <<>>)>>
         [] line.ev = "Rename" -> <<Cand("Rename", <<>>)>>
         [] OTHER -> <<Cand(line.ev, x)>>

Fits(s, c, post) == (En(s, c.ev, c.args) = TRUE) /\ ObsEq(Do(s, c.ev, c.args), post)

(* after the model lost track of a sync it re-joins at the next process     *)
(* level event                                                              *)
Rejoin(s, line) ==
  IF s.ag.pc = "lost" /\ line.ev = "SyncBegin" THEN [s EXCEPT !.ag.pc = "idle"]
  ELSE IF s.ag.pc = "lost" /\ line.ev = "Restart" THEN [s EXCEPT !.ag.pc = "dead"]
  ELSE IF s.ag.pc = "lost" /\ line.ev = "Boot" THEN [s EXCEPT !.ag.pc = "down"]
  ELSE s

EnvEvs == {"Place", "Unplace", "SetPD", "SetMan", "DelMan"}
(* lines that only the live run() loop produces (readiness extension) *)
LiveEvs == {"LiveStart", "CacheNotify", "ZkExists", "Sleep", "Heartbeat",
            "PresenceAppears", "PresenceDisappears", "PlacementAppears", "PlacementDisappears"}
LostRd(s, line) ==
  CASE line.ev \in {"Restart", "Boot"} -> [Rd0 EXCEPT !.wd = s.rd.wd]
    [] line.ev = "LiveStart" -> LiveStartDo(s).rd
    [] OTHER -> s.rd

(* bookkeeping the clauses need, kept even when the step is not explained   *)
LostAg(s, line) ==
  LET ag1 == [s.ag EXCEPT
        !.written = IF line.ev = "Rename" /\ "exc" \notin DOMAIN line
                    THEN @ \cup {line.args[2]} ELSE @,
        !.disturbed = IF line.ev \in EnvEvs THEN TRUE ELSE @,
        !.touched = IF line.ev \in EnvEvs THEN @ \cup {line.args[1]} ELSE @,
        !.pc = "lost"]
  IN CASE line.ev = "SyncBegin" ->
            SyncBeginDo(s, SetOf(line.args[1]), line.args[2]).ag
       [] line.ev = "SyncEnd" -> [ag1 EXCEPT !.pc = "synced"]
       [] line.ev = "SyncExc" -> [ag1 EXCEPT !.pc = "failed"]
       [] line.ev = "Crash" -> [ag1 EXCEPT !.pc = "dead"]
       [] line.ev = "Restart" -> [Ag0 EXCEPT !.pc = "idle"]
       [] line.ev = "Boot" -> [Ag0 EXCEPT !.pc = "idle"]
       [] OTHER -> ag1

-----------------------------------------------------------------------------
(* clauses on the observation                                               *)

F(name, holds) == IF holds THEN {} ELSE {name}
E(name, cond) == IF cond THEN {name} ELSE {}

ObsChanged(pre, post, nm) ==
  \/ nm \notin DOMAIN pre
  \/ pre[nm].parsed # post[nm].parsed
  \/ pre[nm].f # post[nm].f

(* C12.atomic, step part, on raw observations (pre, post = name -> entry)   *)
StepOk(pre, line, post) ==
  \/ line.ev \in {"PriorFile", "PriorTmp", "PriorEmpty"}   \* the directory's prior life
  \/ \A nm \in DOMAIN post :
       (~post[nm].dot /\ ObsChanged(pre, post, nm)) =>
          /\ line.ev = "Rename" /\ "exc" \notin DOMAIN line
          /\ line.args[2] = nm
          /\ LET src == line.args[1] IN
               /\ src \in DOMAIN pre /\ src \notin DOMAIN post
               /\ pre[src].dot /\ pre[src].parsed
               /\ pre[src].f = post[nm].f

(* ext.ready.* : the readiness side of run() (DRIFT class, never VIOLATION)  *)
(*   step       the line is not the step the model of the loop takes here     *)
(*   rule       at every _cache_notify: `.ready` exists iff its argument says  *)
(*              so; when the loop goes to sleep: `.ready` exists iff the       *)
(*              presence node exists and the placement latch is set            *)
(*   firstSync  `.ready` present (after the start-up notify) => a first sync   *)
(*              of this process life has returned                              *)
(*   wd         the watchdog lease exists whenever the loop goes to sleep      *)
ReadyFail(s, line, post, rd2, explained) ==
  LET has == ReadyName \in DOMAIN post.dir
      inlive == s.rd.live \/ rd2.live \/ line.ev \in LiveEvs IN
  IF ~inlive THEN {}
  ELSE F("ext.ready.step", explained)
       \cup (IF line.ev = "CacheNotify" THEN F("ext.ready.rule", has = line.args[1]) ELSE {})
       \cup (IF line.ev = "Sleep"
             THEN F("ext.ready.rule", has = (post.zk.presence /\ rd2.plRdy))
                  \cup F("ext.ready.wd", post.wd)
             ELSE {})
       \cup (IF rd2.live /\ rd2.pc # "pw" /\ line.ev # "LiveStart"
             THEN F("ext.ready.firstSync", has => rd2.sync1) ELSE {})

ReadyEx(s, line, post, rd2) ==
  E("ext.ready", line.ev = "Sleep")
  \cup E("ext.ready.frozen", line.ev = "Sleep" /\ rd2.plRdy /\ ~rd2.watch)
  \cup E("ext.ready.reappear", line.ev = "PlacementAppears" /\ rd2.live)
  \cup E("ext.ready.presenceFlip", line.ev = "CacheNotify" /\ s.rd.cb = "pres")
  \cup E("ext.ready.lateWatch", line.ev = "ZkExists" /\ s.rd.sync1 = FALSE /\ s.n.hb > 0 /\ line.args[1])

(* zero-length files of the directory's PRIOR life (PriorEmpty) are not the    *)
(* agent's writes: as long as such an entry is still the untouched empty file *)
(* it is left out of the "absent or complete" state clause (it stays in every *)
(* other clause: noExtra must see it go)                                     *)
JunkAfter(junk, line, pdir) ==
  {nm \in junk \cup (IF line.ev = "PriorEmpty" THEN {line.args[1]} ELSE {}) :
      nm \in DOMAIN pdir /\ ~pdir[nm].parsed /\ pdir[nm].kind = "file" /\ ~pdir[nm].dot}
Blankless(od, line, pdir, junk) ==
  LET j == JunkAfter(junk, line, pdir) IN [nm \in DOMAIN od \ j |-> od[nm]]

Verdict(s, line, post, ag2, rd2, explained) ==
  LET od == AsDir(post.dir)
      zk == CanonZk(post.zk)
      end == line.ev = "SyncEnd"
      calm == end /\ ~ag2.disturbed
      \* the synchronisation raised although no fault was injected and nothing
      \* changed under it: it will do so again after every restart, so a placed
      \* instance whose manifest exists stays without a cache file
      selfexc == line.ev = "SyncExc" /\ ~line.injected /\ ~ag2.disturbed
  IN [fail |->
        F("C12.atomic", AtomicState(Blankless(od, line, post.dir, s.junk)) /\ StepOk(s.obs, line, post.dir))
        \cup (IF end THEN F("C12.noExtra", NoExtra(od, ag2.expected)) ELSE {})
        \cup (IF end \/ selfexc
              THEN F("C12.present", Present(od, zk, ag2.expected \ ag2.touched)) ELSE {})
        \cup (IF calm THEN F("C12.content", Content(od, zk, ag2.written)) ELSE {})
        \cup (IF calm /\ ag2.start THEN F("C12.refresh", Refresh(od, zk, ag2.stale0)) ELSE {})
        \cup (IF s.rd.live \/ rd2.live \/ line.ev \in LiveEvs THEN {} ELSE F("drift.step", explained))
        \cup ReadyFail(s, line, post, rd2, explained),
      ex |->
        E("C12", \/ line.ev = "Rename" /\ "exc" \notin DOMAIN line
                 \/ line.ev = "Unlink" /\ line.args[1] \in DOMAIN s.obs /\ ~s.obs[line.args[1]].dot
                 \/ line.ev \in {"Crash", "SyncExc"})
        \cup ReadyEx(s, line, post, rd2)
        \cup E("sync", calm /\ ag2.expected # {})
        \cup E("written", calm /\ ag2.written # {})
        \cup E("conc", end /\ ag2.disturbed)
        \cup E("vanished", end /\ \E a \in ag2.expected \cap ag2.touched : a \notin DOMAIN zk.pl)
        \cup E("refresh", calm /\ ag2.start /\ \E a \in ag2.stale0 :
                              a \in DOMAIN zk.pl /\ a \in DOMAIN zk.man)
        \cup E("crash", line.ev = "Crash")
        \cup E("blank", line.ev = "Unlink" /\ line.args[1] \in s.junk)
        \cup E("crashTmp", line.ev = "Crash" /\ \E nm \in DOMAIN post.dir :
                               post.dir[nm].dot /\ nm \notin s.ag.tmps0 /\ nm # ReadyName)
        \cup E("ioerr", "exc" \in DOMAIN line /\ line.ev # "SyncExc")
        \cup E("upToDate", line.ev = "ZkGet" /\ explained /\ line.args[1] = "placement"
                           /\ s.ag.missing = {} /\ ag2.pc = "loop"
                           /\ line.args[2] \in DOMAIN zk.pl)]

-----------------------------------------------------------------------------
L1 == Traces[t].lines[1]

TInit == /\ t \in DOMAIN Traces
         /\ i = 1
         /\ st = [zk |-> CanonZk(L1.post.zk), dir |-> AsDir(L1.post.dir),
                 ag |-> [Ag0 EXCEPT !.pc = L1.ag.pc, !.first = L1.ag.first],
                 rd |-> Rd0, n |-> St0.n, okstep |-> TRUE, obs |-> L1.post.dir,
                 \* zero-length prior files created before the recorded part of the history began
                 junk |-> {nm \in SetOf(Get(L1, "blank0", <<>>)) :
                             nm \in DOMAIN L1.post.dir /\ ~L1.post.dir[nm].parsed}]

TNext == /\ i < Len(Traces[t].lines)
         /\ i' = i + 1
         /\ t' = t
         /\ LET line == Traces[t].lines[i + 1]
                post == line.post
                s == Rejoin(st, line)
                cs == Cands(line)
                hits == {k \in DOMAIN cs : Fits(s, cs[k], post)}
                explained == hits # {}
                k0 == CHOOSE k \in hits : \A j \in hits : k <= j
                pred == IF explained THEN Do(s, cs[k0].ev, cs[k0].args) ELSE s
                ag2 == IF explained
                       THEN [pred.ag EXCEPT
                               !.disturbed = @ \/ (s.ag.pc = "lost" /\ line.ev \in EnvEvs),
                               !.touched = IF s.ag.pc = "lost" /\ line.ev \in EnvEvs
                                           THEN @ \cup {line.args[1]} ELSE @]
                       ELSE LostAg(s, line)
                rd2 == IF explained THEN pred.rd ELSE LostRd(s, line)
                v == Verdict(s, line, post, ag2, rd2, explained)
            IN /\ st' = [zk |-> CanonZk(post.zk), dir |-> Adopt(pred, explained, post),
                         ag |-> ag2, rd |-> rd2,
                         n |-> IF explained THEN pred.n ELSE s.n,
                         okstep |-> TRUE, obs |-> post.dir,
                         junk |-> JunkAfter(s.junk, line, post.dir)]
               /\ PrintT(ToJson([tid |-> Traces[t].tid, i |-> i, fail |-> v.fail, ex |-> v.ex]))

TraceSpec == TInit /\ [][TNext]_<<t, i, st>>
=============================================================================
