SPECIFICATION Spec
CONSTANTS
  Names = {"w1", "w2"}
  Timeouts = {2, 4}
  MaxTime = 9
INVARIANTS TypeOK InvAliveNotFailed InvSilentFailed InvNoGhost InvDeadline
CHECK_DEADLOCK FALSE
