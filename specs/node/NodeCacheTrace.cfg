INIT TInit
NEXT TNext
CHECK_DEADLOCK FALSE
CONSTANTS
 Insts <- TrInsts
 MVers <- TrMVers
 PVers <- TrPVers
 ManRec <- TrManRec
 PDRec <- TrPDRec
 TaskOf <- TrTaskOf
 PriorVers <- TrPrior
 Defects = {}
 NewFlags = {TRUE, FALSE}
 MaxSetup = 99
 MaxEnv = 99
 MaxConc = 99
 MaxCrash = 99
 MaxErr = 99
 MaxSync = 99
 MaxWrites = 1000000
 MaxPrior = 99
 MaxRd = 99
 MaxHb = 99
