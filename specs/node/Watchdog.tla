------------------------------ MODULE Watchdog ------------------------------
(* Model-checked form of WatchdogOps (see there). *)
EXTENDS WatchdogOps

CONSTANTS Timeouts, MaxTime

VARIABLES st, beat      \* beat[n]: time of the holder's last create/heartbeat (observer)
vars == <<st, beat>>

Init == st = Init0 /\ beat = [n \in Names |-> 0]

Create(n, t) == st' = DoCreate(st, n, t) /\ beat' = [beat EXCEPT ![n] = st.now]
Heartbeat(n) == CanHeartbeat(st, n) /\ st' = DoHeartbeat(st, n) /\ beat' = [beat EXCEPT ![n] = st.now]
Remove(n) == CanRemove(st, n) /\ st' = DoRemove(st, n) /\ UNCHANGED beat
Lose(n) == st.dl[n] # None /\ st' = DoLose(st, n) /\ UNCHANGED beat
Initialize == st' = DoInitialize(st) /\ UNCHANGED beat
Tick(d) == st.now + d <= MaxTime /\ st' = DoTick(st, d) /\ UNCHANGED beat

Next == \/ \E n \in Names, t \in Timeouts : Create(n, t)
        \/ \E n \in Names : Heartbeat(n) \/ Remove(n) \/ Lose(n)
        \/ Initialize
        \/ \E d \in 1..3 : Tick(d)

Spec == Init /\ [][Next]_vars

TypeOK == st.now \in 1..MaxTime /\ \A n \in Names : st.dl[n] \in 0..(MaxTime + 10) /\ st.held[n] \in {None} \cup Timeouts

(* a holder that beat less than its timeout ago is never reported *)
InvAliveNotFailed == \A n \in Names :
   (st.held[n] # None /\ st.dl[n] # None /\ st.now < beat[n] + st.held[n]) => n \notin Failed(st)
(* a held lease whose file is there and whose holder has been silent for its timeout IS reported *)
InvSilentFailed == \A n \in Names :
   (st.held[n] # None /\ st.dl[n] # None /\ st.dl[n] = beat[n] + st.held[n] /\ st.now >= beat[n] + st.held[n]) => n \in Failed(st)
(* removed or never created leases are never reported; a lost file is not reported either (until the next heartbeat re-creates it) *)
InvNoGhost == \A n \in Failed(st) : st.dl[n] # None
(* a deadline is always a time some holder asked for *)
InvDeadline == \A n \in Names : st.dl[n] # None => \E t \in Timeouts : st.dl[n] <= st.now + t
=============================================================================
