------------------------------- MODULE NetReg -------------------------------
(* C16 -- what giving a container its private network registers on the host  *)
(* (runtime/linux/_run.py:_unshare_network) and what finishing the container *)
(* removes again (runtime/linux/_finish.py:_cleanup_network), for any        *)
(* manifest and any interleaving of several containers.                      *)
(*                                                                           *)
(* Host state: rules/ and endpoints/ as relations {<<entry, owner>>} (same   *)
(* symlink databases as Owners.tla: create refuses a foreign entry, unlink   *)
(* is owner-checked), the two ip-sets tm:vring-containers and                *)
(* tm:container-infra-services, and the network resources (container -> vip) *)
(* the network service holds.                                                *)
(*                                                                           *)
(* Entries (all fields strings, as the harness parses them back with the     *)
(* real RuleMgr.get_rule / EndpointsMgr.get_specs):                          *)
(*   rule  <<kind, chain, proto, src_ip, src_port, dst_ip, dst_port,         *)
(*           new_ip, new_port>>          ("*" = any)                         *)
(*   spec  <<appname, proto, endpoint, real_port, pid, port>>                *)
(*   infra <<vip, proto, port>>          vring member = vip                  *)
(*                                                                           *)
(* A *raw* manifest is what the schema admits (endpoints with port possibly  *)
(* 0, numbers of ephemeral ports, passthrough host names ...); a *registered*)
(* manifest is what state.json holds after runtime.allocate_network_ports    *)
(* (real ports chosen, port 0 replaced by the real port).  Start registers   *)
(* from the registered manifest, Finish reconstructs from the same file.     *)
EXTENDS Naturals, Sequences, FiniteSets, TLC

CONSTANTS Containers,   \* container names
          Pool,         \* sequence: vips the network service can hand out
          ExtIp,        \* the node's external address
          RawSpace,     \* container -> set of raw manifests it may be started with
          RealPorts,    \* container -> sequence of host ports the allocator yields when AllocAny = FALSE
          AllocAny,     \* TRUE: AllocPorts may return any outcome of the allocation algorithm
          PortPool,     \* "prod" / "nonprod" -> set of ports of that range (model checking)
          Busy,         \* ports some other process on the host is bound to (skipped: EADDRINUSE)
          Pids,         \* container -> pid string of its `treadmill run` process
          Dns,          \* host name -> address (pinned resolution)
          MaxFinish,    \* how often a (successful) finish may run per container
          MaxFail,      \* 0: finishes never fail; 1: one aborted attempt per container
          Defects

VARIABLE st

DNAT  == "TM_PREROUTING_DNAT"
SNAT  == "TM_POSTROUTING_SNAT"
PASST == "TM_PASSTHROUGH"

SeqSet(q) == {q[k] : k \in DOMAIN q}
PoolSet == SeqSet(Pool)

(* ------------------------------------------------------------------------ *)
(* registered manifest from a raw one (model checking only: in a recorded    *)
(* trace the registered manifest is read from state.json)                    *)
(* ---- port allocation (runtime.allocate_network_ports; beyond C16) -------- *)
(* For each protocol: the range of the manifest's environment (uat, prod ->   *)
(* the prod range, everything else the non-prod range), shuffled; walk it,    *)
(* bind a socket to each port that is not in use, until there are as many     *)
(* sockets as the manifest has endpoints of that protocol plus ephemeral      *)
(* ports; the endpoints get the first ones in manifest order, the rest are    *)
(* the ephemeral ports; an endpoint with port 0 gets its real port as         *)
(* container port.  The sockets stay bound (tcp and udp are separate spaces). *)
PortClass(env) == IF env \in {"uat", "prod"} THEN "prod" ELSE "nonprod"
NeedOf(raw, proto) ==
  Cardinality({k \in DOMAIN raw.eps : raw.eps[k].proto = proto})
  + (IF proto = "tcp" THEN raw.etcp ELSE raw.eudp)
HeldPorts(s, proto) == {p[3] : p \in {q \in s.ports : q[2] = proto}}
FreePorts(s, raw, proto) ==
  (PortPool[PortClass(raw.env)] \ Busy)
  \ (IF "alloc_ignores_held" \in Defects THEN {} ELSE HeldPorts(s, proto))
Injective(q) == \A i, j \in DOMAIN q : q[i] = q[j] => i = j
Allocs(s, c, raw) ==
  IF AllocAny
  THEN {[tcp |-> t, udp |-> u] :
          t \in {q \in [1..NeedOf(raw, "tcp") -> FreePorts(s, raw, "tcp")] : Injective(q)},
          u \in {q \in [1..NeedOf(raw, "udp") -> FreePorts(s, raw, "udp")] : Injective(q)}}
  ELSE {[tcp |-> SubSeq(RealPorts[c], 1, NeedOf(raw, "tcp")),
         udp |-> SubSeq(RealPorts[c], NeedOf(raw, "tcp") + 1,
                        NeedOf(raw, "tcp") + NeedOf(raw, "udp"))]}

(* registered manifest from a raw one and an allocation *)
Reg(c, raw, al) ==
  LET ne == Len(raw.eps)
      idx(k) == Cardinality({i \in 1..k : raw.eps[i].proto = raw.eps[k].proto})
      real(k) == al[raw.eps[k].proto][idx(k)]
      nep(proto) == Cardinality({k \in 1..ne : raw.eps[k].proto = proto}) IN
  [app |-> raw.app, shared |-> raw.shared, vring |-> raw.vring, pid |-> Pids[c], env |-> raw.env,
   eps |-> {[name |-> raw.eps[k].name, proto |-> raw.eps[k].proto, infra |-> raw.eps[k].infra,
             real |-> real(k),
             port |-> IF raw.eps[k].port = "0" THEN real(k) ELSE raw.eps[k].port] : k \in 1..ne},
   etcp |-> {al.tcp[nep("tcp") + j] : j \in 1..raw.etcp},
   eudp |-> {al.udp[nep("udp") + j] : j \in 1..raw.eudp},
   pass |-> {Dns[h] : h \in SeqSet(raw.pass)}]

PortsOf(rm, proto) ==
  {e.real : e \in {x \in rm.eps : x.proto = proto}} \cup (IF proto = "tcp" THEN rm.etcp ELSE rm.eudp)

(* ext.ports.distinct: the ports of one container are pairwise distinct per   *)
(* protocol (as many different ports as were asked for) and none of them is   *)
(* bound by another running container.                                        *)
ExtPortsDistinct(pre, c, raw, rm) ==
  \A proto \in {"tcp", "udp"} :
     /\ Cardinality(PortsOf(rm, proto)) = NeedOf(raw, proto)
     /\ \A q \in pre.ports : (q[1] # c /\ q[2] = proto) => q[3] \notin PortsOf(rm, proto)
(* ext.ports.assign: `port: 0` endpoints get the allocated port, explicit     *)
(* ports are kept; every endpoint of the manifest is there.                   *)
ExtPortsAssign(raw, rm) ==
  /\ Cardinality(rm.eps) = Len(raw.eps)
  /\ \A k \in DOMAIN raw.eps : \E e \in rm.eps :
        /\ e.name = raw.eps[k].name /\ e.proto = raw.eps[k].proto
        /\ e.port = (IF raw.eps[k].port = "0" THEN e.real ELSE raw.eps[k].port)
(* ext.ports.range, model checking form (recorded traces compare numbers)     *)
ExtPortsRangePool(rm) ==
  /\ PortPool["prod"] \cap PortPool["nonprod"] = {}
  /\ \A proto \in {"tcp", "udp"} : PortsOf(rm, proto) \subseteq PortPool[PortClass(rm.env)]

(* is rm a registration of raw?  (conformance of the allocator, drift only)  *)
RegOk(raw, rm) ==
  /\ rm.app = raw.app /\ rm.shared = raw.shared /\ rm.env = raw.env
  /\ Cardinality(rm.eps) = Len(raw.eps)
  /\ \A k \in DOMAIN raw.eps : \E e \in rm.eps :
        /\ e.name = raw.eps[k].name /\ e.proto = raw.eps[k].proto /\ e.infra = raw.eps[k].infra
        /\ e.port = (IF raw.eps[k].port = "0" THEN e.real ELSE raw.eps[k].port)
  /\ Cardinality(rm.etcp) = raw.etcp /\ Cardinality(rm.eudp) = raw.eudp
  /\ rm.pass = {Dns[h] : h \in SeqSet(raw.pass)}
  /\ \A e1, e2 \in rm.eps : (e1.proto = e2.proto /\ e1.real = e2.real) => e1 = e2
  /\ \A e \in rm.eps : e.real \notin (IF e.proto = "tcp" THEN rm.etcp ELSE rm.eudp)

(* ------------------------------------------------------------------------ *)
(* Regs(m): what _unshare_network registers for a registered manifest        *)
DnatRule(proto, real, vip, port) == <<"dnat", DNAT, proto, "*", "*", ExtIp, real, vip, port>>
SnatRule(proto, real, vip, port) == <<"snat", SNAT, proto, vip, port, "*", "*", ExtIp, real>>
PassRule(src, vip) == <<"passthrough", PASST, "*", src, "*", vip, "*", "*", "*">>

EpRules(rm, vip) ==
  UNION {{DnatRule(e.proto, e.real, vip, e.port), SnatRule(e.proto, e.real, vip, e.port)} : e \in rm.eps}
EphRules(ports, proto, vip) == {DnatRule(proto, p, vip, p) : p \in ports}
PassRules(rm, vip) == {PassRule(ip, vip) : ip \in rm.pass}

RuleRegs(rm, vip) ==
  EpRules(rm, vip) \cup EphRules(rm.etcp, "tcp", vip) \cup EphRules(rm.eudp, "udp", vip)
  \cup PassRules(rm, vip)
SpecRegs(rm) == {<<rm.app, e.proto, e.name, e.real, rm.pid, e.port>> : e \in rm.eps}
(* the vring member is added inside the per-endpoint loop; app.vring is an   *)
(* object (`{cells: [...]}` after manifest.load) and therefore always true   *)
VringRegs(rm, vip) == IF rm.eps = {} THEN {} ELSE {vip}
EpInfra(rm, vip) == {<<vip, e.proto, e.port>> : e \in {x \in rm.eps : x.infra}}
EphInfra(ports, proto, vip) == {<<vip, proto, p>> : p \in ports}
InfraRegs(rm, vip) ==
  EpInfra(rm, vip) \cup EphInfra(rm.etcp, "tcp", vip) \cup EphInfra(rm.eudp, "udp", vip)

(* what _cleanup_network reconstructs (deviations selectable for the         *)
(* demonstration that the model notices them)                                *)
NoUdp == "finish_skips_udp_ephemeral" \in Defects
FinRules(rm, vip) ==
  EpRules(rm, vip) \cup EphRules(rm.etcp, "tcp", vip)
  \cup (IF NoUdp THEN {} ELSE EphRules(rm.eudp, "udp", vip))
  \cup PassRules(rm, vip)
FinInfra(rm, vip) ==
  EpInfra(rm, vip) \cup EphInfra(rm.etcp, "tcp", vip)
  \cup (IF NoUdp THEN {} ELSE EphInfra(rm.eudp, "udp", vip))

(* ------------------------------------------------------------------------ *)
HasNet(s, c) == \E p \in s.net : p[1] = c
VipOf(s, c)  == (CHOOSE p \in s.net : p[1] = c)[2]
FreeVips(s)  == {v \in PoolSet : \A p \in s.net : p[2] # v}
HasMan(s, c) == \E p \in s.man : p[1] = c
ManOf(s, c)  == (CHOOSE p \in s.man : p[1] = c)[2]
FinCount(s, c) == Cardinality({p \in s.fin : p[1] = c})
Started(s) == {p[1] : p \in s.man}
Finished(s) == {p[1] : p \in s.fin}
Running(s) == Started(s) \ Finished(s)

R(post, res) == [post |-> post, res |-> res]

(* A finish attempt is a sequence of removals in the order of                 *)
(* _cleanup_network: passthrough rules, vring member, endpoint specs,         *)
(* endpoint rules and infra members, tcp ephemeral, udp ephemeral, and last   *)
(* the release of the network resource.  FinishFail(c, j): the attempt is     *)
(* aborted by an I/O style error after j of these groups (the exception       *)
(* leaves _cleanup_network, nothing after the failing call runs); the         *)
(* supervisor then runs the finish again from the top.                        *)
NGroups == 6
FinGroup(m, w, c, g) ==
  CASE g = 1 -> [rules |-> {<<r, c>> : r \in PassRules(m, w)}, specs |-> FALSE, vring |-> {}, infra |-> {}]
    [] g = 2 -> [rules |-> {}, specs |-> FALSE, vring |-> {w}, infra |-> {}]
    [] g = 3 -> [rules |-> {}, specs |-> TRUE, vring |-> {}, infra |-> {}]
    [] g = 4 -> [rules |-> {<<r, c>> : r \in EpRules(m, w)}, specs |-> FALSE, vring |-> {},
                 infra |-> EpInfra(m, w)]
    [] g = 5 -> [rules |-> {<<r, c>> : r \in EphRules(m.etcp, "tcp", w)}, specs |-> FALSE,
                 vring |-> {}, infra |-> EphInfra(m.etcp, "tcp", w)]
    [] g = 6 -> [rules |-> {<<r, c>> : r \in EphRules(m.eudp, "udp", w)}, specs |-> FALSE,
                 vring |-> {}, infra |-> EphInfra(m.eudp, "udp", w)]
ApplyGroup(s, m, c, grp) ==
  [s EXCEPT !.rules = @ \ grp.rules,
            !.specs = IF grp.specs THEN {p \in @ : ~(p[1][1] = m.app /\ p[2] = c)} ELSE @,
            !.vring = @ \ grp.vring,
            !.infra = @ \ grp.infra]
RECURSIVE FinPrefix(_, _, _, _, _)
FinPrefix(s, m, w, c, j) ==
  IF j = 0 THEN s ELSE ApplyGroup(FinPrefix(s, m, w, c, j - 1), m, c, FinGroup(m, w, c, j))

Choices(s, ev, c, rm) ==
  IF ev = "Start" /\ ~rm.shared /\ FreeVips(s) # {} THEN FreeVips(s)
  ELSE IF ev = "FinishFail" THEN 0..NGroups
  ELSE {"-"}

(* one call.  rm is only read for Start.                                     *)
Step(s, ev, c, rm, v) ==
  CASE ev = "Start" ->
         (* the sockets stay bound while the container runs; with a shared     *)
         (* network run() closes them before the supervisor starts            *)
         LET s0 == [s EXCEPT !.man = @ \cup {<<c, rm>>}]
             s1 == IF rm.shared \/ ~("eps" \in DOMAIN rm) THEN s0
                   ELSE [s0 EXCEPT !.ports = @ \cup {<<c, "tcp", p>> : p \in PortsOf(rm, "tcp")}
                                               \cup {<<c, "udp", p>> : p \in PortsOf(rm, "udp")}] IN
         IF rm.shared THEN R(s1, "ok")                 \* run(): `if not app.shared_network`
         ELSE IF v = "-" THEN R(s1, "raise")           \* no network resource
         ELSE R([s1 EXCEPT !.net = @ \cup {<<c, v>>},
                           !.rules = @ \cup {<<r, c>> : r \in RuleRegs(rm, v)},
                           !.specs = @ \cup {<<x, c>> : x \in SpecRegs(rm)},
                           !.vring = @ \cup VringRegs(rm, v),
                           !.infra = @ \cup InfraRegs(rm, v)], "ok")
    [] ev = "Finish" ->
         LET s1 == [s EXCEPT !.fin = @ \cup {<<c, FinCount(s, c) + 1>>},
                             !.ports = {q \in @ : q[1] # c}]
             m == ManOf(s, c) IN
         IF m.shared \/ ~HasNet(s, c) THEN R(s1, "ok") \* nothing to do / already freed
         ELSE LET w == VipOf(s, c) IN
              R([s1 EXCEPT !.rules = @ \ {<<r, c>> : r \in FinRules(m, w)},
                           !.specs = {p \in @ : ~(p[1][1] = m.app /\ p[2] = c)},
                           !.vring = @ \ {w},
                           !.infra = @ \ FinInfra(m, w),
                           !.net = @ \ {<<c, w>>}], "ok")
    [] ev = "FinishFail" ->
         (* v = number of groups done before the error; the network resource  *)
         (* is released last, so an aborted attempt keeps it (a deviation:    *)
         (* release it in a `finally`)                                        *)
         LET s1 == [s EXCEPT !.failed = @ \cup {c}, !.ports = {q \in @ : q[1] # c}]
             m == ManOf(s, c) IN
         IF m.shared \/ ~HasNet(s, c) THEN R(s1, "raise")
         ELSE LET w == VipOf(s, c)
                  s2 == FinPrefix(s1, m, w, c, v) IN
              IF "finish_frees_net_on_abort" \in Defects
              THEN R([s2 EXCEPT !.net = @ \ {<<c, w>>}], "raise")
              ELSE R(s2, "raise")

(* ------------------------------------------------------------------------ *)
(* observation, and the memory the clauses need: what each start added       *)
Host(s) == [rules |-> s.rules, specs |-> s.specs, vring |-> s.vring, infra |-> s.infra]
Delta(pre, post) == [rules |-> post.rules \ pre.rules, specs |-> post.specs \ pre.specs,
                     vring |-> post.vring \ pre.vring, infra |-> post.infra \ pre.infra]
NoDelta == [rules |-> {}, specs |-> {}, vring |-> {}, infra |-> {}]
AddedBy(s, c) == IF \E p \in s.mem : p[1] = c THEN (CHOOSE p \in s.mem : p[1] = c)[2] ELSE NoDelta
Remember(pre, ev, c, post) ==
  IF ev = "Start" THEN [post EXCEPT !.mem = pre.mem \cup {<<c, Delta(pre, post)>>}]
  ELSE [post EXCEPT !.mem = pre.mem]

Others(s, c) == Running(s) \ {c}
OthersAdded(s, c) ==
  [rules |-> UNION {AddedBy(s, d).rules : d \in Others(s, c)},
   specs |-> UNION {AddedBy(s, d).specs : d \in Others(s, c)},
   vring |-> UNION {AddedBy(s, d).vring : d \in Others(s, c)},
   infra |-> UNION {AddedBy(s, d).infra : d \in Others(s, c)}]

(* C16.clean -- "the rule files, endpoint specs and IP-set entries created   *)
(* while giving a container its private network are all removed again when   *)
(* the container is finished, leaving the host's rule directory, endpoint    *)
(* directory and IP sets as they were": after the first Finish(c) nothing    *)
(* that Start(c) was *observed* to add is left (unless another running       *)
(* container's start added the very same thing), and Finish added nothing.   *)
C16clean(pre, c, post) ==
  LET mine == AddedBy(pre, c)
      oth == OthersAdded(pre, c) IN
  /\ (mine.rules \cap post.rules) \subseteq oth.rules
  /\ (mine.specs \cap post.specs) \subseteq oth.specs
  /\ (mine.vring \cap post.vring) \subseteq oth.vring
  /\ (mine.infra \cap post.infra) \subseteq oth.infra
  /\ post.rules \subseteq pre.rules /\ post.specs \subseteq pre.specs
  /\ post.vring \subseteq pre.vring /\ post.infra \subseteq pre.infra

(* C16.others -- "never removes an entry belonging to another container":    *)
(* files owned by someone else stay; ip-set members another running          *)
(* container's start added (and this one's did not) stay.                    *)
C16others(pre, c, post) ==
  LET mine == AddedBy(pre, c)
      oth == OthersAdded(pre, c) IN
  /\ \A p \in pre.rules : p[2] # c => p \in post.rules
  /\ \A p \in pre.specs : p[2] # c => p \in post.specs
  /\ ((pre.vring \cap oth.vring) \ mine.vring) \subseteq post.vring
  /\ ((pre.infra \cap oth.infra) \ mine.infra) \subseteq post.infra

(* C16.idempotent -- "finishing is safe to repeat": a repeated Finish(c)     *)
(* raises nothing and changes nothing.                                       *)
C16idempotent(pre, res, post) ==
  res = "ok" /\ Host(post) = Host(pre)

FailIf(name, holds) == IF holds THEN {} ELSE {name}
FlagIf(name, cond) == IF cond THEN {name} ELSE {}

StepFail(pre, ev, c, res, post) ==
  IF ev = "FinishFail" THEN FailIf("C16.others", C16others(pre, c, post))
  ELSE IF ev # "Finish" THEN {}
  ELSE IF c \in Finished(pre)
       THEN FailIf("C16.idempotent", C16idempotent(pre, res, post))
            \cup FailIf("C16.others", C16others(pre, c, post))
       ELSE FailIf("C16.clean", C16clean(pre, c, post))
            \cup FailIf("C16.others", C16others(pre, c, post))

StepEx(pre, ev, c, post) ==
  FlagIf("registered", ev = "Finish" /\ c \notin Finished(pre) /\ AddedBy(pre, c) # NoDelta)
  \cup FlagIf("others", ev = "Finish" /\ \E d \in Others(pre, c) : AddedBy(pre, d) # NoDelta)
  \cup FlagIf("repeat", ev = "Finish" /\ c \in Finished(pre))
  \cup FlagIf("retried", ev = "Finish" /\ c \notin Finished(pre) /\ c \in pre.failed
                          /\ AddedBy(pre, c) # NoDelta)

(* ------------------------------------------------------------------------ *)
Init == st = [rules |-> {}, specs |-> {}, vring |-> {}, infra |-> {}, net |-> {},
              man |-> {}, fin |-> {}, failed |-> {}, ports |-> {}, mem |-> {}, bad |-> {}]

Advance(ev, c, rm, extfail) ==
  \E v \in Choices(st, ev, c, rm) :
     LET r == Step(st, ev, c, rm, v)
         p == Remember(st, ev, c, r.post) IN
     st' = [p EXCEPT !.bad = st.bad \cup StepFail(st, ev, c, r.res, p) \cup extfail]

NoMan == [shared |-> TRUE]

(* AllocPorts(c) is the first half of a start: any outcome of the algorithm   *)
ExtPortsFail(pre, c, raw, rm) ==
  FailIf("ext.ports.distinct", ExtPortsDistinct(pre, c, raw, rm))
  \cup FailIf("ext.ports.assign", ExtPortsAssign(raw, rm))
  \cup (IF AllocAny THEN FailIf("ext.ports.range", ExtPortsRangePool(rm)) ELSE {})
Start(c, raw) == /\ c \notin Started(st)
                 /\ \E al \in Allocs(st, c, raw) :
                      LET rm == Reg(c, raw, al) IN
                      Advance("Start", c, rm, ExtPortsFail(st, c, raw, rm))
Finish(c) == /\ c \in Started(st)
             /\ FinCount(st, c) < MaxFinish
             /\ Advance("Finish", c, NoMan, {})

(* one failed attempt per container, only where a finish has work to do *)
FinishFail(c, j) == /\ MaxFail > 0
                    /\ c \in Started(st) /\ c \notin Finished(st) /\ c \notin st.failed
                    /\ ~ManOf(st, c).shared /\ HasNet(st, c)
                    /\ \E v \in {j} : LET r == Step(st, "FinishFail", c, NoMan, v)
                                         p == Remember(st, "FinishFail", c, r.post) IN
                         st' = [p EXCEPT !.bad = st.bad \cup StepFail(st, "FinishFail", c, r.res, p)]

Next == \/ \E c \in Containers : \E raw \in RawSpace[c] : Start(c, raw)
        \/ \E c \in Containers : Finish(c)
        \/ \E c \in Containers, j \in 0..NGroups : FinishFail(c, j)

Spec == Init /\ [][Next]_st

(* ------------------------------------------------------------------------ *)
Functional(db) == \A p, q \in db : p[1] = q[1] => p = q
InvClauses == st.bad = {}
InvState ==
  /\ Functional(st.rules) /\ Functional(st.specs) /\ Functional(st.net)
  /\ \A p, q \in st.net : p[2] = q[2] => p = q
(* port allocation: sockets of running containers never collide, and every  *)
(* held port belongs to the range of its container's environment            *)
InvPorts ==
  /\ \A p, q \in st.ports : (p[2] = q[2] /\ p[3] = q[3]) => p = q
  /\ AllocAny => \A q \in st.ports :
        q[3] \in PortPool[PortClass(ManOf(st, q[1]).env)] /\ q[3] \notin Busy
(* once every started container has finished the host is as it was at Init   *)
InvAllGone ==
  (Started(st) # {} /\ Started(st) \subseteq Finished(st)) =>
     (st.rules = {} /\ st.specs = {} /\ st.vring = {} /\ st.infra = {} /\ st.net = {})
=============================================================================
