--------------------------- MODULE PresenceTrace ---------------------------
(* Trace specification for executions of the real presence services recorded  *)
(* by harness/presence_driver.py.  Batch file (env TRACE_FILE):               *)
(*   [traces |-> << [tid, scn, lines] >>]                                     *)
(* line 1 is the initial state; every later line is one event (submit,        *)
(* finish, begin, call = ONE ZooKeeper call of one session, end, expire,      *)
(* restart) with the projected state after it: node table, the services'      *)
(* registration maps, request queues, existing requests, sessions and the     *)
(* call each request in flight is stopped at.                                 *)
(*                                                                            *)
(* TOTAL: every line is consumed and gets one verdict.  The state `st` is the *)
(* state of the stepped model (Presence.tla).  If the line is the model's     *)
(* step (same call, same answer, same retries, same projected post-state;     *)
(* the unrepaired and the repaired behaviour are both accepted) the model's   *)
(* successor is adopted; otherwise the verdict carries drift.step, the logged *)
(* post-state is adopted and the host's request is followed from the log only *)
(* ("lost") until it ends.  The C17 clauses are evaluated on what the store   *)
(* and the services logged, for every line, in sync or not.                   *)
(*                                                                            *)
(* Extension (DESIGN.md 10.6): lines abegin / acall / aend are the ZooKeeper   *)
(* calls of presence.kill_node and EndpointPresence.unregister_xxx run from an *)
(* administrator's session; their clauses ext.kill.step / scope / window /     *)
(* atomic / ... are conformance class (DRIFT or observation, never VIOLATION). *)
EXTENDS Presence, TraceLib, Json, IOUtils

Batch == JsonDeserialize(IOEnv.TRACE_FILE)
Traces == Batch.traces

VARIABLES t, i

ScnOf(j, D) == [hosts |-> j.hosts, conts |-> j.conts, inst |-> j.inst, paths |-> j.paths,
                data |-> j.data, kidx |-> SetOf(j.kidx), allpaths |-> j.allpaths, defects |-> D,
                cpaths |-> [c \in DOMAIN j.cpaths |-> j.cpaths[c]], retries |-> j.retries,
                ext |-> [srv |-> j.ext.srv, plc |-> j.ext.plc, sch |-> j.ext.sch,
                         sproot |-> j.ext.sproot, iorder |-> j.ext.iorder,
                         fin |-> j.ext.fin, plcp |-> j.ext.plcp,
                         sp |-> [h \in DOMAIN j.ext.sp |-> j.ext.sp[h]]]]

CanonPost(S, j) ==
  [nodes  |-> [p \in DOMAIN j.nodes |-> [d |-> j.nodes[p].d, o |-> j.nodes[p].o]],
   reg    |-> [h \in HostSet(S) |-> [p \in DOMAIN j.pres[h] |-> j.pres[h][p]]],
   queue  |-> [h \in HostSet(S) |-> j.queue[h]],
   active |-> [h \in HostSet(S) |-> SetOf(j.active[h])],
   sess   |-> [h \in HostSet(S) |-> j.sess[h]],
   next   |-> [h \in HostSet(S) |-> j.next[h]],
   anext  |-> j.anext,
   sch    |-> [a \in DOMAIN S.paths |-> j.sch[a]],
   plc    |-> [a \in DOMAIN S.paths |-> SetOf(j.plc[a])],
   proot  |-> j.proot,
   fin    |-> [a \in DOMAIN S.paths |-> j.fin[a]],
   pnext  |-> j.pnext,
   rnext  |-> j.rnext,
   linger |-> SetOf(j.linger)]

(* the ZooKeeper call the request in flight on h is about to make (the thread *)
(* is stopped at it), <<>> if none                                            *)
NextOf(S, s, h) ==
  IF InCall(s, h) THEN <<CallDesc(S, s, h).op, CallDesc(S, s, h).path>> ELSE <<>>

Proj(S, s) == [nodes |-> s.nodes, reg |-> s.reg, queue |-> s.queue, active |-> s.active,
               sess |-> s.sess, next |-> [h \in HostSet(S) |-> NextOf(S, s, h)],
               anext |-> IF InACall(s) THEN <<ACallDesc(S, s).op, ACallDesc(S, s).path>> ELSE <<>>,
               sch |-> s.sch, plc |-> s.plc, proot |-> s.proot, fin |-> s.fin,
               pnext |-> IF InPCall(s) THEN <<PCallDesc(S, s).op, PCallDesc(S, s).kind>> ELSE <<>>,
               rnext |-> IF InRCall(s) THEN <<RCallDesc(S, s).op, RCallDesc(S, s).path>> ELSE <<>>,
               linger |-> s.linger]

FiredOf(line) == IF "fired" \in DOMAIN line THEN line.fired ELSE <<>>

(* the retried requests <<host, container>> by container; the host must be    *)
(* the one the container runs on                                              *)
FiredConts(line) == [k \in DOMAIN FiredOf(line) |-> FiredOf(line)[k][2]]
FiredHostsOk(pre, line) ==
  \A k \in DOMAIN FiredOf(line) :
     /\ FiredOf(line)[k][2] \in DOMAIN pre.where
     /\ pre.where[FiredOf(line)[k][2]] = FiredOf(line)[k][1]

(* the host of the line (reap and helper lines have none: any host will do) *)
HostOf(S, line) ==
  IF "h" \in DOMAIN line /\ line.ev \notin {"abegin", "place", "withdraw", "pbegin", "rbegin"}
  THEN line.h ELSE S.hosts[1]

(* lines of a helper run (extension) *)
AEvents == {"abegin", "acall", "aend"}
(* lines of the scheduler's placement and of a publication (trace/app/zk.py) *)
UEvents == {"place", "withdraw", "rmroot", "pbegin", "pcall", "pend"}
(* lines of a registration through EndpointPresence.register_xxx *)
REvents == {"rbegin", "rcall", "rend"}

(* the model's step for this line: [ok, st] *)
Exp(S, pre, line) ==
  LET h == HostOf(S, line)
      bad == [ok |-> FALSE, st |-> pre] IN
  CASE line.ev = "submit" ->
         IF CanSubmit(S, pre, h, line.c) THEN [ok |-> TRUE, st |-> SubmitDo(S, pre, h, line.c)] ELSE bad
    [] line.ev = "finish" ->
         IF CanFinish(S, pre, h, line.c) THEN [ok |-> TRUE, st |-> FinishDo(S, pre, h, line.c)] ELSE bad
    [] line.ev = "begin" ->
         IF /\ CanBegin(S, pre, h)
            /\ Head(pre.queue[h]) = <<line.k, line.c>>
            /\ FiredOf(line) = <<>>
         THEN [ok |-> TRUE, st |-> BeginDo(S, pre, h)] ELSE bad
    [] line.ev = "call" ->
         IF /\ InCall(pre, h)
            /\ pre.sess[h] = line.s
            /\ pre.pc[h].k = line.rk /\ pre.pc[h].c = line.rc
            /\ CallDesc(S, pre, h) = [op |-> line.op, path |-> line.path, res |-> line.res]
            /\ FiredHostsOk(pre, line)
            /\ FiredConts(line) \in FireOrders(S, pre, h)
         THEN [ok |-> TRUE, st |-> CallDo(S, pre, h, FiredConts(line))] ELSE bad
    [] line.ev = "end" ->
         IF /\ CanEnd(S, pre, h)
            /\ pre.pc[h].k = line.k /\ pre.pc[h].c = line.c /\ pre.pc[h].res = line.res
         THEN [ok |-> TRUE, st |-> EndDo(S, pre, h)] ELSE bad
    [] line.ev = "expire" ->
         IF /\ pre.pc[h].ph # "down"
            /\ pre.sess[h] = line.s
            /\ FiredHostsOk(pre, line)
            /\ FiredConts(line) \in Orders(ExpireFired(pre, h))
         THEN [ok |-> TRUE, st |-> ExpireDo(S, pre, h, FiredConts(line))] ELSE bad
    [] line.ev = "crash" ->
         IF pre.pc[h].ph # "down" /\ pre.sess[h] = line.s
         THEN [ok |-> TRUE, st |-> CrashDo(S, pre, h)] ELSE bad
    [] line.ev = "reap" ->
         IF FiredHostsOk(pre, line) /\ CanReap(S, pre, line.s, FiredConts(line))
         THEN [ok |-> TRUE, st |-> ReapDo(S, pre, line.s, FiredConts(line))] ELSE bad
    [] line.ev = "abegin" ->
         IF pre.adm.ph = "idle" /\ line.h \in HostSet(S)
            /\ (line.kind = "kill" \/ (line.kind = "unreg" /\ line.a \in DOMAIN S.paths))
         THEN [ok |-> TRUE, st |-> IF line.kind = "kill" THEN KillBeginDo(S, pre, line.h)
                                   ELSE UnregBeginDo(S, pre, line.h, line.a)] ELSE bad
    [] line.ev = "acall" ->
         IF /\ InACall(pre)
            /\ line.s = AdmSess /\ pre.adm.kind = line.rk /\ pre.adm.h = line.rh
            /\ ACallDesc(S, pre) = [op |-> line.op, path |-> line.path, res |-> line.res]
            /\ FiredHostsOk(pre, line)
            /\ FiredConts(line) \in AFireOrders(S, pre)
         THEN [ok |-> TRUE, st |-> ACallDo(S, pre, FiredConts(line))] ELSE bad
    [] line.ev = "aend" ->
         IF CanAEnd(pre) /\ line.res = "ok" THEN [ok |-> TRUE, st |-> AEndDo(pre)] ELSE bad
    [] line.ev = "place" ->
         IF line.a \in DOMAIN S.paths /\ line.h \in HostSet(S) /\ line.h \notin pre.plc[line.a]
         THEN [ok |-> TRUE, st |-> PlaceDo(S, pre, line.a, line.h)] ELSE bad
    [] line.ev = "withdraw" ->
         IF line.a \in DOMAIN S.paths /\ line.h \in HostSet(S) /\ line.h \in pre.plc[line.a]
         THEN [ok |-> TRUE, st |-> WithdrawDo(S, pre, line.a, line.h)] ELSE bad
    [] line.ev = "rmroot" ->
         IF pre.proot THEN [ok |-> TRUE, st |-> RmRootDo(S, pre)] ELSE bad
    [] line.ev = "pbegin" ->
         IF pre.pub.ph = "idle" /\ line.h \in HostSet(S) /\ line.a \in DOMAIN S.paths
            /\ line.ty \in EventTypes
         THEN [ok |-> TRUE, st |-> PubBeginDo(S, pre, line.h, line.a, line.ty)] ELSE bad
    [] line.ev = "pcall" ->
         IF /\ InPCall(pre)
            /\ pre.pub.h = line.rh /\ pre.pub.a = line.ra /\ line.s = PubSess(S, line.rh)
            /\ LET d == PCallDesc(S, pre) IN
                 /\ d.op = line.op /\ d.kind = line.pk /\ d.res = line.res
                 /\ (d.kind = "trace" \/ d.path = line.path)
                 /\ (d.op = "exists" => d.found = line.found)
         THEN [ok |-> TRUE, st |-> PCallDo(S, pre)] ELSE bad
    [] line.ev = "pend" ->
         IF CanPEnd(pre) /\ line.res = "ok" THEN [ok |-> TRUE, st |-> PEndDo(pre)] ELSE bad
    [] line.ev = "rbegin" ->
         IF pre.rrun.ph = "idle" /\ line.h \in HostSet(S) /\ line.c \in ContSet(S)
            /\ line.kind \in RegKinds /\ line.s = RegSess(pre.nreg + 1)
         THEN [ok |-> TRUE, st |-> RegBeginDo(S, pre, line.h, line.c, line.kind)] ELSE bad
    [] line.ev = "rcall" ->
         IF /\ InRCall(pre) /\ pre.rrun.s = line.s
            /\ RCallDesc(S, pre) = [op |-> line.op, path |-> line.path, res |-> line.res]
         THEN [ok |-> TRUE, st |-> RCallDo(S, pre)] ELSE bad
    [] line.ev = "rend" ->
         IF CanREnd(pre) /\ pre.rrun.res = line.res THEN [ok |-> TRUE, st |-> REndDo(pre)] ELSE bad
    [] line.ev = "restart" ->
         IF CanRestart(S, pre, h, line.rord) /\ line.s = pre.nsess
         THEN [ok |-> TRUE, st |-> RestartDo(S, pre, h, line.rord)] ELSE bad
    [] OTHER -> bad

Foreign(o, s) == o > 0 /\ o # s
Writes(line) == {line.w[k] : k \in DOMAIN line.w}
Applied(line) == {w \in Writes(line) : w.a}
SawForeign(line) == line.op = "get" /\ line.res = "ok" /\ Foreign(line.seen, line.s)
SawOwn(line) == line.op = "get" /\ line.res = "ok" /\ line.seen = line.s

(* the log is followed without the model from here on *)
Resync(S, pre, line, post) ==
  LET h == HostOf(S, line)
      pc == CASE line.ev \in {"end", "restart"} -> IdlePc
               [] line.ev \in {"expire", "crash"} -> [IdlePc EXCEPT !.ph = "down"]
               [] line.ev = "begin" -> [IdlePc EXCEPT !.ph = "lost", !.k = line.k, !.c = line.c]
               [] line.ev = "call" -> [IdlePc EXCEPT !.ph = "lost", !.k = line.rk, !.c = line.rc]
               [] OTHER -> pre.pc[h]
      fs == CASE line.ev = "call" -> pre.fs[h] \/ SawForeign(line)
              [] line.ev \in {"begin", "end", "expire", "crash", "restart"} -> FALSE
              [] OTHER -> pre.fs[h] IN
  [pre EXCEPT !.nodes = post.nodes, !.reg = post.reg, !.queue = post.queue,
              !.rseq = [x \in HostSet(S) |->
                          SelectSeq(pre.rseq[x], LAMBDA q : q \in DOMAIN post.reg[x])
                          \o SelectSeq(S.allpaths, LAMBDA q : q \in DOMAIN post.reg[x]
                                                            /\ q \notin Range(pre.rseq[x]))],
              !.active = post.active, !.sess = post.sess, !.linger = post.linger,
              \* observer's record of which container a path serves: kept for the
              \* nodes that still exist and - independently of the model, which
              \* is lost here - taken over by a container whose create request
              \* is reported successful (whatever calls it did or did not make), or
              \* whose create request has just created the node / read it as a node
              \* of the service's own session (the take-over of _safe_create),
              \* whatever the service's own map says
              !.claimed = [x \in HostSet(S) |->
                 LET took == IF x = h /\ line.ev = "call" /\ line.rk = "create" /\ line.rc \in ContSet(S)
                                /\ ((line.op = "create" /\ line.res = "ok") \/ SawOwn(line))
                             THEN Claim(S, pre, x, line.path, line.rc) ELSE pre.claimed[x]
                     kept == [q \in DOMAIN took \cap DOMAIN post.nodes |-> took[q]]
                     won == IF x = h /\ line.ev = "end" /\ line.k = "create" /\ line.res = "ok"
                               /\ line.c \in ContSet(S)
                            THEN {q \in Range(CPaths(S, line.c)) \cap DOMAIN post.nodes :
                                    q \notin DOMAIN kept \/ kept[q] = line.c
                                      \/ Newer(S, line.c, kept[q])}
                            ELSE {} IN
                 [q \in DOMAIN kept \cup won |-> IF q \in won THEN line.c ELSE kept[q]]],
              !.watches = {w \in pre.watches : /\ w.p \in DOMAIN post.nodes
                                               /\ ~(line.ev \in {"expire", "crash"} /\ w.h = h)},
              !.pc[h] = IF line.ev \in AEvents \cup UEvents \cup REvents THEN pre.pc[h] ELSE pc,
              !.fs[h] = IF line.ev \in AEvents \cup UEvents \cup REvents THEN pre.fs[h] ELSE fs,
              \* observer of the registration runs: who ran, who reported success
              !.rrun = IF line.ev = "rend" THEN NoReg
                       ELSE IF line.ev = "rbegin"
                       THEN [NoReg EXCEPT !.ph = "lost", !.s = line.s, !.h = line.h, !.c = line.c,
                                          !.kind = line.kind]
                       ELSE IF line.ev = "rcall" THEN [pre.rrun EXCEPT !.ph = "lost"]
                       ELSE pre.rrun,
              !.nreg = IF line.ev = "rbegin" THEN pre.nreg + 1 ELSE pre.nreg,
              !.regd = IF line.ev = "rend" /\ line.res = "ok" /\ pre.rrun.c \in ContSet(S)
                          /\ pre.rrun.kind \in RegKinds
                       THEN pre.regd \cup {[s |-> pre.rrun.s, h |-> pre.rrun.h, c |-> pre.rrun.c,
                                            kind |-> pre.rrun.kind]}
                       ELSE IF line.ev = "reap" THEN {r \in pre.regd : r.s # line.s}
                       ELSE pre.regd,
              !.sch = post.sch, !.plc = post.plc, !.proot = post.proot, !.fin = post.fin,
              !.pub = IF line.ev = "pend" THEN NoPub
                      ELSE IF line.ev = "pbegin"
                      THEN [NoPub EXCEPT !.ph = "lost", !.h = line.h, !.a = line.a, !.ty = line.ty]
                      ELSE IF line.ev = "pcall"
                      THEN [pre.pub EXCEPT !.ph = "lost", !.h = line.rh, !.a = line.ra, !.todo = <<>>]
                      ELSE pre.pub,
              !.adm = IF line.ev = "aend" THEN NoAdm
                      ELSE IF line.ev = "abegin"
                      THEN [NoAdm EXCEPT !.ph = "lost", !.kind = line.kind, !.h = line.h, !.clean = FALSE]
                      ELSE IF line.ev = "acall"
                      THEN [pre.adm EXCEPT !.ph = "lost", !.kind = line.rk, !.h = line.rh,
                                           !.todo = <<>>, !.clean = FALSE]
                      ELSE pre.adm,
              !.nkill = IF line.ev = "abegin" THEN pre.nkill + 1 ELSE pre.nkill,
              !.order = IF line.ev = "submit" THEN Append(pre.order, line.c) ELSE pre.order,
              !.where = IF line.ev = "submit" /\ line.c \in DOMAIN pre.where
                        THEN [pre.where EXCEPT ![line.c] = h] ELSE pre.where,
              !.placed = IF line.ev = "submit" /\ line.c \in DOMAIN S.inst
                         THEN [pre.placed EXCEPT ![h] = @ \cup {S.inst[line.c]}] ELSE pre.placed,
              !.nsess = IF line.ev = "restart" THEN line.s + 1 ELSE pre.nsess,
              !.last = NoLast]

-----------------------------------------------------------------------------
F(name, holds) == IF holds THEN {} ELSE {name}
E(name, cond) == IF cond THEN {name} ELSE {}

(* every presence node is ephemeral *)
StateEph(post) == \A p \in DOMAIN post.nodes : post.nodes[p].o # 0

(* paths whose disappearance the retried request <<host, container>> awaits *)
Awaited(pre, line, f) ==
  IF line.ev = "call" /\ f = <<line.h, line.rc>> /\ line.op \in {"get", "watch"}
  THEN {line.path}
  ELSE {w.p : w \in {x \in pre.watches : x.h = f[1] /\ x.c = f[2]}}

RetriesWait(pre, line, post) ==
  \A k \in DOMAIN FiredOf(line) :
     \A p \in Awaited(pre, line, FiredOf(line)[k]) : p \notin DOMAIN post.nodes

CallFail(S, pre, line, post) ==
  LET h == line.h
      s == line.s
      ap == Applied(line) IN
  F("C17.noForeign",
    \A w \in ap : w.op \in {"set", "delete"} =>
       /\ ~Foreign(w.o, s)
       /\ (Len(line.w) = 1 /\ w.path \in DOMAIN pre.nodes => ~Foreign(pre.nodes[w.path].o, s)))
  \cup F("C17.ephemeral",
    /\ \A w \in ap : w.op = "create" /\ w.path \in AllPaths(S) =>
          w.path \in DOMAIN post.nodes /\ post.nodes[w.path].o = s
    /\ StateEph(post))
  \cup F("C17.ownOnly",
    line.rk = "delete" =>
       \A w \in ap : w.op = "delete" =>
          w.path \in DOMAIN pre.reg[h] /\ pre.reg[h][w.path] = line.rc)
  \cup F("C17.newerKept",
    line.rk = "delete" /\ line.rc \in ContSet(S) =>
       \A w \in ap : w.op = "delete" =>
          ~Stolen(S, pre, h, w.path, line.rc))
  \cup F("C17.waits",
    /\ (pre.fs[h] /\ line.rk = "create" => ap = {})
    /\ RetriesWait(pre, line, post))
  \cup F("drift.view",
    Len(line.w) = 1 =>
       line.w[1].o = (IF line.w[1].path \in DOMAIN pre.nodes THEN pre.nodes[line.w[1].path].o ELSE -1))

CallEx(S, pre, line) ==
  E("foreign", SawForeign(line))
  \cup E("take", line.rk = "create" /\ SawOwn(line))
  \cup E("write", \E w \in Applied(line) : w.op \in {"set", "delete"})
  \cup E("fire", line.fired # <<>>)
  \cup E("C17", SawForeign(line) \/ (line.rk = "create" /\ SawOwn(line)))

Sibling(S, pre, line) ==
  /\ line.k = "delete" /\ line.c \in ContSet(S)
  /\ \E p \in DOMAIN pre.reg[line.h] : pre.reg[line.h][p] = line.c
  /\ \E c2 \in ContSet(S) \ {line.c} :
        S.inst[c2] = S.inst[line.c] /\ \E h2 \in HostSet(S) : c2 \in pre.active[h2]

(* Extension clauses (conformance class).  The node a helper deletes must     *)
(* name the host in its DATA at that instant, else the delete fell into the   *)
(* get / delete window (ext.kill.window: an expected observation, see         *)
(* Presence.tla ExtNamed); helpers only delete, and only in their scope.      *)
InScope(S, line, path) ==
  IF line.rk = "kill"
  THEN \/ \E a \in DOMAIN S.paths : \E k \in S.kidx \cap DOMAIN S.paths[a] : S.paths[a][k] = path
       \/ line.rh \in DOMAIN S.ext.sp /\ S.ext.sp[line.rh] = path
  ELSE path \in AllPaths(S)

(* C17.noForeign on helper lines, from the store's write log: the helper      *)
(* (another session than the node's owner, always) set / deleted a presence    *)
(* node that another live session owns and that is not the own node of the     *)
(* host (and, for unregister_xxx, of the instance) it acts for: the DATA of    *)
(* the node at that instant does not name the host.  If the helper's own last  *)
(* get of that path showed data naming the host, the node was replaced in the  *)
(* get / delete window (ext.kill.window, an observation); otherwise the guard  *)
(* of the code let a foreign node through: the property's violation.          *)
OwnNode(S, pre, line, path) ==
  /\ line.rh \in HostSet(S)
  /\ path \in DOMAIN pre.nodes
  /\ WrittenBy(S, line.rh, path, pre.nodes[path].d)
  /\ (line.rk = "unreg" => line.ra \in DOMAIN S.paths /\ path \in Range(S.paths[line.ra]))

ForeignHit(S, pre, line, w) ==
  /\ w.op \in {"set", "delete"}
  /\ w.path \in AllPaths(S)
  /\ Foreign(w.o, line.s)
  /\ ~OwnNode(S, pre, line, w.path)

(* what the helper's get of a presence node showed (logged return value) *)
SeenAfter(S, pre, line) ==
  IF line.ev = "acall" /\ line.op = "get" /\ line.path \in AllPaths(S)
  THEN IF line.res = "ok" /\ line.rh \in HostSet(S) /\ WrittenBy(S, line.rh, line.path, line.gd)
       THEN pre.adm.seen \cup {line.path} ELSE pre.adm.seen \ {line.path}
  ELSE pre.adm.seen

HelperVerdict(S, pre, line, post, explained) ==
  LET lost == pre.adm.ph = "lost"
      step == F("ext.kill.step", explained \/ (lost /\ line.ev # "abegin")) IN
  CASE line.ev = "acall" ->
         [fail |-> step
            \cup F("ext.kill.scope",
                   /\ line.op \in {"get", "get_children", "delete"}
                   /\ \A w \in Writes(line) : w.op = "delete" /\ InScope(S, line, w.path))
            \cup F("ext.kill.window", \A w \in Applied(line) : ~(ForeignHit(S, pre, line, w) /\ w.path \in pre.adm.seen))
            \cup F("C17.noForeign", \A w \in Applied(line) : ~(ForeignHit(S, pre, line, w) /\ w.path \notin pre.adm.seen))
            \cup F("ext.kill.waits", RetriesWait(pre, line, post))
            \cup F("ext.kill.ephemeral", StateEph(post)),
          ex |-> E("ext", TRUE) \cup E("ext.delete", \E w \in Applied(line) : w.op = "delete")
                 \cup E("ext.fire", line.fired # <<>>)
                 \cup E("C17.helper", \E w \in Applied(line) : w.op \in {"set", "delete"}
                                                               /\ w.path \in AllPaths(S))]
    [] line.ev = "aend" ->
         [fail |-> step
            \cup F("ext.kill.atomic",
                   pre.adm.ph = "run" /\ pre.adm.clean =>
                      DOMAIN post.nodes = pre.adm.n0 \ pre.adm.k0),
          ex |-> E("ext", TRUE) \cup E("ext.atomic", pre.adm.ph = "run" /\ pre.adm.clean)]
    [] OTHER -> [fail |-> step, ex |-> E("ext", TRUE)]

(* C17.unscheduleOwner, from the store's write log: a publication by host rh   *)
(* deletes (or rewrites) a /scheduled/<app> node only if it is the instance    *)
(* the event is about and the publication's OWN exists() of /placement/<rh>/   *)
(* <app> returned the node (st.pub.saw, kept from the logged `found`).  If it  *)
(* did and the placement is gone from the table at the instant of the delete,  *)
(* the scheduler moved the instance inside the exists / delete window          *)
(* (ext.unschedule.window, an observation).                                    *)
SchedPaths(S) == {S.ext.sch[a] : a \in DOMAIN S.paths}
SawAfter(S, pre, line) ==
  IF line.op = "exists" /\ line.rh \in HostSet(S) /\ line.ra \in DOMAIN S.paths
     /\ line.path = S.ext.plcp[line.rh][line.ra]
  THEN line.found ELSE pre.pub.saw

PubVerdict(S, pre, line, post, explained) ==
  LET lost == pre.pub.ph = "lost"
      step == F("ext.unschedule.step", explained \/ (lost /\ line.ev \in {"pcall", "pend"})) IN
  IF line.ev # "pcall" THEN [fail |-> step, ex |-> E("unsched", TRUE)]
  ELSE
    LET hits == {w \in Applied(line) : w.op \in {"set", "delete"} /\ w.path \in SchedPaths(S)}
        mine(w) == line.ra \in DOMAIN S.paths /\ w.path = S.ext.sch[line.ra]
        here == line.rh \in HostSet(S) /\ line.ra \in DOMAIN S.paths
                /\ PlcNode(pre, line.rh, line.ra) IN
    [fail |-> step
        \cup F("C17.unscheduleOwner", \A w \in hits : mine(w) /\ pre.pub.saw)
        \cup F("ext.unschedule.window", \A w \in hits : mine(w) /\ pre.pub.saw => here),
     ex |-> E("unsched", TRUE)
        \cup E("C17", line.op = "exists" /\ line.pk = "placement")
        \cup E("unsched.stale", line.op = "exists" /\ line.pk = "placement" /\ ~line.found)
        \cup E("unsched.deleted", hits # {})]

(* C17.ownsAfterRegister / C17.keptAfterExpire, from the logged node table:    *)
(* when EndpointPresence.register_xxx has returned (rend, res ok), every node  *)
(* it was to register exists and its owner is the CALLER's session; and after  *)
(* any session expired, that is still so for every run that reported success   *)
(* and whose session is alive.                                                 *)
OwnedIn(S, nodes, r) ==
  \A k \in Range(RegPaths(S, r.c, r.kind)) :
     LET p == CPaths(S, r.c)[k] IN p \in DOMAIN nodes /\ nodes[p].o = r.s

RegVerdict(S, pre, line, post, explained) ==
  LET lost == pre.rrun.ph = "lost"
      step == F("ext.register.step", explained \/ (lost /\ line.ev # "rbegin"))
      r == pre.rrun IN
  IF line.ev = "rend"
  THEN [fail |-> step \cup F("C17.ownsAfterRegister",
                             line.res = "ok" /\ r.c \in ContSet(S) /\ r.kind \in RegKinds
                                => OwnedIn(S, post.nodes, r)),
        ex |-> E("register", TRUE) \cup E("C17", line.res = "ok")
               \cup E("register.waited", r.ph = "end" /\ line.res = "ok")]
  ELSE [fail |-> step \cup F("C17.ephemeral", StateEph(post)),
        ex |-> E("register", TRUE)
               \cup E("register.wait", line.ev = "rcall" /\ line.op = "create" /\ line.res = "NodeExists")]

(* a trace with helper runs lies outside the statement of C17: from the first *)
(* helper line on, the C17 clauses are reported as extension clauses          *)
(* A service's set / delete of a foreign node on such a trace is the          *)
(* get / delete window only if the request's OWN preceding get of that path    *)
(* showed a node of its session; a write without that evidence stays the       *)
(* property's violation.                                                       *)
Windowed(pre, line) ==
  line.ev = "call" /\
  \A w \in Applied(line) : w.op \in {"set", "delete"} /\ Foreign(w.o, line.s) => w.path \in pre.own[line.h]

OwnAfter(pre, line) ==
  IF line.ev = "call" /\ line.op = "get"
  THEN IF line.res = "ok" /\ line.seen = line.s THEN pre.own[line.h] \cup {line.path}
       ELSE pre.own[line.h] \ {line.path}
  ELSE IF line.ev = "call" THEN pre.own[line.h] ELSE {}

(* who is entitled to the nodes a newerKept failure is about: {<<path, container>>} *)
NkOf(S, pre, line) ==
  IF line.ev = "call" /\ line.rk = "delete" /\ line.rc \in ContSet(S)
  THEN {<<w.path, pre.claimed[line.h][w.path]>> :
          w \in {x \in Applied(line) : x.op = "delete" /\ Stolen(S, pre, line.h, x.path, line.rc)}}
  ELSE {}

ExtName(f) ==
  CASE f = "C17.noForeign" -> "ext.kill.window"
    [] f = "C17.ephemeral" -> "ext.kill.ephemeral"
    [] f = "C17.waits"     -> "ext.kill.waits"
    [] f = "C17.ownOnly"   -> "ext.kill.ownOnly"
    [] f = "C17.newerKept" -> "ext.kill.newerKept"
    [] OTHER -> f

Verdict0(S, pre, line, post, explained) ==
  LET h == HostOf(S, line)
      lost == pre.pc[h].ph = "lost"
      drift == F("drift.step", explained \/ lost)
      sync == E("unsynced", lost) IN
  CASE line.ev = "call" ->
         [fail |-> CallFail(S, pre, line, post) \cup drift, ex |-> CallEx(S, pre, line) \cup sync]
    [] line.ev = "end" ->
         [fail |-> F("C17.waits", line.k = "create" /\ pre.fs[h] => line.res = "wait")
                   \cup F("C17.ephemeral", StateEph(post)) \cup drift,
          ex |-> sync]
    [] line.ev \in {"expire", "reap"} ->
         [fail |-> F("C17.waits", RetriesWait(pre, line, post))
                   \cup F("C17.ephemeral", StateEph(post))
                   \cup F("drift.step", explained \/ (line.ev = "expire" /\ lost)),
          ex |-> E("fire", line.fired # <<>>) \cup E(line.ev, TRUE)]
    [] line.ev = "begin" ->
         [fail |-> F("C17.ephemeral", StateEph(post)) \cup drift,
          ex |-> E("sibling", Sibling(S, pre, line)) \cup E("C17", Sibling(S, pre, line))]
    [] OTHER ->
         [fail |-> F("C17.ephemeral", StateEph(post)) \cup drift, ex |-> {}]

VerdictCore(S, pre, line, post, explained) ==
  IF line.ev \in AEvents THEN HelperVerdict(S, pre, line, post, explained)
  ELSE IF line.ev \in UEvents THEN PubVerdict(S, pre, line, post, explained)
  ELSE IF line.ev \in REvents THEN RegVerdict(S, pre, line, post, explained)
  ELSE IF line.ev = "reap" /\ pre.regd # {}
  THEN LET v == Verdict0(S, pre, line, post, explained) IN
       [fail |-> v.fail \cup F("C17.keptAfterExpire",
                               \A r \in pre.regd : r.s # line.s => OwnedIn(S, post.nodes, r)),
        ex |-> v.ex \cup {"C17", "register.expire"}]
  ELSE LET v == Verdict0(S, pre, line, post, explained) IN
       IF pre.nkill = 0 THEN v
       ELSE [fail |-> {IF f = "C17.noForeign" /\ ~Windowed(pre, line) THEN f ELSE ExtName(f) : f \in v.fail},
             ex |-> {IF e = "C17" THEN "ext" ELSE e : e \in v.ex}]

(* C17.ephemeral on the store after EVERY line of EVERY trace, whoever acted  *)
(* (services, helpers, publications, registrations, expiries): every presence *)
(* node in the table has an owner session -- no persistent node is ever left   *)
(* where a running / endpoint / identity node belongs.                        *)
Verdict(S, pre, line, post, explained) ==
  LET v == VerdictCore(S, pre, line, post, explained) IN
  [fail |-> (v.fail \ {"ext.kill.ephemeral"}) \cup F("C17.ephemeral", StateEph(post)), ex |-> v.ex]

TInit == /\ t \in DOMAIN Traces
         /\ i = 1
         /\ st = InitSt(ScnOf(Traces[t].scn, {}))

TNext ==
  /\ i < Len(Traces[t].lines)
  /\ i' = i + 1
  /\ t' = t
  /\ LET line == Traces[t].lines[i + 1]
         S1 == ScnOf(Traces[t].scn, {"olderSteals"})
         S2 == ScnOf(Traces[t].scn, {})
         post == CanonPost(S1, line.post)
         e1 == Exp(S1, st, line)
         ok1 == e1.ok /\ Proj(S1, e1.st) = post
         e2 == Exp(S2, st, line)
         ok2 == e2.ok /\ Proj(S2, e2.st) = post
         v == Verdict(S1, st, line, post, ok1 \/ ok2)
         nxt == IF ok1 THEN e1.st ELSE IF ok2 THEN e2.st ELSE Resync(S1, st, line, post) IN
     /\ st' = IF line.ev = "acall" THEN [nxt EXCEPT !.adm.seen = SeenAfter(S1, st, line)]
              ELSE IF line.ev = "pcall" THEN Dirty([nxt EXCEPT !.pub.saw = SawAfter(S1, st, line)])
              ELSE IF line.ev \in AEvents THEN nxt
              ELSE IF line.ev \in {"begin", "call", "end", "expire", "crash", "restart"}
              THEN Dirty([nxt EXCEPT !.own[line.h] = OwnAfter(st, line)])
              ELSE Dirty(nxt)
     /\ PrintT(ToJson([tid |-> Traces[t].tid, i |-> i, fail |-> v.fail, ex |-> v.ex,
                        nk |-> NkOf(S1, st, line)]))

TSpec == TInit /\ [][TNext]_<<t, i, st>>
=============================================================================
