------------------------------- MODULE Owners -------------------------------
(* C14 -- the three owner-tagged symlink databases of a Treadmill node and   *)
(* the network resource service that sits on top of the first one.           *)
(*                                                                           *)
(*   vips/<ip>        -> ../resources/<owner>   vipfile.VipMgr               *)
(*   rules/<rule>     -> ../apps/<owner>        rulefile.RuleMgr             *)
(*   endpoints/<spec> -> <apps>/<owner>         endpoints.EndpointsMgr       *)
(*                                                                           *)
(* An owner is a directory that may or may not exist ("live").  A database   *)
(* is a relation {<<entry, owner>>}: a directory listing with link targets.  *)
(* Functional style (DESIGN 3.1): Step(s, ev, a, c) is the successor         *)
(* function of one call; `c` resolves the one open choice (which free host   *)
(* an allocation returns -- the code walks cidr.hosts() in order, no         *)
(* property demands that).  The same Step and the same clause operators are  *)
(* used by TLC as next-state relation + monitor (this module) and as         *)
(* predicates over logged pre/post pairs (OwnersTrace.tla).                  *)
(*                                                                           *)
(* Network service (services/network_service.py) as _base_service drives it: *)
(*   SvcStart     impl.initialize(): device table rebuilt from the bridge    *)
(*                and from vips/, everything marked stale; the request       *)
(*                watcher is set up and the existing requests are listed     *)
(*   Import(o)    _on_created for one listed request (skipped if the request *)
(*                vanished meanwhile)                                        *)
(*   Synchronize  impl.synchronize(): on_delete_request for every device     *)
(*                still stale, then VipMgr.garbage_collect()                 *)
(*   OnCreate(o)  created/modified event of a live request                   *)
(*   OnDelete(o)  deleted event (events are delivered in order, so a create  *)
(*                of o is not processed before a pending delete of o)        *)
(*                                                                           *)
(* Garbage collection runs in another process than the calls that create     *)
(* entries (`sproc firewall` / the port scanner / the network service vs.    *)
(* `treadmill run`), so besides the atomic VipGC/RuleGC/SpecGC there is a    *)
(* *stepped* pass: GcBegin(db) (the call starts), GcList (the directory is   *)
(* listed), GcVisit(e) (stat of one listed entry, unlink if its owner does   *)
(* not exist), GcEnd.  Between these steps the environment may act, the way  *)
(* the system can: a *new* owner appears (one that holds nothing yet), a     *)
(* live owner creates entries, an owner disappears.                          *)
EXTENDS Naturals, Sequences, FiniteSets, TLC

CONSTANTS OwnerIds,     \* owner names
          Hosts,        \* sequence: host addresses of the CIDR in hosts() order
          NetAddrs,     \* set: every address of the network (hosts, network, broadcast)
          Outside,      \* set: addresses outside the network offered to AllocPicked
          RuleIds,      \* rule (file) identities
          SpecIds,      \* endpoint spec (file) identities
          SpecApp,      \* spec identity -> application name (for unlink_all)
          Events,       \* enabled action names (focus of a model-checking run)
          MaxEvents,    \* bound on the history length (guard, not CONSTRAINT)
          Defects       \* set of strings: deviations the model can reproduce

VARIABLE st

HostSet == {Hosts[k] : k \in DOMAIN Hosts}
AppNames == {SpecApp[s] : s \in SpecIds}
AppOf(sid) == IF sid \in DOMAIN SpecApp THEN SpecApp[sid] ELSE "?"

(* ------------------------------------------------------------------------ *)
(* relation helpers                                                          *)
Held(db, e)  == \E p \in db : p[1] = e
Own(db, e)   == (CHOOSE p \in db : p[1] = e)[2]
Put(db, e, o) == db \cup {<<e, o>>}
Del(db, e)   == {p \in db : p[1] # e}
LiveOnly(db, live) == {p \in db : p[2] \in live}
Functional(db) == \A p, q \in db : p[1] = q[1] => p = q

(* symlink(2) refuses an existing name: EEXIST.                              *)
(* free/unlink: readlink, compare basename with the caller, unlink.          *)
Release(db, e, o, checked) ==
  IF Held(db, e) /\ (Own(db, e) = o \/ ~checked) THEN Del(db, e) ELSE db

R(post, res) == [post |-> post, res |-> res]

(* the stepped garbage collection pass in progress (model bookkeeping)       *)
NoGc == [on |-> FALSE, db |-> "", start |-> {}, ever |-> {}, listed |-> FALSE,
         todo |-> {}, snap |-> {}]
DbGet(s, d) == CASE d = "vips" -> s.vips [] d = "rules" -> s.rules [] OTHER -> s.specs
DbSet(s, d, v) == CASE d = "vips" -> [s EXCEPT !.vips = v]
                    [] d = "rules" -> [s EXCEPT !.rules = v]
                    [] OTHER -> [s EXCEPT !.specs = v]
Ents(db) == {p[1] : p \in db}

FreeHosts(s) == {h \in HostSet : ~Held(s.vips, h)}

HasDev(s, o) == \E d \in s.dev : d.o = o
DevOf(s, o)  == CHOOSE d \in s.dev : d.o = o
Dev(o, ip, stale) == [o |-> o, ip |-> ip, stale |-> stale]

InitKeeps(s, d) == IF d = "vips" THEN {p \in s.vips : p[1] \notin NetAddrs} ELSE {}

(* on_create_request *)
SvcCreate(s, o, c) ==
  IF ~HasDev(s, o)
  THEN IF c = "-"
       THEN R(s, "raise")                          \* VipMgr.alloc: no free IP
       ELSE R([s EXCEPT !.vips = Put(@, c, o),
                        !.dev = @ \cup {Dev(o, c, FALSE)},
                        !.veth = @ \cup {o}], c)
  ELSE LET d == DevOf(s, o) IN
       IF d.ip = ""
       THEN R(s, "raise")                          \* device known from the bridge only
       ELSE R([s EXCEPT !.dev = (@ \ {d}) \cup {Dev(o, d.ip, FALSE)},
                        !.veth = @ \cup {o}], d.ip)

(* on_create_request when the creation of the interface pair is refused ('ip link add' fails): what was
   done before that point stays - the address is allocated and recorded, there is no device; the request
   fails and is retried later (the retry re-uses the recorded address).  Only for an owner the service
   has no record of (the generator's guard). *)
SvcCreateFail(s, o, c) ==
  IF ~HasDev(s, o)
  THEN IF c = "-"
       THEN R(s, "raise")
       ELSE R([s EXCEPT !.vips = Put(@, c, o), !.dev = @ \cup {Dev(o, c, FALSE)}], "raise")
  ELSE IF o \in s.veth THEN SvcCreate(s, o, c)      \* the pair exists: nothing to refuse
  ELSE R(s, "raise")                               \* refused again, nothing changes

(* on_delete_request *)
SvcDelete(s, o) ==
  LET s1 == [s EXCEPT !.veth = @ \ {o}] IN
  IF ~HasDev(s, o) THEN s1
  ELSE LET d == DevOf(s, o)
           s2 == [s1 EXCEPT !.dev = @ \ {d}] IN
       IF d.ip = "" THEN s2
       ELSE [s2 EXCEPT !.vips = Release(@, d.ip, o, TRUE)]

SvcInitialize(s) ==
  LET owners == s.veth \cup {p[2] : p \in s.vips}
      ipof(o) == IF \E p \in s.vips : p[2] = o
                 THEN (CHOOSE p \in s.vips : p[2] = o)[1] ELSE "" IN
  [s EXCEPT !.dev = {Dev(o, ipof(o), TRUE) : o \in owners},
            !.phase = "import", !.imp = s.live, !.pend = {}]

SvcSynchronize(s) ==
  LET stale == {d \in s.dev : d.stale}
      gone  == {<<d.ip, d.o>> : d \in {x \in stale : x.ip # ""}} IN
  [s EXCEPT !.dev = @ \ stale,
            !.veth = @ \ {d.o : d \in stale},
            !.vips = LiveOnly(@ \ gone, s.live),
            !.phase = "run"]

(* ------------------------------------------------------------------------ *)
(* one call = one step.  a = arguments, c = resolution of the open choice    *)
Choices(s, ev, a) ==
  LET fresh == IF FreeHosts(s) = {} THEN {"-"} ELSE FreeHosts(s) IN
  CASE ev = "VipAlloc" -> fresh
    [] ev \in {"OnCreate", "OnCreateFail"} -> IF HasDev(s, a[1]) THEN {"-"} ELSE fresh
    [] ev = "Import"   -> IF HasDev(s, a[1]) \/ a[1] \notin s.live THEN {"-"} ELSE fresh
    [] OTHER -> {"-"}

Step(s, ev, a, c) ==
  CASE ev = "OwnerAppears" ->
         R([s EXCEPT !.live = @ \cup {a[1]},
                     !.gc.ever = IF s.gc.on THEN @ \cup {a[1]} ELSE @], "ok")
    [] ev = "OwnerDisappears" ->
         R([s EXCEPT !.live = @ \ {a[1]},
                     !.pend = IF s.phase = "down" THEN @ ELSE @ \cup {a[1]}], "ok")
    (* ---- vips ---- *)
    [] ev = "VipAlloc" ->
         IF c = "-" THEN R(s, "raise")
         ELSE R([s EXCEPT !.vips = Put(@, c, a[1])], c)
    [] ev = "VipAllocPicked" ->
         IF a[2] \notin NetAddrs \/ Held(s.vips, a[2]) THEN R(s, "raise")
         ELSE R([s EXCEPT !.vips = Put(@, a[2], a[1])], a[2])
    [] ev = "VipFree" ->
         R([s EXCEPT !.vips = Release(@, a[2], a[1], "vip_free_unchecked" \notin Defects)], "ok")
    [] ev = "VipGC" ->
         R([s EXCEPT !.vips = LiveOnly(@, s.live)], "ok")
    (* ---- rules ---- *)
    [] ev = "RuleCreate" ->
         IF ~Held(s.rules, a[2]) THEN R([s EXCEPT !.rules = Put(@, a[2], a[1])], "ok")
         ELSE IF Own(s.rules, a[2]) = a[1] THEN R(s, "ok")
         ELSE IF "rule_create_overwrite" \in Defects
              THEN R([s EXCEPT !.rules = Put(Del(@, a[2]), a[2], a[1])], "ok")
              ELSE R(s, "raise")
    [] ev = "RuleUnlink" ->
         R([s EXCEPT !.rules = Release(@, a[2], a[1], TRUE)], "ok")
    [] ev = "RuleGC" ->
         R([s EXCEPT !.rules = IF "gc_all" \in Defects THEN {} ELSE LiveOnly(@, s.live)], "ok")
    (* ---- endpoint specs ---- *)
    [] ev = "SpecCreate" ->
         (* EEXIST: the existing owner is compared with the *application*    *)
         (* name, which never equals a container directory name: refused     *)
         (* even for the owner's own repeat (stricter than the property).    *)
         IF Held(s.specs, a[2]) THEN R(s, "raise")
         ELSE R([s EXCEPT !.specs = Put(@, a[2], a[1])], "ok")
    [] ev = "SpecUnlink" ->
         R([s EXCEPT !.specs = Release(@, a[2], a[1], TRUE)], "ok")
    [] ev = "SpecUnlinkAll" ->
         R([s EXCEPT !.specs = {p \in @ : ~(AppOf(p[1]) = a[2] /\ p[2] = a[1])}], "ok")
    [] ev = "SpecGC" ->
         R([s EXCEPT !.specs = LiveOnly(@, s.live)], "ok")
    (* ---- node start (beyond C14): VipMgr/RuleMgr/EndpointsMgr.initialize ---- *)
    (* vips: every entry whose name is an address of the configured network is  *)
    (* removed, anything else in the directory is kept; rules, endpoint specs:  *)
    (* the directory is emptied.                                                *)
    [] ev = "Initialize" -> R(DbSet(s, a[1], InitKeeps(s, a[1])), "ok")
    (* ---- stepped garbage collection of database a[1] ---- *)
    [] ev = "GcBegin" ->
         R([s EXCEPT !.gc = [on |-> TRUE, db |-> a[1], start |-> DbGet(s, a[1]),
                             ever |-> s.live, listed |-> FALSE, todo |-> {},
                             snap |-> s.live]], "ok")
    [] ev = "GcList" ->
         R([s EXCEPT !.gc.listed = TRUE, !.gc.todo = Ents(DbGet(s, s.gc.db))], "ok")
    [] ev = "GcVisit" ->
         (* stat(link) follows the link as it is *now*; a deviation: decide    *)
         (* against a snapshot of the owners taken when the pass began         *)
         LET d == s.gc.db
             db == DbGet(s, d)
             alive == IF "gc_owner_snapshot" \in Defects THEN s.gc.snap ELSE s.live
             s1 == [s EXCEPT !.gc.todo = @ \ {a[2]}] IN
         IF Held(db, a[2]) /\ Own(db, a[2]) \notin alive
         THEN R(DbSet(s1, d, Del(db, a[2])), "ok") ELSE R(s1, "ok")
    [] ev = "GcEnd" -> R([s EXCEPT !.gc = NoGc], "ok")
    (* ---- network service ---- *)
    [] ev = "SvcStart" -> R(SvcInitialize(s), "ok")
    [] ev = "Import" ->
         LET s1 == [s EXCEPT !.imp = @ \ {a[1]}] IN
         IF a[1] \in s.live THEN SvcCreate(s1, a[1], c) ELSE R(s1, "skip")
    [] ev = "Synchronize" -> R(SvcSynchronize(s), "ok")
    [] ev = "OnCreate" -> SvcCreate(s, a[1], c)
    [] ev = "OnCreateFail" -> SvcCreateFail(s, a[1], c)
    [] ev = "OnDelete" -> R([SvcDelete(s, a[1]) EXCEPT !.pend = @ \ {a[1]}], "ok")

(* ------------------------------------------------------------------------ *)
(* The property, clause by clause, over one step (pre, event, result, post). *)
(* Only the observable part is read: live, vips, rules, specs, dev.          *)
GrantOps   == {"VipAlloc", "VipAllocPicked", "RuleCreate", "SpecCreate", "OnCreate", "Import"}
ReleaseOps == {"VipFree", "RuleUnlink", "SpecUnlink", "SpecUnlinkAll", "OnDelete"}
GcOps      == {"VipGC", "RuleGC", "SpecGC"}
GcSegs     == {"GcList", "GcVisit", "GcRun", "GcEnd"}   \* GcRun: an opaque stretch of a recorded pass
EnvOps     == {"OwnerAppears", "OwnerDisappears", "VipAlloc", "RuleCreate", "SpecCreate"}
Failed(res) == res \in {"raise", "skip"}

DbOf(s, ev) ==
  CASE ev \in GcSegs \cup {"GcBegin"} -> DbGet(s, s.gc.db)
    [] ev \in {"VipAlloc", "VipAllocPicked", "VipFree", "VipGC", "OnCreate", "OnCreateFail", "Import",
               "OnDelete", "Synchronize"} -> s.vips
    [] ev \in {"RuleCreate", "RuleUnlink", "RuleGC"} -> s.rules
    [] OTHER -> s.specs

(* the entry a successful grant hands to its caller *)
Granted(ev, a, res) ==
  IF ev \in {"VipAlloc", "OnCreate", "Import"} THEN res ELSE a[2]

NoRepoint(pre, post, live) ==
  \A p \in pre, q \in post : (p[1] = q[1] /\ p[2] # q[2]) => p[2] \notin live

(* C14.oneOwner: "never held by two live owners at once".                    *)
(*  - every entry maps to exactly one owner,                                 *)
(*  - no entry is re-pointed away from an owner that is live,                *)
(*  - no call reports a successful grant of an entry a live other owner      *)
(*    holds.                                                                 *)
C14oneOwner(pre, ev, a, res, post) ==
  /\ Functional(post.vips) /\ Functional(post.rules) /\ Functional(post.specs)
  /\ NoRepoint(pre.vips, post.vips, pre.live)
  /\ NoRepoint(pre.rules, post.rules, pre.live)
  /\ NoRepoint(pre.specs, post.specs, pre.live)
  /\ (ev \in GrantOps /\ ~Failed(res)) =>
        LET db == DbOf(pre, ev)
            e == Granted(ev, a, res) IN
        ~(Held(db, e) /\ Own(db, e) # a[1] /\ Own(db, e) \in pre.live)

(* C14.inCidr: "every allocated IP lies in the configured network".          *)
C14inCidr(ev, a, res, post) ==
  /\ \A p \in post.vips : p[1] \in NetAddrs
  /\ \A d \in post.dev : d.ip = "" \/ d.ip \in NetAddrs
  /\ (ev \in {"VipAlloc", "VipAllocPicked", "OnCreate", "Import"} /\ ~Failed(res))
        => res \in NetAddrs

(* C14.ownerOnly: "only the owner can release what it holds": whatever a     *)
(* call made in the name of owner o does, entries held by another *live*     *)
(* owner stay.  (Narrowing: what a call may do to an orphaned entry of a     *)
(* vanished owner is left to C14.gcExact and drift; the code refuses that    *)
(* too.)                                                                     *)
Kept(pre, post, o, live) == \A p \in pre : (p[2] # o /\ p[2] \in live) => p \in post
C14ownerOnly(pre, ev, a, post) ==
  (ev \in GrantOps \cup ReleaseOps) =>
     /\ Kept(pre.vips, post.vips, a[1], pre.live)
     /\ Kept(pre.rules, post.rules, a[1], pre.live)
     /\ Kept(pre.specs, post.specs, a[1], pre.live)

(* C14.gcExact: "garbage collection reclaims exactly those entries whose     *)
(* owner no longer exists and nothing else".  Synchronize additionally       *)
(* returns the addresses of devices still stale (the service releasing in    *)
(* the name of the requests it did not find again): those are allowed, not   *)
(* demanded.                                                                 *)
C14gcExact(pre, ev, post) ==
  /\ ev = "VipGC" => /\ post.vips = LiveOnly(pre.vips, pre.live)
                     /\ post.rules = pre.rules /\ post.specs = pre.specs
  /\ ev = "RuleGC" => /\ post.rules = LiveOnly(pre.rules, pre.live)
                      /\ post.vips = pre.vips /\ post.specs = pre.specs
  /\ ev = "SpecGC" => /\ post.specs = LiveOnly(pre.specs, pre.live)
                      /\ post.vips = pre.vips /\ post.rules = pre.rules
  /\ ev = "Synchronize" =>
        /\ post.vips \subseteq pre.vips
        /\ \A p \in pre.vips : p[2] \notin pre.live => p \notin post.vips
        /\ \A p \in pre.vips \ post.vips :
              p[2] \notin pre.live \/ (\E d \in pre.dev : d.o = p[2] /\ d.stale)
        /\ post.rules = pre.rules /\ post.specs = pre.specs
  (* a stepped pass, judged segment by segment (the environment does not act  *)
  (* inside a segment, so pre.live is who exists at the time of a removal):   *)
  (* nothing is added or re-pointed, an entry is removed only if its owner    *)
  (* does not exist at that time, the other databases are untouched; when the *)
  (* pass ends, every entry that was there when it began and whose owner did  *)
  (* not exist at any time during the pass has been reclaimed.                *)
  /\ ev \in GcSegs =>
        LET d == pre.gc.db IN
        /\ DbGet(post, d) \subseteq DbGet(pre, d)
        /\ \A p \in DbGet(pre, d) \ DbGet(post, d) : p[2] \notin pre.live
        /\ \A x \in {"vips", "rules", "specs"} \ {d} : DbGet(post, x) = DbGet(pre, x)
        /\ ev = "GcEnd" =>
              \A p \in pre.gc.start : p[2] \notin pre.gc.ever => p \notin DbGet(post, d)

FailIf(name, holds) == IF holds THEN {} ELSE {name}
FlagIf(name, cond) == IF cond THEN {name} ELSE {}

StepFail(pre, ev, a, res, post) ==
  FailIf("C14.oneOwner", C14oneOwner(pre, ev, a, res, post))
  \cup FailIf("C14.inCidr", C14inCidr(ev, a, res, post))
  \cup FailIf("C14.ownerOnly", C14ownerOnly(pre, ev, a, post))
  \cup FailIf("C14.gcExact", C14gcExact(pre, ev, post))

(* beyond the listed property (conformance class, reported as drift):         *)
(* ext.init.removed -- after Initialize(d) nothing of what it is to remove is  *)
(*                     left and the call returned normally;                    *)
(* ext.init.kept    -- nothing else changed: what it is to keep is still there,*)
(*                     nothing was added, the other databases and the owner    *)
(*                     directories are untouched.                              *)
ExtFail(pre, ev, a, res, post) ==
  IF ev # "Initialize" THEN {}
  ELSE LET d == a[1] IN
       FailIf("ext.init.removed",
              res = "ok" /\ DbGet(post, d) \cap (DbGet(pre, d) \ InitKeeps(pre, d)) = {})
       \cup FailIf("ext.init.kept",
              /\ InitKeeps(pre, d) \subseteq DbGet(post, d) /\ DbGet(post, d) \subseteq DbGet(pre, d)
              /\ \A x \in {"vips", "rules", "specs"} \ {d} : DbGet(post, x) = DbGet(pre, x)
              /\ post.live = pre.live)

(* exercised flags: the antecedent of a clause was non-trivially true        *)
StepEx(pre, ev, a, res, post) ==
  LET db == DbOf(pre, ev) IN
  FlagIf("contestedGrant",
         ev \in GrantOps /\ ev \notin {"VipAlloc"} /\
         (IF ev \in {"OnCreate", "Import"} THEN FALSE
          ELSE Held(db, a[2]) /\ Own(db, a[2]) # a[1]))
  \cup FlagIf("foreignRelease",
         /\ ev \in {"VipFree", "RuleUnlink", "SpecUnlink"}
         /\ Held(db, a[2]) /\ Own(db, a[2]) # a[1])
  \cup FlagIf("foreignRelease",
         /\ ev = "SpecUnlinkAll"
         /\ \E p \in pre.specs : AppOf(p[1]) = a[2] /\ p[2] # a[1])
  \cup FlagIf("foreignRelease",
         /\ ev = "OnDelete"
         /\ \E d \in pre.dev : d.o = a[1] /\ d.ip # "" /\ Held(pre.vips, d.ip)
                               /\ Own(pre.vips, d.ip) # a[1])
  \cup FlagIf("gcMixed",
         /\ ev \in GcOps \cup {"Synchronize"}
         /\ \E p \in db : p[2] \in pre.live
         /\ \E p \in db : p[2] \notin pre.live)
  \cup FlagIf("ext.init", ev = "Initialize")
  \cup FlagIf("ext.init.nonempty", ev = "Initialize" /\ DbGet(pre, a[1]) # {})
  \cup FlagIf("gcInterleaved", pre.gc.on /\ ev \in EnvOps)
  \cup FlagIf("gcRaceNewOwner",
         /\ ev \in GcSegs /\ \E p \in DbGet(pre, pre.gc.db) : p[2] \in pre.live \ pre.gc.snap)
  \cup FlagIf("exhausted", ev \in {"VipAlloc", "OnCreate", "Import"} /\ res = "raise")
  \cup FlagIf("grant", ev \in GrantOps /\ ~Failed(res))

(* ------------------------------------------------------------------------ *)
(* next-state relation with the clauses as a monitor                         *)
Init == st = [live |-> {}, vips |-> {}, rules |-> {}, specs |-> {}, dev |-> {},
              veth |-> {}, pend |-> {}, phase |-> "down", imp |-> {},
              gc |-> NoGc, n |-> 0, bad |-> {}]

(* MaxEvents = 0: no bound (the state space is finite without the counter).   *)
Always == TRUE     \* explicit guard: TLC then labels the step with the action's name
Advance(ev, a) ==
  /\ ev \in Events
  /\ (MaxEvents = 0 \/ st.n < MaxEvents)
  /\ \E c \in Choices(st, ev, a) :
       LET r == Step(st, ev, a, c) IN
       st' = [r.post EXCEPT !.n = IF MaxEvents = 0 THEN 0 ELSE st.n + 1,
                            !.bad = st.bad \cup StepFail(st, ev, a, r.res, r.post)
                                           \cup ExtFail(st, ev, a, r.res, r.post)]

(* While a stepped pass runs, only the environment acts besides it, and only  *)
(* the way the system can: a container directory is created before anything   *)
(* is registered for it and unique names are not re-used, so the owner that   *)
(* appears holds nothing yet, and entries are created by owners that exist.   *)
Idle     == ~st.gc.on
HoldsNothing(o) == \A p \in st.vips \cup st.rules \cup st.specs : p[2] # o
MidGc(o) == st.gc.on => o \in st.live

OwnerAppears(o)    == /\ o \notin st.live /\ (st.gc.on => HoldsNothing(o))
                      /\ Advance("OwnerAppears", <<o>>)
OwnerDisappears(o) == o \in st.live /\ Advance("OwnerDisappears", <<o>>)
VipAlloc(o)        == MidGc(o) /\ Advance("VipAlloc", <<o>>)
VipAllocPicked(o, ip) == Idle /\ Advance("VipAllocPicked", <<o, ip>>)
VipFree(o, ip)     == Idle /\ Advance("VipFree", <<o, ip>>)
VipGC              == Idle /\ Advance("VipGC", <<>>)
RuleCreate(o, r)   == MidGc(o) /\ Advance("RuleCreate", <<o, r>>)
RuleUnlink(o, r)   == Idle /\ Advance("RuleUnlink", <<o, r>>)
RuleGC             == Idle /\ Advance("RuleGC", <<>>)
SpecCreate(o, s)   == MidGc(o) /\ Advance("SpecCreate", <<o, s>>)
SpecUnlink(o, s)   == Idle /\ Advance("SpecUnlink", <<o, s>>)
SpecUnlinkAll(o, app) == Idle /\ Advance("SpecUnlinkAll", <<o, app>>)
SpecGC             == Idle /\ Advance("SpecGC", <<>>)
SvcStart           == Idle /\ Advance("SvcStart", <<>>)
Import(o)          == Idle /\ st.phase = "import" /\ o \in st.imp /\ Advance("Import", <<o>>)
Synchronize        == Idle /\ st.phase = "import" /\ st.imp = {} /\ Advance("Synchronize", <<>>)
OnCreate(o)        == /\ Idle /\ st.phase = "run" /\ o \in st.live /\ o \notin st.pend
                      /\ Advance("OnCreate", <<o>>)
OnCreateFail(o)    == /\ Idle /\ st.phase = "run" /\ o \in st.live /\ o \notin st.pend /\ ~HasDev(st, o)
                      /\ Advance("OnCreateFail", <<o>>)
OnDelete(o)        == /\ Idle /\ st.phase = "run" /\ (o \in st.pend \/ o \notin st.live)
                      /\ Advance("OnDelete", <<o>>)
(* a pass over database d is offered when d's create action is in focus *)
GcCreate(d) == CASE d = "vips" -> "VipAlloc" [] d = "rules" -> "RuleCreate" [] OTHER -> "SpecCreate"
Initialize(d)      == Idle /\ GcCreate(d) \in Events /\ Advance("Initialize", <<d>>)
GcBegin(d)         == Idle /\ GcCreate(d) \in Events /\ Advance("GcBegin", <<d>>)
GcList(d)          == st.gc.on /\ st.gc.db = d /\ ~st.gc.listed /\ Advance("GcList", <<d>>)
GcVisit(d, e)      == /\ st.gc.on /\ st.gc.db = d /\ st.gc.listed /\ e \in st.gc.todo
                      /\ Advance("GcVisit", <<d, e>>)
GcEnd(d)           == /\ st.gc.on /\ st.gc.db = d /\ st.gc.listed /\ st.gc.todo = {}
                      /\ Advance("GcEnd", <<d>>)

Next ==
  \/ \E o \in OwnerIds : OwnerAppears(o)
  \/ \E o \in OwnerIds : OwnerDisappears(o)
  \/ \E o \in OwnerIds : VipAlloc(o)
  \/ \E o \in OwnerIds, ip \in HostSet \cup Outside : VipAllocPicked(o, ip)
  \/ \E o \in OwnerIds, ip \in HostSet : VipFree(o, ip)
  \/ VipGC
  \/ \E o \in OwnerIds, r \in RuleIds : RuleCreate(o, r)
  \/ \E o \in OwnerIds, r \in RuleIds : RuleUnlink(o, r)
  \/ RuleGC
  \/ \E o \in OwnerIds, s \in SpecIds : SpecCreate(o, s)
  \/ \E o \in OwnerIds, s \in SpecIds : SpecUnlink(o, s)
  \/ \E o \in OwnerIds, app \in AppNames : SpecUnlinkAll(o, app)
  \/ SpecGC
  \/ SvcStart
  \/ \E o \in OwnerIds : Import(o)
  \/ Synchronize
  \/ \E o \in OwnerIds : OnCreate(o)
  \/ \E o \in OwnerIds : OnCreateFail(o)
  \/ \E o \in OwnerIds : OnDelete(o)
  \/ \E d \in {"vips", "rules", "specs"} : Initialize(d)
  \/ \E d \in {"vips", "rules", "specs"} : GcBegin(d)
  \/ \E d \in {"vips", "rules", "specs"} : GcList(d)
  \/ \E d \in {"vips", "rules", "specs"}, e \in HostSet \cup Outside \cup RuleIds \cup SpecIds :
        GcVisit(d, e)
  \/ \E d \in {"vips", "rules", "specs"} : GcEnd(d)

Spec == Init /\ [][Next]_st

(* ------------------------------------------------------------------------ *)
(* invariants                                                                *)
InvClauses == st.bad = {}

InvState ==
  /\ Functional(st.vips) /\ Functional(st.rules) /\ Functional(st.specs)
  /\ \A p \in st.vips : p[1] \in NetAddrs
  /\ \A d1, d2 \in st.dev : d1.o = d2.o => d1 = d2
  /\ {d.o : d \in {x \in st.dev : x.ip = ""}} \subseteq st.veth \cup {d.o : d \in st.dev}

(* what the service tells a live requester agrees with the directory: the    *)
(* address recorded for a request that is live, imported and has no delete   *)
(* pending is held by that request in vips/, and no two such requests share  *)
(* an address.                                                               *)
Settled(d) == ~d.stale /\ d.o \in st.live /\ d.o \notin st.pend /\ d.ip # ""
InvSvcAgree ==
  st.phase = "run" =>
     /\ \A d \in st.dev : Settled(d) => <<d.ip, d.o>> \in st.vips
     /\ \A d1, d2 \in st.dev : (Settled(d1) /\ Settled(d2) /\ d1.ip = d2.ip) => d1 = d2
=============================================================================
