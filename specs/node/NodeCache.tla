---------------------------- MODULE NodeCache ----------------------------
(* The node's manifest cache (property C12).                                *)
(*                                                                          *)
(* Code modelled: treadmill/eventmgr.py EventMgr._synchronize / _cache /    *)
(* _cache_notify and treadmill/fs/__init__.py write_safe / rm_safe          *)
(* (DESIGN.md appendix C, first bullet).                                    *)
(*                                                                          *)
(* Functional style (DESIGN.md 3.1): the whole system state is ONE record   *)
(* `st`; every action is En(st, ev, args) + the successor FUNCTION          *)
(* Do(st, ev, args).  NodeCacheTrace.tla EXTENDS this module and uses the   *)
(* very same En/Do as predicates over a logged (pre, event, post).          *)
(*                                                                          *)
(*   st.zk.pl   : instance -> [data, new]   children of /placement/<host>;  *)
(*                data = the node's payload (identity, expires, ...),       *)
(*                new  = the node's ctime is later than the cache file's    *)
(*                ctime (the only thing _cache(check_existing) looks at;    *)
(*                chosen by the environment, clocks of ZK and of the node   *)
(*                are independent)                                          *)
(*   st.zk.man  : instance -> manifest record        /scheduled/<instance>  *)
(*   st.dir     : name -> [dot, kind, content, complete]   <root>/cache     *)
(*                dot      = the name starts with "."                       *)
(*                content  = the bytes the file will hold once complete     *)
(*                complete = all of them are on disk (write is not atomic,  *)
(*                           rename is)                                     *)
(*   st.ag      : the event manager process (program counter of the stepped *)
(*                Sync, what it has read so far, bookkeeping for the        *)
(*                clauses: expected, written, disturbed)                    *)
(*   st.n       : event counters that bound the exhaustive runs             *)
(*   st.okstep  : ghost flag, the step clause of C12.atomic held on the     *)
(*                transition into this state                                *)
(*                                                                          *)
(* Sync is STEPPED exactly as the code does it, one step per system / ZK    *)
(* call:  SyncBegin (glob of non-dot names, set arithmetic)                 *)
(*   -> UnlinkExtra* -> for each missing (then, on the first sync, each     *)
(*   existing):  ReadPlacement (gone => skip; up to date => skip)           *)
(*   -> ReadManifest (gone => skip) -> CreateTmp (dot name) -> Write*       *)
(*   -> Chmod -> Close -> Rename -> UnlinkTmp   -> SyncEnd.                 *)
(* IOError may hit any file-system step (write_safe's `finally` then runs   *)
(* CloseErr / UnlinkTmp and the exception leaves _synchronize: Raise);      *)
(* Crash may hit between any two steps (nothing runs); ZooKeeper changes    *)
(* between any two steps.                                                   *)
(*                                                                          *)
(* Defects: code defects the model can REPRODUCE (HOWTO, last rule).  None  *)
(* is present in the repository; the two entries are the canned mutants     *)
(* used to show that the invariants are not vacuous:                        *)
(*   "direct_write"     write_safe opens the final name instead of a temp   *)
(*   "no_unlink_extra"  _synchronize does not remove extra entries          *)
(*   "stop_at_vanished" _synchronize leaves the loop over the missing entries *)
(*                      at the first one whose placement node is gone        *)
(*   "first_sync_unchecked"  run() marks the placement ready before the     *)
(*                      watch is registered: first sync has ce = FALSE      *)
EXTENDS Naturals, Integers, Sequences, FiniteSets, TLC

CONSTANTS Insts,          \* instance names (strings; never start with ".")
          MVers,          \* manifest versions
          PVers,          \* placement payload versions; 0 = node without data
          ManRec(_, _),   \* (instance, version) -> manifest record
          PDRec(_),       \* version -> placement payload record
          TaskOf(_),      \* instance -> task id (text after "#")
          Defects,
          MaxSetup, MaxEnv, MaxConc, MaxCrash, MaxErr, MaxSync, MaxWrites, MaxPrior,
          MaxRd, MaxHb,   \* readiness extension: presence/placement-node events, heartbeats (0 = off)
          PriorVers,      \* <<manifest version, payload version>> allowed in prior files
          NewFlags        \* values of `new` the environment may choose

VARIABLE st

Unbounded == 99

-----------------------------------------------------------------------------
(* records as functions                                                     *)
Put(f, k, v) == [x \in DOMAIN f \cup {k} |-> IF x = k THEN v ELSE f[x]]
Drop(f, k) == [x \in DOMAIN f \ {k} |-> f[x]]
Bump(c, max) == IF max = Unbounded THEN c ELSE c + 1
EmptyFn == [x \in {} |-> 0]

(* _cache: manifest['task'] = id; manifest.update(placement_data)           *)
Merge(m, p, task) ==
  [k \in DOMAIN m \cup DOMAIN p \cup {"task"} |->
     IF k \in DOMAIN p THEN p[k] ELSE IF k = "task" THEN task ELSE m[k]]

FileE(c) == [dot |-> FALSE, kind |-> "file", content |-> c, complete |-> TRUE]
TmpE(c, done) == [dot |-> TRUE, kind |-> "file", content |-> c, complete |-> done]
ReadyE == [dot |-> TRUE, kind |-> "file", content |-> EmptyFn, complete |-> FALSE]  \* empty flag file
ReadyName == ".ready"

NonDot(dir) == {nm \in DOMAIN dir : ~dir[nm].dot}
DotNames(dir) == {nm \in DOMAIN dir : dir[nm].dot}
TmpName(a, k) == "." \o a \o "-" \o ToString(k)
MaxTmpIdx == MaxPrior + MaxCrash + MaxErr + 1
FreshTmp(dir, a) ==
  TmpName(a, CHOOSE k \in 1..(Cardinality(DOMAIN dir) + 1) :
               /\ TmpName(a, k) \notin DOMAIN dir
               /\ \A j \in 1..(k - 1) : TmpName(a, j) \in DOMAIN dir)

Ag0 == [pc |-> "down", first |-> TRUE, expected |-> {}, ce |-> FALSE,
        extra |-> {}, missing |-> {}, existing |-> {},
        cur |-> "", chk |-> FALSE, pd |-> EmptyFn, md |-> EmptyFn, tmp |-> "",
        written |-> {}, disturbed |-> FALSE, err |-> FALSE, nw |-> 0, tmps0 |-> {},
        start |-> FALSE, stale0 |-> {}, touched |-> {}]

(* readiness side of EventMgr.run() (extension beyond C12, see the section   *)
(* "readiness" below): the live main loop and its two Event flags            *)
Rd0 == [live |-> FALSE, pc |-> "off", presRdy |-> FALSE, plRdy |-> FALSE, watch |-> FALSE,
        cb |-> "none", sync1 |-> FALSE, wd |-> FALSE]

St0 == [zk |-> [pl |-> EmptyFn, man |-> EmptyFn, presence |-> TRUE, plnode |-> TRUE],
        dir |-> EmptyFn, ag |-> Ag0, rd |-> Rd0,
        n |-> [setup |-> 0, env |-> 0, conc |-> 0, crash |-> 0, err |-> 0, sync |-> 0,
               rd |-> 0, hb |-> 0],
        okstep |-> TRUE]

InSyncPcs == {"loop", "rdM", "create", "write", "close", "eclose", "rename", "rmtmp", "raise"}
InSync(s) == s.ag.pc \in InSyncPcs
Alive(s) == s.ag.pc \notin {"down", "dead", "failed"}
(* the live loop sleeps, no callback is pending, no sync is running: kazoo    *)
(* delivers watch callbacks while the main thread sleeps; the model takes    *)
(* the schedule in which each is delivered before the next change            *)
Quiet(s) == /\ s.rd.live /\ s.rd.pc = "sleeping" /\ s.rd.cb = "none"
            /\ s.ag.pc \in {"idle", "synced"}

-----------------------------------------------------------------------------
(* environment: ZooKeeper changes (scheduler/master.py, any time)           *)

EnvBudget(s) ==
  IF s.rd.live THEN Quiet(s) /\ s.n.env < MaxEnv
  ELSE IF s.ag.pc = "down" THEN s.n.setup < MaxSetup
  ELSE IF InSync(s) THEN s.n.conc < MaxConc
  ELSE s.n.env < MaxEnv

(* bookkeeping common to every ZooKeeper change *)
EnvNote(s) ==
  [s EXCEPT !.n = IF s.ag.pc = "down" THEN [@ EXCEPT !.setup = Bump(@, MaxSetup)]
                   ELSE IF InSync(s) THEN [@ EXCEPT !.conc = @ + 1]
                   ELSE [@ EXCEPT !.env = @ + 1],
            !.ag.disturbed = IF InSync(s) THEN TRUE ELSE @,
            !.ag.pc = IF @ = "synced" THEN "idle" ELSE @]

(* instances whose ZooKeeper nodes changed while the current sync was running *)
Touch(s, a) == IF InSync(s) THEN s.ag.touched \cup {a} ELSE s.ag.touched

(* a change of the children reaches a live ChildrenWatch *)
Kick(s) == IF s.rd.live /\ s.rd.watch THEN "children" ELSE s.rd.cb

PlaceEn(s, a, p, new) == a \notin DOMAIN s.zk.pl /\ s.zk.plnode
PlaceDo(s, a, p, new) ==
  [EnvNote(s) EXCEPT !.zk.pl = Put(@, a, [data |-> PDRec(p), new |-> new]), !.rd.cb = Kick(s),
                     !.ag.touched = Touch(s, a)]

UnplaceEn(s, a) == a \in DOMAIN s.zk.pl
UnplaceDo(s, a) == [EnvNote(s) EXCEPT !.zk.pl = Drop(@, a), !.rd.cb = Kick(s),
                                      !.ag.touched = Touch(s, a)]

(* zkutils.put on an existing node: payload changes, ctime does not *)
(* (a put of identical data is possible; the exhaustive runs skip it, see    *)
(* the Next-level wrappers SetPD / SetMan)                                  *)
SetPDEn(s, a, p) == a \in DOMAIN s.zk.pl
SetPDDo(s, a, p) == [EnvNote(s) EXCEPT !.zk.pl[a].data = PDRec(p), !.ag.touched = Touch(s, a)]

SetManEn(s, a, v) == TRUE
SetManDo(s, a, v) == [EnvNote(s) EXCEPT !.zk.man = Put(@, a, ManRec(a, v)), !.ag.touched = Touch(s, a)]

DelManEn(s, a) == a \in DOMAIN s.zk.man
DelManDo(s, a) == [EnvNote(s) EXCEPT !.zk.man = Drop(@, a), !.ag.touched = Touch(s, a)]

-----------------------------------------------------------------------------
(* prior life of the cache directory (before the process under test starts) *)

PriorFileEn(s, a, v, p) == s.ag.pc = "down" /\ a \notin DOMAIN s.dir
PriorFileDo(s, a, v, p) ==
  [s EXCEPT !.dir = Put(@, a, FileE(Merge(ManRec(a, v), PDRec(p), TaskOf(a)))),
            !.n.setup = Bump(@, MaxSetup)]

(* leftover of an earlier crash: a dot file with a partial manifest *)
PriorTmpEn(s, a, nm) == s.ag.pc = "down" /\ nm \notin DOMAIN s.dir
PriorTmpDo(s, a, nm) ==
  [s EXCEPT !.dir = Put(@, nm, TmpE(EmptyFn, FALSE)), !.n.setup = Bump(@, MaxSetup)]

(* a zero-length file under an instance's name, left by an earlier life of   *)
(* the directory (full disk, an older version's interrupted write); only in  *)
(* the step functions (recorded traces), not in Next                        *)
PriorEmptyEn(s, a) == s.ag.pc = "down" /\ a \notin DOMAIN s.dir
PriorEmptyDo(s, a) ==
  [s EXCEPT !.dir = Put(@, a, [dot |-> FALSE, kind |-> "file", content |-> EmptyFn, complete |-> FALSE])]

-----------------------------------------------------------------------------
(* the process                                                              *)

BootEn(s) == s.ag.pc = "down"
BootDo(s) == [s EXCEPT !.ag.pc = "idle"]

(* _cache_notify: runs on the main thread and on the presence watch, i.e.   *)
(* concurrently with a Sync; touches only the dot name ".ready"             *)
NotifyEn(s, r) == Alive(s) /\ ~s.rd.live /\ (r = (ReadyName \notin DOMAIN s.dir))
NotifyDo(s, r) ==
  [s EXCEPT !.dir = IF r THEN Put(@, ReadyName, ReadyE) ELSE Drop(@, ReadyName),
            !.n = IF InSync(s) THEN [@ EXCEPT !.conc = @ + 1] ELSE [@ EXCEPT !.env = @ + 1],
            !.ag.pc = IF @ = "synced" THEN "idle" ELSE @]

(* _synchronize, up to the first system call: glob('*') skips dot names *)
(* (in the live loop a sync is a ChildrenWatch callback: at the registration  *)
(* or after a change of the children, with check_existing = not placement_ready) *)
SyncBeginEn(s, exp, ce) ==
  /\ s.ag.pc \in {"idle", "synced"}
  /\ s.rd.live => /\ (s.rd.pc = "reg" \/ (s.rd.pc = "sleeping" /\ s.rd.cb = "children"))
                   /\ ce = ~s.rd.plRdy
                   /\ exp = DOMAIN s.zk.pl
SyncBeginDo(s, exp, ce) ==
  LET cur == NonDot(s.dir) IN
  [s EXCEPT !.ag = [Ag0 EXCEPT
       !.pc = "loop", !.first = FALSE, !.expected = exp, !.ce = ce,
       !.extra = IF "no_unlink_extra" \in Defects THEN {} ELSE cur \ exp,
       !.missing = exp \ cur,
       !.existing = IF ce THEN cur \cap exp ELSE {},
       !.disturbed = (exp # DOMAIN s.zk.pl),
       !.tmps0 = DotNames(s.dir),
       \* this is the first sync of a process life (whatever `ce` the wiring passed) ...
       !.start = s.ag.first,
       \* ... and these entries are OUTDATED: older than their (re-created) placement node
       !.stale0 = {a \in (cur \cap exp) \cap DOMAIN s.zk.pl : s.zk.pl[a].new}],
            !.n.sync = Bump(@, MaxSync),
            !.rd.cb = IF @ = "children" THEN "none" ELSE @]

UnlinkExtraEn(s, a) == s.ag.pc = "loop" /\ a \in s.ag.extra /\ a \in DOMAIN s.dir
UnlinkExtraDo(s, a) == [s EXCEPT !.dir = Drop(@, a), !.ag.extra = @ \ {a}]

(* _cache, first ZooKeeper read (+ os.stat when check_existing)             *)
NextApps(s) == IF s.ag.missing # {} THEN s.ag.missing ELSE s.ag.existing
ReadPlacementEn(s, a) == s.ag.pc = "loop" /\ s.ag.extra = {} /\ a \in NextApps(s)
ReadPlacementDo(s, a) ==
  LET chk == a \notin s.ag.missing
      s1 == [s EXCEPT !.ag.missing = @ \ {a}, !.ag.existing = @ \ {a}]
  IN IF a \notin DOMAIN s.zk.pl
     THEN IF "stop_at_vanished" \in Defects /\ ~chk
          THEN [s1 EXCEPT !.ag.missing = {}]            \* (defect) `break` out of the loop
          ELSE s1                                       \* NoNodeError: return
     ELSE IF chk /\ a \in DOMAIN s.dir /\ ~s.zk.pl[a].new
     THEN s1                                            \* "is up to date": return
     ELSE [s1 EXCEPT !.ag.pc = "rdM", !.ag.cur = a, !.ag.chk = chk,
                     !.ag.pd = s.zk.pl[a].data]

ReadManifestEn(s, a) == s.ag.pc = "rdM" /\ a = s.ag.cur
ReadManifestDo(s, a) ==
  IF a \notin DOMAIN s.zk.man
  THEN [s EXCEPT !.ag.pc = "loop", !.ag.cur = ""]       \* NoNodeError: return
  ELSE [s EXCEPT !.ag.pc = "create", !.ag.md = s.zk.man[a]]

Target(s) == Merge(s.ag.md, s.ag.pd, TaskOf(s.ag.cur))

(* fs.write_safe: tempfile.NamedTemporaryFile(dir=cache, prefix='.<a>-')    *)
CreateTmpEn(s, nm) ==
  /\ s.ag.pc = "create"
  /\ IF "direct_write" \in Defects THEN nm = s.ag.cur ELSE nm \notin DOMAIN s.dir
CreateTmpDo(s, nm) ==
  [s EXCEPT !.dir = Put(@, nm, IF "direct_write" \in Defects
                               THEN [FileE(Target(s)) EXCEPT !.complete = FALSE]
                               ELSE TmpE(Target(s), FALSE)),
            !.ag.tmp = nm, !.ag.pc = "write", !.ag.nw = 0]

(* one write() of yaml.dump; `done` = every byte of the manifest is on disk *)
(* afterwards (it usually is not: the stream is buffered until close)       *)
WriteEn(s, done) == s.ag.pc = "write" /\ s.ag.nw < MaxWrites
WriteDo(s, done) == [s EXCEPT !.dir[s.ag.tmp].complete = done, !.ag.nw = @ + 1]

(* os.fchmod(fd, 0644) *)
ChmodEn(s) == s.ag.pc = "write"
ChmodDo(s) == [s EXCEPT !.ag.pc = "close"]

(* end of the `with` block: flush + close *)
CloseEn(s) == s.ag.pc = "close"
CloseDo(s) == [s EXCEPT !.dir[s.ag.tmp].complete = TRUE, !.ag.pc = "rename"]

(* os.replace(tmp, final): atomic *)
RenameEn(s) == s.ag.pc = "rename" /\ s.ag.tmp \in DOMAIN s.dir
RenameDo(s) ==
  [s EXCEPT !.dir = Put(Drop(@, s.ag.tmp), s.ag.cur, [@[s.ag.tmp] EXCEPT !.dot = FALSE]),
            !.ag.written = @ \cup {s.ag.cur}, !.ag.pc = "rmtmp"]

(* finally: rm_safe(tmp) -- ENOENT after a successful replace *)
UnlinkTmpEn(s, nm) == s.ag.pc = "rmtmp" /\ nm = s.ag.tmp
UnlinkTmpDo(s, nm) ==
  [s EXCEPT !.dir = IF nm \in DOMAIN @ /\ @[nm].dot THEN Drop(@, nm) ELSE @,
            !.ag.pc = IF s.ag.err THEN "raise" ELSE "loop",
            !.ag.tmp = "", !.ag.cur = ""]

SyncEndEn(s) == /\ s.ag.pc = "loop" /\ s.ag.extra = {}
                /\ s.ag.missing = {} /\ s.ag.existing = {}
SyncEndDo(s) == [s EXCEPT !.ag.pc = "synced",
                            !.rd.pc = IF s.rd.live /\ @ = "reg" THEN "regdone" ELSE @]

(* OSError raised by the system call that is next at this pc.               *)
(*   create: NamedTemporaryFile failed, tmpfile is None, nothing to remove  *)
(*   write : a write() or the fchmod failed; the `with` exit still closes   *)
(*   close / rename / rmtmp / unlink of an extra: see write_safe            *)
IOErrorEn(s, call) ==
  \/ call = "UnlinkExtra" /\ s.ag.pc = "loop" /\ s.ag.extra # {}
  \/ call = "CreateTmp" /\ s.ag.pc = "create"
  \/ call \in {"Write", "Chmod"} /\ s.ag.pc = "write"
  \/ call = "Close" /\ s.ag.pc = "close"
  \/ call = "Rename" /\ s.ag.pc = "rename"
  \/ call = "UnlinkTmp" /\ s.ag.pc = "rmtmp"
IOErrorDo(s, call) ==
  [s EXCEPT !.ag.err = TRUE,
            !.n.err = @ + 1,
            !.ag.pc = CASE call \in {"UnlinkExtra", "CreateTmp", "UnlinkTmp"} -> "raise"
                        [] call \in {"Write", "Chmod"} -> "eclose"
                        [] OTHER -> "rmtmp"]

(* the `with` exit on the error path: whatever was buffered may or may not  *)
(* reach the disk                                                           *)
CloseErrEn(s, done) == s.ag.pc = "eclose"
CloseErrDo(s, done) == [s EXCEPT !.dir[s.ag.tmp].complete = done, !.ag.pc = "rmtmp"]

(* the exception leaves _synchronize; utils.exit_on_unhandled ends the      *)
(* process                                                                  *)
RaiseEn(s) == s.ag.pc = "raise"
RaiseDo(s) == [s EXCEPT !.ag.pc = "failed"]

(* power loss / SIGKILL: no `finally` runs; the directory stays as it is    *)
CrashEn(s) == Alive(s)
CrashDo(s) == [s EXCEPT !.ag.pc = "dead", !.n.crash = @ + 1]

RestartEn(s) == s.ag.pc \in {"dead", "failed"}
RestartDo(s) == [s EXCEPT !.ag = [Ag0 EXCEPT !.pc = "idle"],
                            !.rd = [Rd0 EXCEPT !.wd = s.rd.wd]]   \* the lease file stays

-----------------------------------------------------------------------------
(* READINESS (extension beyond C12; trace clauses ext.ready.*, DRIFT class)  *)
(*                                                                          *)
(* EventMgr.run(): presence_ready is kept by a DataWatch on                  *)
(* /server.presence/<host> (set when the node exists / appears / changes,   *)
(* cleared when it is absent / deleted); placement_ready is a LATCH: set    *)
(* after _check_placement found /placement/<host>, registered the           *)
(* ChildrenWatch and that registration's (first) sync returned; it is never *)
(* cleared.  _cache_notify(presence_ready and placement_ready) runs after   *)
(* every presence callback, after the latch is set, and after every         *)
(* heartbeat pause: it (re)writes `.ready` (empty file: MODIFIED/CREATED    *)
(* event for appcfgmgr) or removes it.  So `.ready` means: "the presence    *)
(* node exists and the cache has been synchronised at least once in this    *)
(* process life"; it does NOT mean the placement node still exists: when    *)
(* /placement/<host> is deleted the ChildrenWatch stops silently (kazoo and *)
(* zkfake: NoNodeError ends the recipe), the latch stays set, `.ready`      *)
(* keeps being rewritten, and because _check_placement returns at once when *)
(* the latch is set no watch is registered when the node reappears: the     *)
(* cache is frozen until the process restarts (InvReadyIdeal /              *)
(* InvFollowsIdeal below are violated by the model of the code).            *)

RdBudget(s) == /\ s.n.rd < MaxRd
               /\ (s.rd.live => Quiet(s))
               /\ ~InSync(s)
RdNote(s) == [s EXCEPT !.n.rd = @ + 1, !.ag.pc = IF @ = "synced" THEN "idle" ELSE @]
PresKick(s) == IF s.rd.live /\ s.rd.pc # "pw" THEN "pres" ELSE s.rd.cb

PresenceAppearsEn(s) == ~s.zk.presence
PresenceAppearsDo(s) == [RdNote(s) EXCEPT !.zk.presence = TRUE, !.rd.cb = PresKick(s)]
PresenceDisappearsEn(s) == s.zk.presence
PresenceDisappearsDo(s) == [RdNote(s) EXCEPT !.zk.presence = FALSE, !.rd.cb = PresKick(s)]

(* recursive delete of /placement/<host> (server removed from the cell,     *)
(* blackout tooling): children vanish with it; a live ChildrenWatch gets    *)
(* NoNodeError on its next read and stops -- no callback, nothing observable *)
PlacementDisappearsEn(s) == s.zk.plnode
PlacementDisappearsDo(s) ==
  [RdNote(s) EXCEPT !.zk.plnode = FALSE, !.zk.pl = EmptyFn, !.rd.watch = FALSE]
PlacementAppearsEn(s) == ~s.zk.plnode
PlacementAppearsDo(s) == [RdNote(s) EXCEPT !.zk.plnode = TRUE]

(* run(): watchdog lease created + first heartbeat, events cleared *)
LiveStartEn(s) == s.ag.pc = "idle" /\ s.ag.first /\ ~s.rd.live
LiveStartDo(s) == [s EXCEPT !.rd = [Rd0 EXCEPT !.live = TRUE, !.pc = "pw", !.wd = TRUE]]

(* every call of _cache_notify(is_ready), with the flag update that precedes it *)
CnCtx(s) ==
  CASE s.rd.pc = "pw" -> "pw"                                   \* DataWatch registration
    [] s.rd.pc = "regdone" -> "regdone"                         \* placement_ready.set()
    [] s.rd.pc = "woke" -> "woke"                               \* after time.sleep
    [] s.rd.pc = "sleeping" /\ s.rd.cb = "pres" -> "cb"          \* presence callback
    [] OTHER -> "no"
CnRd(s) ==
  LET c == CnCtx(s) IN
  [s.rd EXCEPT !.presRdy = IF c \in {"pw", "cb"} THEN s.zk.presence ELSE @,
               !.plRdy = IF c = "regdone" THEN TRUE ELSE @,
               !.sync1 = IF c = "regdone" THEN TRUE ELSE @,
               !.cb = IF c = "cb" THEN "none" ELSE @,
               !.pc = CASE c = "pw" -> "check" [] c = "regdone" -> "presleep"
                        [] c = "woke" -> "check" [] OTHER -> @]
CacheNotifyEn(s, r) == /\ s.rd.live /\ Alive(s) /\ CnCtx(s) # "no"
                       /\ r = (CnRd(s).presRdy /\ CnRd(s).plRdy)
CacheNotifyDo(s, r) ==
  [s EXCEPT !.rd = CnRd(s),
            !.dir = IF r THEN Put(@, ReadyName, ReadyE) ELSE Drop(@, ReadyName)]

(* _check_placement when the latch is not set: zkclient.exists(/placement/<host>) *)
ZkExistsEn(s, found) == /\ s.rd.live /\ Alive(s) /\ s.rd.pc = "check" /\ ~s.rd.plRdy
                        /\ found = s.zk.plnode
ZkExistsDo(s, found) ==
  IF found THEN [s EXCEPT !.rd.watch = TRUE, !.rd.pc = "reg"]   \* ChildrenWatch(...): first sync follows
  ELSE [s EXCEPT !.rd.pc = "presleep"]

(* watchdog_lease.heartbeat(); time.sleep(_HEARTBEAT_SEC) *)
SleepEn(s) == /\ s.rd.live /\ Alive(s)
              /\ (s.rd.pc = "presleep" \/ (s.rd.pc = "check" /\ s.rd.plRdy))
SleepDo(s) == [s EXCEPT !.rd.pc = "sleeping", !.rd.wd = TRUE]

(* the pause is over *)
HeartbeatEn(s) == Quiet(s)
HeartbeatDo(s) == [s EXCEPT !.rd.pc = "woke", !.n.hb = @ + 1,
                            !.ag.pc = IF @ = "synced" THEN "idle" ELSE @]

-----------------------------------------------------------------------------
(* C12, clause by clause.  The operators take the directory / ZooKeeper     *)
(* state explicitly so that NodeCacheTrace.tla evaluates the same formulas  *)
(* on observed states.                                                      *)

(* "contains that manifest merged with the placement data (identity,        *)
(* expiry, task id)": some snapshot of each ingredient                      *)
IsSnapshot(nm, c) ==
  \E v \in MVers, p \in PVers : c = Merge(ManRec(nm, v), PDRec(p), TaskOf(nm))

(* C12.atomic, state part: "a cache file is either absent or complete";     *)
(* partial content lives only under dot names                               *)
AtomicState(dir) ==
  \A nm \in DOMAIN dir :
     ~dir[nm].dot => /\ dir[nm].complete
                     /\ nm \in Insts
                     /\ IsSnapshot(nm, dir[nm].content)

(* C12.atomic, step part: a non-dot name appears or changes only by a       *)
(* Rename of a complete dot file onto it                                    *)
(* (steps of the directory's prior life, pc = "down", are not the agent's)   *)
AtomicStep(s, t) ==
  s.ag.pc # "down" =>
  \A nm \in NonDot(t.dir) :
     (nm \notin DOMAIN s.dir \/ s.dir[nm] # t.dir[nm]) =>
        /\ s.ag.pc = "rename" /\ t.ag.pc = "rmtmp" /\ s.ag.cur = nm
        /\ s.ag.tmp \in DOMAIN s.dir /\ s.ag.tmp \notin DOMAIN t.dir
        /\ s.dir[s.ag.tmp].dot /\ s.dir[s.ag.tmp].complete
        /\ t.dir[nm].content = s.dir[s.ag.tmp].content

(* C12.noExtra: "names no instance that is not placed on this node"         *)
NoExtra(dir, expected) == NonDot(dir) \subseteq expected

(* C12.present: "every placed instance whose manifest exists has a cache    *)
(* file" (a missing placement node means the instance is not placed)        *)
Present(dir, zk, expected) ==
  \A a \in expected :
     (a \in DOMAIN zk.pl /\ a \in DOMAIN zk.man) => a \in NonDot(dir)

(* C12.refresh: the synchronisation that follows a (re)start re-validates    *)
(* the existing entries ("for all prior cache contents (stale, missing,     *)
(* extra, OUTDATED files)"): an entry that is older than its placement node  *)
(* -- the instance was placed again after the file was written -- belongs   *)
(* to the files this synchronisation writes, so afterwards it "contains     *)
(* that manifest merged with the placement data".  Stated on the CONTENT    *)
(* (not on "was rewritten"), only where manifest and placement node exist.  *)
Refresh(dir, zk, stale0) ==
  \A a \in stale0 :
     (a \in DOMAIN zk.pl /\ a \in DOMAIN zk.man) =>
        /\ a \in NonDot(dir)
        /\ dir[a].content = Merge(zk.man[a], zk.pl[a].data, TaskOf(a))

(* C12.content: "each file written by the synchronisation contains that     *)
(* manifest merged with the placement data"                                 *)
Content(dir, zk, written) ==
  \A a \in written :
     /\ a \in NonDot(dir) /\ a \in DOMAIN zk.pl /\ a \in DOMAIN zk.man
     /\ dir[a].content = Merge(zk.man[a], zk.pl[a].data, TaskOf(a))

-----------------------------------------------------------------------------
(* dispatcher on (event name, argument sequence): the labels TLC prints and *)
(* the `ev`/`args` of a recorded trace line                                 *)

En(s, ev, x) ==
  CASE ev = "Place" -> PlaceEn(s, x[1], x[2], x[3])
    [] ev = "Unplace" -> UnplaceEn(s, x[1])
    [] ev = "SetPD" -> SetPDEn(s, x[1], x[2])
    [] ev = "SetMan" -> SetManEn(s, x[1], x[2])
    [] ev = "DelMan" -> DelManEn(s, x[1])
    [] ev = "PriorFile" -> PriorFileEn(s, x[1], x[2], x[3])
    [] ev = "PriorTmp" -> PriorTmpEn(s, x[1], x[2])
    [] ev = "PriorEmpty" -> PriorEmptyEn(s, x[1])
    [] ev = "Boot" -> BootEn(s)
    [] ev = "Notify" -> NotifyEn(s, x[1])
    [] ev = "SyncBegin" -> SyncBeginEn(s, x[1], x[2])
    [] ev = "UnlinkExtra" -> UnlinkExtraEn(s, x[1])
    [] ev = "ReadPlacement" -> ReadPlacementEn(s, x[1])
    [] ev = "ReadManifest" -> ReadManifestEn(s, x[1])
    [] ev = "CreateTmp" -> CreateTmpEn(s, x[1])
    [] ev = "Write" -> WriteEn(s, x[1])
    [] ev = "Chmod" -> ChmodEn(s)
    [] ev = "Close" -> CloseEn(s)
    [] ev = "Rename" -> RenameEn(s)
    [] ev = "UnlinkTmp" -> UnlinkTmpEn(s, x[1])
    [] ev = "SyncEnd" -> SyncEndEn(s)
    [] ev = "IOError" -> IOErrorEn(s, x[1])
    [] ev = "CloseErr" -> CloseErrEn(s, x[1])
    [] ev = "Raise" -> RaiseEn(s)
    [] ev = "Crash" -> CrashEn(s)
    [] ev = "Restart" -> RestartEn(s)
    [] ev = "PresenceAppears" -> PresenceAppearsEn(s)
    [] ev = "PresenceDisappears" -> PresenceDisappearsEn(s)
    [] ev = "PlacementAppears" -> PlacementAppearsEn(s)
    [] ev = "PlacementDisappears" -> PlacementDisappearsEn(s)
    [] ev = "LiveStart" -> LiveStartEn(s)
    [] ev = "CacheNotify" -> CacheNotifyEn(s, x[1])
    [] ev = "ZkExists" -> ZkExistsEn(s, x[1])
    [] ev = "Sleep" -> SleepEn(s)
    [] ev = "Heartbeat" -> HeartbeatEn(s)
    [] OTHER -> FALSE

Do(s, ev, x) ==
  CASE ev = "Place" -> PlaceDo(s, x[1], x[2], x[3])
    [] ev = "Unplace" -> UnplaceDo(s, x[1])
    [] ev = "SetPD" -> SetPDDo(s, x[1], x[2])
    [] ev = "SetMan" -> SetManDo(s, x[1], x[2])
    [] ev = "DelMan" -> DelManDo(s, x[1])
    [] ev = "PriorFile" -> PriorFileDo(s, x[1], x[2], x[3])
    [] ev = "PriorTmp" -> PriorTmpDo(s, x[1], x[2])
    [] ev = "PriorEmpty" -> PriorEmptyDo(s, x[1])
    [] ev = "Boot" -> BootDo(s)
    [] ev = "Notify" -> NotifyDo(s, x[1])
    [] ev = "SyncBegin" -> SyncBeginDo(s, x[1], x[2])
    [] ev = "UnlinkExtra" -> UnlinkExtraDo(s, x[1])
    [] ev = "ReadPlacement" -> ReadPlacementDo(s, x[1])
    [] ev = "ReadManifest" -> ReadManifestDo(s, x[1])
    [] ev = "CreateTmp" -> CreateTmpDo(s, x[1])
    [] ev = "Write" -> WriteDo(s, x[1])
    [] ev = "Chmod" -> ChmodDo(s)
    [] ev = "Close" -> CloseDo(s)
    [] ev = "Rename" -> RenameDo(s)
    [] ev = "UnlinkTmp" -> UnlinkTmpDo(s, x[1])
    [] ev = "SyncEnd" -> SyncEndDo(s)
    [] ev = "IOError" -> IOErrorDo(s, x[1])
    [] ev = "CloseErr" -> CloseErrDo(s, x[1])
    [] ev = "Raise" -> RaiseDo(s)
    [] ev = "Crash" -> CrashDo(s)
    [] ev = "Restart" -> RestartDo(s)
    [] ev = "PresenceAppears" -> PresenceAppearsDo(s)
    [] ev = "PresenceDisappears" -> PresenceDisappearsDo(s)
    [] ev = "PlacementAppears" -> PlacementAppearsDo(s)
    [] ev = "PlacementDisappears" -> PlacementDisappearsDo(s)
    [] ev = "LiveStart" -> LiveStartDo(s)
    [] ev = "CacheNotify" -> CacheNotifyDo(s, x[1])
    [] ev = "ZkExists" -> ZkExistsDo(s, x[1])
    [] ev = "Sleep" -> SleepDo(s)
    [] ev = "Heartbeat" -> HeartbeatDo(s)

-----------------------------------------------------------------------------
(* next-state relation for TLC (every disjunct: \E args : Action(args), so  *)
(* that behaviours carry labels with parameters)                            *)

(* `= TRUE` makes TLC evaluate the guard as a VALUE (short-circuit \/), not   *)
(* as an action disjunction whose branches it would explore separately      *)
(* The step clause of C12.atomic is evaluated on every transition and kept   *)
(* in the ghost flag st.okstep (an invariant is much cheaper for TLC than a  *)
(* PROPERTY [][A]_st, which builds the behaviour graph on disk).            *)
Act(ev, x) == /\ En(st, ev, x) = TRUE
              /\ LET t == Do(st, ev, x) IN
                 st' = [t EXCEPT !.okstep = AtomicStep(st, t)]

(* (TLC labels a step with the innermost definition that is not a bare      *)
(* operator application, hence the `Go /\` in front of bare Act calls)       *)
Go == TRUE
Place(a, p, new) == EnvBudget(st) /\ Act("Place", <<a, p, new>>)
Unplace(a) == EnvBudget(st) /\ Act("Unplace", <<a>>)
SetPD(a, p) == /\ EnvBudget(st)
               /\ (a \in DOMAIN st.zk.pl => st.zk.pl[a].data # PDRec(p))
               /\ Act("SetPD", <<a, p>>)
SetMan(a, v) == /\ EnvBudget(st)
                /\ (a \in DOMAIN st.zk.man => st.zk.man[a] # ManRec(a, v))
                /\ Act("SetMan", <<a, v>>)
DelMan(a) == EnvBudget(st) /\ Act("DelMan", <<a>>)
PriorFile(a, v, p) == st.n.setup < MaxSetup /\ Act("PriorFile", <<a, v, p>>)
PriorTmp(a) == /\ st.n.setup < MaxSetup
               /\ Cardinality(DotNames(st.dir)) < MaxPrior
               /\ Act("PriorTmp", <<a, FreshTmp(st.dir, a)>>)
Boot == Go /\ Act("Boot", <<>>)
PresenceAppears == RdBudget(st) /\ Act("PresenceAppears", <<>>)
PresenceDisappears == RdBudget(st) /\ Act("PresenceDisappears", <<>>)
PlacementAppears == RdBudget(st) /\ Act("PlacementAppears", <<>>)
PlacementDisappears == RdBudget(st) /\ Act("PlacementDisappears", <<>>)
LiveStart == MaxHb > 0 /\ Act("LiveStart", <<>>)
CacheNotify(r) == Go /\ Act("CacheNotify", <<r>>)
ZkExists(found) == Go /\ Act("ZkExists", <<found>>)
Sleep == Go /\ Act("Sleep", <<>>)
Heartbeat == st.n.hb < MaxHb /\ Act("Heartbeat", <<>>)
Notify(r) == EnvBudget(st) /\ Act("Notify", <<r>>)
(* EventMgr.run: _app_watch passes check_existing = not placement_ready.is_set(), *)
(* and placement_ready is set only after the watch registration returned      *)
SyncBegin == /\ st.n.sync < MaxSync
             /\ Act("SyncBegin", <<DOMAIN st.zk.pl,
                                   IF "first_sync_unchecked" \in Defects THEN FALSE ELSE st.ag.first>>)
UnlinkExtra(a) == Go /\ Act("UnlinkExtra", <<a>>)
ReadPlacement(a) == Go /\ Act("ReadPlacement", <<a>>)
ReadManifest(a) == Go /\ Act("ReadManifest", <<a>>)
(* (TLC splits \E into labelled sub-actions only over constant sets)         *)
CreateTmp(a, k) ==
  /\ a = st.ag.cur
  /\ IF "direct_write" \in Defects THEN k = 1 ELSE TmpName(a, k) = FreshTmp(st.dir, a)
  /\ Act("CreateTmp", <<IF "direct_write" \in Defects THEN a ELSE TmpName(a, k)>>)
Write(done) == Go /\ Act("Write", <<done>>)
Chmod == Go /\ Act("Chmod", <<>>)
Close == Go /\ Act("Close", <<>>)
Rename == Go /\ Act("Rename", <<>>)
UnlinkTmp == Go /\ Act("UnlinkTmp", <<st.ag.tmp>>)
SyncEnd == Go /\ Act("SyncEnd", <<>>)
IOError(call) == st.n.err < MaxErr /\ Act("IOError", <<call>>)
CloseErr(done) == Go /\ Act("CloseErr", <<done>>)
Raise == Go /\ Act("Raise", <<>>)
Crash == st.n.crash < MaxCrash /\ Act("Crash", <<>>)
Restart == Go /\ Act("Restart", <<>>)

Calls == {"UnlinkExtra", "CreateTmp", "Write", "Chmod", "Close", "Rename", "UnlinkTmp"}

Init == st = St0

Next ==
  \/ \E a \in Insts, p \in PVers, new \in NewFlags : Place(a, p, new)
  \/ \E a \in Insts : Unplace(a)
  \/ \E a \in Insts, p \in PVers : SetPD(a, p)
  \/ \E a \in Insts, v \in MVers : SetMan(a, v)
  \/ \E a \in Insts : DelMan(a)
  \/ \E a \in Insts, vp \in PriorVers : PriorFile(a, vp[1], vp[2])
  \/ \E a \in Insts : PriorTmp(a)
  \/ Boot
  \/ PresenceAppears \/ PresenceDisappears \/ PlacementAppears \/ PlacementDisappears
  \/ LiveStart
  \/ \E r \in BOOLEAN : CacheNotify(r)
  \/ \E found \in BOOLEAN : ZkExists(found)
  \/ Sleep
  \/ Heartbeat
  \/ \E r \in BOOLEAN : Notify(r)
  \/ SyncBegin
  \/ \E a \in Insts : UnlinkExtra(a)
  \/ \E a \in Insts : ReadPlacement(a)
  \/ \E a \in Insts : ReadManifest(a)
  \/ \E a \in Insts, k \in 1..MaxTmpIdx : CreateTmp(a, k)
  \/ \E done \in BOOLEAN : Write(done)
  \/ Chmod
  \/ Close
  \/ Rename
  \/ UnlinkTmp
  \/ SyncEnd
  \/ \E call \in Calls : IOError(call)
  \/ \E done \in BOOLEAN : CloseErr(done)
  \/ Raise
  \/ Crash
  \/ Restart

Spec == Init /\ [][Next]_st

-----------------------------------------------------------------------------
(* the clauses as invariants of the model                                   *)
Synced == st.ag.pc = "synced"

Undisturbed == ~st.ag.disturbed
InvAtomic == AtomicState(st.dir)
InvNoExtra == Synced => NoExtra(st.dir, st.ag.expected)
(* ... for every listed instance whose own nodes did not change during the  *)
(* sync (with a change of a's nodes "exists" has no single meaning for a;    *)
(* the OTHER instances are owed their file whatever happened to a)           *)
InvPresent == Synced => Present(st.dir, st.zk, st.ag.expected \ st.ag.touched)
InvContent == (Synced /\ Undisturbed) => Content(st.dir, st.zk, st.ag.written)
InvRefresh == (Synced /\ Undisturbed /\ st.ag.start) => Refresh(st.dir, st.zk, st.ag.stale0)
(* not part of C12, kept as a sanity check of the `finally: rm_safe`: a     *)
(* Sync that ran to its end (or failed with an OSError other than in        *)
(* rm_safe itself) leaves no dot file that was not there before             *)
(* readiness extension: what holds for the code ...                          *)
HasReady == ReadyName \in DOMAIN st.dir
InvRdyRule == Quiet(st) => /\ st.rd.presRdy = st.zk.presence
                           /\ HasReady <=> (st.zk.presence /\ st.rd.plRdy)
InvRdyFirstSync == /\ (st.rd.live /\ st.rd.pc # "pw" /\ HasReady) => st.rd.sync1
                   /\ st.rd.plRdy => st.rd.sync1
InvRdyWatch == st.rd.watch => (st.zk.plnode /\ st.rd.live)
InvRdyNoExtra == (Quiet(st) /\ st.rd.watch /\ st.rd.plRdy) => NonDot(st.dir) \subseteq DOMAIN st.zk.pl
InvRdyWd == st.rd.live => st.rd.wd
(* ... and what a reader of `.ready` might expect but the code does not give  *)
(* (NOT among the checked invariants; TLC refutes both, see NOTES_C12.md)    *)
InvReadyIdeal == (Quiet(st) /\ HasReady) => st.zk.plnode
InvFollowsIdeal == (Quiet(st) /\ HasReady) => NonDot(st.dir) \subseteq DOMAIN st.zk.pl

InvTmpClean == Synced => (DotNames(st.dir) \ {ReadyName}) \subseteq st.ag.tmps0

InvAtomicStep == st.okstep
PropAtomicStep == [][AtomicStep(st, st')]_st      \* same thing, slow

(* type sanity *)
TypeOK ==
  /\ DOMAIN st.zk.pl \subseteq Insts /\ DOMAIN st.zk.man \subseteq Insts
  /\ st.ag.expected \subseteq Insts /\ st.ag.written \subseteq Insts
  /\ st.ag.extra \cap st.ag.expected = {}

-----------------------------------------------------------------------------
(* concrete records for the exhaustive runs (cfg: ManRec <- MCManRec ...)   *)
MCManRec(a, v) == [name |-> a, ver |-> v]
MCPDRec(p) == IF p = 0 THEN EmptyFn ELSE [identity |-> p, expires |-> 100 + p]
MCTaskOf(a) == a
=============================================================================
