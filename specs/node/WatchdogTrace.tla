---------------------------- MODULE WatchdogTrace ----------------------------
(* Recorded executions of the real treadmill.watchdog.Watchdog                 *)
(* (harness/watchdog_driver.py: virtual clock, real directory).  Every line:  *)
(* event + what the real check() returned after it (names with failed_at) +   *)
(* the deadline found in every lease file.  The model state is carried along. *)
(*   ext.wd.step    files' deadlines # the model's after the event            *)
(*   ext.wd.check   check() # CheckResult(model state)                        *)
(*   ext.wd.data    a reported lease does not carry the content it was given  *)
(* Conformance class DRIFT (exit 0).                                          *)
EXTENDS WatchdogOps, TraceLib, Json, IOUtils

Batch == JsonDeserialize(IOEnv.TRACE_FILE)
Traces == Batch.traces

VARIABLES t, i, ms

Apply(s, line) ==
  CASE line.ev = "Create"     -> DoCreate(s, line.n, line.d)
    [] line.ev = "Heartbeat"  -> IF CanHeartbeat(s, line.n) THEN DoHeartbeat(s, line.n) ELSE s
    [] line.ev = "Remove"     -> IF CanRemove(s, line.n) THEN DoRemove(s, line.n) ELSE s
    [] line.ev = "Lose"       -> DoLose(s, line.n)
    [] line.ev = "Initialize" -> DoInitialize(s)
    [] line.ev = "Tick"       -> DoTick(s, line.d)
    [] OTHER -> s

F(name, ok) == IF ok THEN {} ELSE {name}
E(name, on) == IF on THEN {name} ELSE {}

TInit == t \in DOMAIN Traces /\ i = 1 /\ ms = Init0

TNext == /\ i < Len(Traces[t].lines)
         /\ i' = i + 1 /\ t' = t
         /\ LET line == Traces[t].lines[i + 1]
                nx == Apply(ms, line)
                got == {<<line.failed[x].n, line.failed[x].at>> : x \in DOMAIN line.failed}
            IN /\ ms' = nx
               /\ PrintT(ToJson([tid |-> Traces[t].tid, i |-> i,
                    fail |-> F("ext.wd.step", \A n \in Names : Get(line.dl, n, 0) = nx.dl[n])
                             \cup F("ext.wd.check", got = CheckResult(nx))
                             \cup F("ext.wd.data", \A x \in DOMAIN line.failed : line.failed[x].ok),
                    ex |-> E("failed", got # {}) \cup E("edge", \E n \in Names : nx.dl[n] = nx.now)
                           \cup E("relost", line.ev = "Heartbeat" /\ ms.dl[line.n] = None /\ ms.held[line.n] # None)]))

TraceSpec == TInit /\ [][TNext]_<<t, i, ms>>
=============================================================================
