\* AppCfg.tla with the behaviour of the unchanged appcfgmgr.py: TLC is expected to find counterexamples (replayed on the code)
SPECIFICATION Spec
CONSTANTS
  Instances = {"a1", "a2"}
  MaxGen = 2
  MaxEvents = 6
  Defects = {"cleanup_name", "sync_generation", "created_done"}
  LateMonitor = FALSE
  CleanupSvc = FALSE
INVARIANT TypeOK
PROPERTY PropOneLink
PROPERTY PropSync
PROPERTY PropHandoff
PROPERTY PropNoRestart
PROPERTY PropKeep
CHECK_DEADLOCK FALSE
