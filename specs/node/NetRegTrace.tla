---------------------------- MODULE NetRegTrace ----------------------------
(* Trace specification for recorded executions of the real                   *)
(* _run._unshare_network / _finish._cleanup (-> _cleanup_network) with the   *)
(* real RuleMgr, EndpointsMgr, ResourceServiceClient and                     *)
(* NetworkResourceService (harness/netreg_driver.py).                        *)
(* Batch file (env TRACE_FILE): [extip, pool, dns, traces |-> <<[tid, lines]>>]*)
(* line 1 is the initial state; later lines are                              *)
(*   [ev |-> "Start"|"Finish", c, res, raw, rm,                              *)
(*    post |-> [rules, specs, vring, infra, net]]                            *)
(* raw = the schema-level manifest the container was submitted with,         *)
(* rm = the registered manifest read back from state.json (Start lines).     *)
(* What each start added is remembered from the *observed* difference.       *)
EXTENDS NetReg, TraceLib, Json, IOUtils

Batch == JsonDeserialize(IOEnv.TRACE_FILE)
Traces == Batch.traces
TrPool == Batch.pool
TrExtIp == Batch.extip
TrDns == Batch.dns

VARIABLES t, i

CanonRm(j) ==
  IF ~Has(j, "eps") THEN NoMan
  ELSE [app |-> j.app, shared |-> j.shared, vring |-> j.vring, pid |-> j.pid, env |-> j.env,
        eps |-> {[name |-> e.name, proto |-> e.proto, infra |-> e.infra, real |-> e.real,
                  port |-> e.port] : e \in SetOf(j.eps)},
        etcp |-> SetOf(j.etcp), eudp |-> SetOf(j.eudp), pass |-> SetOf(j.pass)]

(* observable part from the log, bookkeeping from the model *)
Canon(j, model) ==
  [rules |-> SetOf(j.rules), specs |-> SetOf(j.specs), vring |-> SetOf(j.vring),
   infra |-> SetOf(j.infra), net |-> SetOf(j.net),
   man |-> model.man, fin |-> model.fin, failed |-> model.failed, ports |-> model.ports,
   mem |-> model.mem, bad |-> {}]

Model0 == [man |-> {}, fin |-> {}, failed |-> {}, ports |-> {}, mem |-> {}]

Obs(s) == [rules |-> s.rules, specs |-> s.specs, vring |-> s.vring, infra |-> s.infra,
           net |-> s.net]

AnyChoice(pre, line, rm) == CHOOSE v \in Choices(pre, line.ev, line.c, rm) : TRUE

Adopt(pre, line) ==
  LET rm == CanonRm(line.rm)
      m == Step(pre, line.ev, line.c, rm, AnyChoice(pre, line, rm)).post
      logged == Canon(line.post, [man |-> m.man, fin |-> m.fin, failed |-> m.failed,
                                  ports |-> m.ports, mem |-> pre.mem]) IN
  Remember(pre, line.ev, line.c, logged)

(* An aborted finish attempt (FinishFail line, res "raise"): where exactly    *)
(* the real call sequence was cut is finer than the model's six groups and    *)
(* set iteration orders are free, so it is explained by *what* it removed:    *)
(* only things the finish of this container removes, and not the network      *)
(* resource.                                                                  *)
AbortExplained(pre, line, post) ==
  LET c == line.c
      m == ManOf(pre, c) IN
  /\ line.res = "raise" /\ HasMan(pre, c) /\ ~m.shared /\ HasNet(pre, c)
  /\ LET w == VipOf(pre, c) IN
     /\ post.rules \subseteq pre.rules
     /\ pre.rules \ post.rules \subseteq {<<r, c>> : r \in FinRules(m, w)}
     /\ post.specs \subseteq pre.specs
     /\ \A p \in pre.specs \ post.specs : p[1][1] = m.app /\ p[2] = c
     /\ post.vring \subseteq pre.vring /\ pre.vring \ post.vring \subseteq {w}
     /\ post.infra \subseteq pre.infra /\ pre.infra \ post.infra \subseteq FinInfra(m, w)
     /\ post.net = pre.net

Explained(pre, line, post) ==
  LET rm == CanonRm(line.rm) IN
  IF line.ev = "FinishFail" THEN AbortExplained(pre, line, post) ELSE
  \E v \in Choices(pre, line.ev, line.c, rm) :
     LET r == Step(pre, line.ev, line.c, rm, v) IN
     r.res = line.res /\ Obs(r.post) = Obs(post)

(* ---- beyond C16: port allocation (ext.ports.*, conformance class) -------- *)
(* Start lines carry rm.num (port string -> number, from state.json) and      *)
(* socks (the sockets allocate_network_ports returned, inspected after        *)
(* save_app: <<proto, port>> of every one that is still open and bound).      *)
Ranges == Batch.ranges        \* [prod |-> <<low, high>>, nonprod |-> <<low, high>>], iptables.py
ExtRange(rm, num) ==
  LET r == Ranges[PortClass(rm.env)] IN
  /\ Ranges.prod[2] < Ranges.nonprod[1] \/ Ranges.nonprod[2] < Ranges.prod[1]
  /\ \A p \in PortsOf(rm, "tcp") \cup PortsOf(rm, "udp") :
        /\ Has(num, p) /\ ToString(num[p]) = p
        /\ r[1] <= num[p] /\ num[p] <= r[2]
ExtHeld(rm, socks) ==
  SetOf(socks) = {<<"tcp", p>> : p \in PortsOf(rm, "tcp")} \cup {<<"udp", p>> : p \in PortsOf(rm, "udp")}
ExtFail(pre, line) ==
  IF line.ev = "Start" /\ Has(line.rm, "eps")
  THEN LET rm == CanonRm(line.rm) IN
       ExtPortsFail(pre, line.c, line.raw, rm)
       \cup FailIf("ext.ports.range", ExtRange(rm, line.rm.num))
       \cup FailIf("ext.ports.held", ExtHeld(rm, line.socks))
  ELSE {}

Verdict(pre, line, post) ==
  [fail |-> StepFail(pre, line.ev, line.c, line.res, post)
            \cup ExtFail(pre, line)
            \cup FailIf("drift.step", Explained(pre, line, post))
            \cup FailIf("drift.alloc", (line.ev = "Start" /\ Has(line.rm, "eps"))
                                         => RegOk(line.raw, CanonRm(line.rm))),
   ex |-> StepEx(pre, line.ev, line.c, post)
          \cup FlagIf("ext.ports", line.ev = "Start" /\ Has(line.rm, "eps"))]

TrInit == /\ t \in DOMAIN Traces
          /\ i = 1
          /\ st = Canon(Traces[t].lines[1].post, Model0)

TrNext == /\ i < Len(Traces[t].lines)
          /\ i' = i + 1
          /\ t' = t
          /\ LET line == Traces[t].lines[i + 1] IN
             /\ st' = Adopt(st, line)
             /\ LET v == Verdict(st, line, st') IN
                PrintT(ToJson([tid |-> Traces[t].tid, i |-> i, fail |-> v.fail, ex |-> v.ex]))

TrSpec == TrInit /\ [][TrNext]_<<t, i, st>>
=============================================================================
