SPECIFICATION TrSpec
CHECK_DEADLOCK FALSE
CONSTANTS
 Containers = {}
 Pool <- TrPool
 ExtIp <- TrExtIp
 RawSpace = {}
 RealPorts = {}
 Pids = {}
 Dns <- TrDns
 MaxFinish = 0
 Defects = {}
 MaxFail = 0
 AllocAny = FALSE
 PortPool = {}
 Busy = {}
